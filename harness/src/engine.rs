//! Common runner: proptest-driven generation on a fixed worker pool, exhaustive enumerations,
//! known-finding classification, replay files, evidence files, stdout hygiene.
//!
//! Exit codes: 0 held / only listed known findings; 1 unlisted violation (VIOLATION line);
//! 2 inconclusive (infrastructure: watchdog, bad arguments).

use proptest::strategy::{BoxedStrategy, Strategy};
use proptest::test_runner::{Config, RngSeed, TestCaseError, TestError, TestRunner};
use serde::{de::DeserializeOwned, Deserialize, Serialize};
use serde_json::{json, Value};
use std::collections::{BTreeMap, HashSet};
use std::fmt::Debug;
use std::io::Write;
use std::sync::atomic::{AtomicBool, AtomicU64, Ordering};
use std::sync::{Arc, Mutex};
use std::time::Instant;

pub const WORKERS: usize = 16;

#[derive(Clone, Copy, PartialEq, Eq, Debug)]
pub enum Tier {
    Quick,
    Thorough,
}

impl Tier {
    pub fn pick<T>(self, q: T, t: T) -> T {
        match self {
            Tier::Quick => q,
            Tier::Thorough => t,
        }
    }
    pub fn name(self) -> &'static str {
        self.pick("quick", "thorough")
    }
}

// ------------------------------------------------------------------------------------------
// panic capture
// ------------------------------------------------------------------------------------------

#[derive(Clone, Debug)]
pub struct PanicSite {
    pub file: String,
    pub line: u32,
    pub msg: String,
}

impl PanicSite {
    /// Stable signature: file (repo-relative) + message with digits/quoted parts normalised.
    pub fn sig(&self) -> String {
        let mut kind = String::new();
        let mut last_hash = false;
        for ch in self.msg.chars().take(400) {
            if ch.is_ascii_digit() {
                if !last_hash {
                    kind.push('#');
                }
                last_hash = true;
            } else {
                last_hash = false;
                kind.push(if ch == '\n' { ' ' } else { ch });
            }
        }
        // cut variable payloads: keep the leading message kind only
        let cut = ["`", "'", "\"", ": "];
        let mut end = kind.len().min(70);
        for c in cut {
            if let Some(p) = kind.find(c) {
                if p >= 12 {
                    end = end.min(p);
                }
            }
        }
        while !kind.is_char_boundary(end) {
            end -= 1;
        }
        // repo-relative path, wherever the tree lives (scratch worktrees of the mutant runner included)
        let file = match self.file.find("/repo/") {
            Some(i) => &self.file[i + 6..],
            None => self.file.as_str(),
        };
        format!("panic@{}:{}", file, kind[..end].trim())
    }
}

thread_local! {
    static LAST_PANIC: std::cell::RefCell<Option<PanicSite>> = std::cell::RefCell::new(None);
}
static LAST_PANIC_ANY: Mutex<Option<PanicSite>> = Mutex::new(None);

pub fn install_panic_hook() {
    std::panic::set_hook(Box::new(|info| {
        let (file, line) = info
            .location()
            .map(|l| (l.file().to_string(), l.line()))
            .unwrap_or_else(|| ("?".into(), 0));
        let msg = if let Some(s) = info.payload().downcast_ref::<&str>() {
            s.to_string()
        } else if let Some(s) = info.payload().downcast_ref::<String>() {
            s.clone()
        } else {
            "<non-string panic>".to_string()
        };
        let site = PanicSite { file, line, msg };
        LAST_PANIC.with(|c| *c.borrow_mut() = Some(site.clone()));
        if let Ok(mut g) = LAST_PANIC_ANY.lock() {
            *g = Some(site);
        }
    }));
}

/// Run `f`, turning a panic into `Err(site)`. The closure must own / rebuild whatever engine state
/// it touches: after a panic that state is discarded by the caller.
pub fn catch<T>(f: impl FnOnce() -> T) -> Result<T, PanicSite> {
    LAST_PANIC.with(|c| *c.borrow_mut() = None);
    match std::panic::catch_unwind(std::panic::AssertUnwindSafe(f)) {
        Ok(v) => Ok(v),
        Err(payload) => {
            let mut site = LAST_PANIC.with(|c| c.borrow_mut().take());
            if site.is_none() {
                // panic happened on another thread (rayon worker) and was propagated
                site = LAST_PANIC_ANY.lock().ok().and_then(|g| g.clone());
                let pm = if let Some(s) = payload.downcast_ref::<&str>() {
                    Some(s.to_string())
                } else {
                    payload.downcast_ref::<String>().cloned()
                };
                if let (Some(s), Some(pm)) = (&mut site, pm) {
                    if s.msg != pm {
                        *s = PanicSite { file: "?".into(), line: 0, msg: pm };
                    }
                }
            }
            Err(site.unwrap_or(PanicSite { file: "?".into(), line: 0, msg: "<unknown panic>".into() }))
        }
    }
}

// ------------------------------------------------------------------------------------------
// outcome of one case
// ------------------------------------------------------------------------------------------

#[derive(Clone, Debug, Serialize, Deserialize)]
pub struct Failure {
    /// narrow, stable classification of the failure (keys known findings)
    pub sig: String,
    /// human readable detail (expected vs got)
    pub detail: String,
}

#[derive(Default, Debug)]
pub struct Outcome {
    pub nontrivial: bool,
    pub classes: Vec<&'static str>,
    pub failures: Vec<Failure>,
    pub ambiguous: u32,
    /// sub-evaluations inside this case (variants, interruption points, firings, ...)
    pub inner_evals: u64,
    /// comparisons skipped because they fall into a named exclusion class (not failures)
    pub skipped: Vec<&'static str>,
}

impl Outcome {
    pub fn new() -> Self {
        Self::default()
    }
    pub fn class(&mut self, c: &'static str) {
        if !self.classes.contains(&c) {
            self.classes.push(c);
        }
    }
    pub fn class_if(&mut self, cond: bool, c: &'static str) {
        if cond {
            self.class(c)
        }
    }
    pub fn fail(&mut self, sig: impl Into<String>, detail: impl Into<String>) {
        let sig = sig.into();
        if self.failures.len() < 8 && !self.failures.iter().any(|f| f.sig == sig) {
            let mut detail: String = detail.into();
            if detail.len() > 4000 {
                let mut e = 4000;
                while !detail.is_char_boundary(e) {
                    e -= 1;
                }
                detail.truncate(e);
                detail.push_str("…");
            }
            self.failures.push(Failure { sig, detail });
        }
    }
    pub fn panic(&mut self, ctx: &str, site: &PanicSite) {
        self.fail(site.sig(), format!("{ctx}: panic at {}:{}: {}", site.file, site.line, site.msg));
    }
    pub fn ok(&self) -> bool {
        self.failures.is_empty()
    }
}

// ------------------------------------------------------------------------------------------
// known findings
// ------------------------------------------------------------------------------------------

#[derive(Clone, Debug, Deserialize)]
pub struct KnownFinding {
    pub id: String,
    pub property: String,
    pub status: String, // "open" | "fixed"
    #[serde(default)]
    pub commit: Option<String>,
    pub what: String,
    /// exact failure signatures covered by this finding
    #[serde(default)]
    pub sigs: Vec<String>,
    /// replay file (relative to /verif) demonstrating it
    #[serde(default)]
    pub replay: Option<String>,
}

#[derive(Clone, Debug, Serialize, Deserialize)]
pub struct ReplayFile {
    pub property: String,
    pub part: String,
    pub case: Value,
    #[serde(default)]
    pub failures: Vec<Failure>,
    #[serde(default)]
    pub note: String,
}

// ------------------------------------------------------------------------------------------
// property part interface
// ------------------------------------------------------------------------------------------

pub trait Part: Sync {
    type Case: Clone + Debug + Serialize + DeserializeOwned + Send + 'static;
    fn name(&self) -> &'static str;
    /// proptest strategy (None for enumeration-only parts)
    fn strategy(&self, tier: Tier) -> BoxedStrategy<Self::Case>;
    fn cases(&self, tier: Tier) -> u32;
    fn check(&self, case: &Self::Case) -> Outcome;
    /// run cases on one thread only (the property owns thread pools / global state)
    fn serial(&self) -> bool {
        false
    }
    /// how often a saved case is re-run when replayed (engine hash order is randomised)
    fn replay_repeats(&self) -> u32 {
        1
    }
    fn describe(&self, case: &Self::Case) -> Value {
        serde_json::to_value(case).unwrap_or(Value::Null)
    }
    fn max_shrink_iters(&self, tier: Tier) -> u32 {
        tier.pick(600, 3000)
    }
}

#[derive(Default)]
struct PartStats {
    evaluations: u64,
    inner_evals: u64,
    nontrivial: HashSet<u64>,
    nontrivial_total: u64,
    classes: BTreeMap<&'static str, u64>,
    skipped: BTreeMap<&'static str, u64>,
    excluded_known: BTreeMap<String, u64>,
    ambiguous: u64,
    samples: Vec<Value>,
    exhaustive: Option<bool>,
}

impl PartStats {
    fn merge(&mut self, o: PartStats) {
        self.evaluations += o.evaluations;
        self.inner_evals += o.inner_evals;
        self.nontrivial_total += o.nontrivial_total;
        self.nontrivial.extend(o.nontrivial);
        for (k, v) in o.classes {
            *self.classes.entry(k).or_default() += v;
        }
        for (k, v) in o.skipped {
            *self.skipped.entry(k).or_default() += v;
        }
        for (k, v) in o.excluded_known {
            *self.excluded_known.entry(k).or_default() += v;
        }
        self.ambiguous += o.ambiguous;
        for s in o.samples {
            if self.samples.len() < 6 {
                self.samples.push(s);
            }
        }
    }
}

struct Violation {
    part: String,
    case: Value,
    failures: Vec<Failure>,
}

pub struct Session {
    pub id: &'static str,
    pub tier: Tier,
    pub seed: u64,
    level: &'static str,
    rule: String,
    assumptions: Vec<String>,
    replay: Option<ReplayFile>,
    replay_path: Option<String>,
    cases_override: Option<u32>,
    known: Vec<KnownFinding>,
    regressions: Vec<(String, ReplayFile)>,
    parts: Vec<(String, PartStats)>,
    violations: Vec<Violation>,
    known_seen: BTreeMap<String, bool>,
    out: std::fs::File,
    start: Instant,
    watchdog_s: u64,
}

fn fnv(s: &str) -> u64 {
    let mut h: u64 = 0xcbf29ce484222325;
    for b in s.as_bytes() {
        h ^= *b as u64;
        h = h.wrapping_mul(0x100000001b3);
    }
    h
}

pub fn mix(a: u64, b: u64) -> u64 {
    let mut z = a ^ b.wrapping_mul(0x9E3779B97F4A7C15);
    z = (z ^ (z >> 30)).wrapping_mul(0xBF58476D1CE4E5B9);
    z = (z ^ (z >> 27)).wrapping_mul(0x94D049BB133111EB);
    z ^ (z >> 31)
}

/// Root directory for known findings, replays, evidence, logs (KVH_ROOT overrides it for scratch runs).
fn verif_root() -> String {
    std::env::var("KVH_ROOT").unwrap_or_else(|_| "/verif".to_string())
}

impl Session {
    /// Parse `--tier`, `--seed`, `--replay`, `--cases`; redirect engine chatter to a log file.
    pub fn start(id: &'static str, level: &'static str, rule: &str) -> Session {
        let args: Vec<String> = std::env::args().collect();
        let mut tier = match std::env::var("VERIF_TIER").as_deref() {
            Ok("thorough") => Tier::Thorough,
            _ => Tier::Quick,
        };
        let mut seed: u64 = std::env::var("VERIF_SEED").ok().and_then(|s| s.trim().parse::<i64>().ok()).map(|v| v as u64).unwrap_or(0);
        let mut replay_path = None;
        let mut cases_override = None;
        let mut i = 1;
        while i < args.len() {
            match args[i].as_str() {
                "--tier" => {
                    i += 1;
                    tier = if args.get(i).map(|s| s.as_str()) == Some("thorough") { Tier::Thorough } else { Tier::Quick };
                }
                "--seed" => {
                    i += 1;
                    seed = args.get(i).and_then(|s| s.parse::<i64>().ok()).map(|v| v as u64).unwrap_or(0);
                }
                "--replay" => {
                    i += 1;
                    replay_path = args.get(i).cloned();
                }
                "--cases" => {
                    i += 1;
                    cases_override = args.get(i).and_then(|s| s.parse().ok());
                }
                _ => {}
            }
            i += 1;
        }
        // stdout hygiene: keep the real stdout for verdict lines, send fd 1/2 to a log file
        std::fs::create_dir_all(format!("{}/logs", verif_root())).ok();
        let out = unsafe {
            use std::os::unix::io::FromRawFd;
            let saved = libc::dup(1);
            let log = std::ffi::CString::new(format!("{}/logs/{id}.{}.log", verif_root(), tier.name())).unwrap();
            let fd = libc::open(log.as_ptr(), libc::O_WRONLY | libc::O_CREAT | libc::O_TRUNC, 0o644);
            if fd >= 0 {
                libc::dup2(fd, 1);
                libc::dup2(fd, 2);
                libc::close(fd);
            }
            std::fs::File::from_raw_fd(saved)
        };
        install_panic_hook();

        let known: Vec<KnownFinding> = std::fs::read_to_string(format!("{}/known_findings.json", verif_root()))
            .ok()
            .and_then(|s| serde_json::from_str::<Value>(&s).ok())
            .and_then(|v| v.get("findings").cloned())
            .and_then(|v| serde_json::from_value::<Vec<KnownFinding>>(v).ok())
            .unwrap_or_default()
            .into_iter()
            .filter(|k| k.property == id)
            .collect();

        let replay = replay_path.as_ref().map(|p| {
            let s = std::fs::read_to_string(p).unwrap_or_else(|e| {
                eprintln!("cannot read replay {p}: {e}");
                std::process::exit(2)
            });
            serde_json::from_str::<ReplayFile>(&s).unwrap_or_else(|e| {
                eprintln!("bad replay {p}: {e}");
                std::process::exit(2)
            })
        });

        let mut regressions = Vec::new();
        if replay.is_none() {
            if let Ok(rd) = std::fs::read_dir(format!("{}/replays/{id}", verif_root())) {
                let mut files: Vec<_> = rd.filter_map(|e| e.ok()).map(|e| e.path()).filter(|p| p.extension().map(|x| x == "json").unwrap_or(false)).collect();
                files.sort();
                for p in files {
                    if let Ok(s) = std::fs::read_to_string(&p) {
                        match serde_json::from_str::<ReplayFile>(&s) {
                            Ok(r) => regressions.push((p.to_string_lossy().to_string(), r)),
                            Err(e) => eprintln!("skip malformed replay {}: {e}", p.display()),
                        }
                    }
                }
            }
        }

        Session {
            id,
            tier,
            seed,
            level,
            rule: rule.to_string(),
            assumptions: vec![],
            replay,
            replay_path,
            cases_override,
            known,
            regressions,
            parts: vec![],
            violations: vec![],
            known_seen: BTreeMap::new(),
            out,
            start: Instant::now(),
            watchdog_s: 900,
        }
    }

    /// Account for evaluations made outside the runner (e.g. a libFuzzer campaign with the oracle in the target).
    pub fn note_inner(&mut self, part: &str, n: u64) {
        self.part_stats(part).inner_evals += n;
    }

    pub fn assume(&mut self, s: &str) {
        self.assumptions.push(s.to_string());
    }

    pub fn is_replay(&self) -> bool {
        self.replay.is_some()
    }

    fn open_known_sigs(&self) -> Arc<HashSet<String>> {
        Arc::new(self.known.iter().filter(|k| k.status == "open").flat_map(|k| k.sigs.iter().cloned()).collect())
    }

    fn finding_for_sig(&self, sig: &str) -> Option<&KnownFinding> {
        self.known.iter().find(|k| k.status == "open" && k.sigs.iter().any(|s| s == sig))
    }

    fn note_known(&mut self, failures: &[Failure]) {
        for f in failures {
            if let Some(k) = self.finding_for_sig(&f.sig) {
                let id = k.id.clone();
                self.known_seen.insert(id, true);
            }
        }
    }

    /// Replays (explicit `--replay`, saved regressions, known findings) for one part.
    fn run_replays<P: Part>(&mut self, p: &P) -> bool {
        let known_sigs = self.open_known_sigs();
        let mut todo: Vec<(String, ReplayFile)> = vec![];
        let explicit = self.replay.is_some();
        if let Some(r) = &self.replay {
            if r.part == p.name() {
                todo.push((self.replay_path.clone().unwrap_or_default(), r.clone()));
            }
        } else {
            for (path, r) in &self.regressions {
                if r.part == p.name() {
                    todo.push((path.clone(), r.clone()));
                }
            }
        }
        for (path, r) in todo {
            let case: P::Case = match serde_json::from_value(r.case.clone()) {
                Ok(c) => c,
                Err(e) => {
                    eprintln!("replay {path}: cannot decode case: {e}");
                    continue;
                }
            };
            let mut all: Vec<Failure> = vec![];
            let reps = p.replay_repeats().max(1);
            let mut failing_runs = 0;
            for _ in 0..reps {
                let o = guarded_check(p, &case);
                if !o.failures.is_empty() {
                    failing_runs += 1;
                }
                for f in o.failures {
                    if !all.iter().any(|x| x.sig == f.sig) {
                        all.push(f);
                    }
                }
            }
            eprintln!("replay {path}: {failing_runs}/{reps} runs failed; sigs={:?}", all.iter().map(|f| &f.sig).collect::<Vec<_>>());
            let (known_f, new_f): (Vec<Failure>, Vec<Failure>) = all.into_iter().partition(|f| known_sigs.contains(&f.sig));
            self.note_known(&known_f);
            if !new_f.is_empty() {
                self.violations.push(Violation { part: p.name().to_string(), case: r.case.clone(), failures: new_f });
            }
            let st = self.part_stats(p.name());
            st.evaluations += reps as u64;
        }
        explicit
    }

    fn part_stats(&mut self, name: &str) -> &mut PartStats {
        if let Some(i) = self.parts.iter().position(|(n, _)| n == name) {
            return &mut self.parts[i].1;
        }
        self.parts.push((name.to_string(), PartStats::default()));
        &mut self.parts.last_mut().unwrap().1
    }

    /// Generated-input search for one part of the property.
    pub fn run<P: Part>(&mut self, p: &P) {
        if self.run_replays(p) || self.is_replay() {
            return;
        }
        let total = self.cases_override.unwrap_or_else(|| p.cases(self.tier));
        if total == 0 {
            return;
        }
        let workers = if p.serial() { 1 } else { WORKERS.min(total as usize).max(1) };
        let known_sigs = self.open_known_sigs();
        let stop = AtomicBool::new(false);
        let tier = self.tier;
        let base_seed = mix(mix(self.seed, fnv(self.id)), fnv(p.name()));
        let heartbeat: Vec<AtomicU64> = (0..workers).map(|_| AtomicU64::new(0)).collect();
        let done = AtomicBool::new(false);
        let epoch = Instant::now();
        let watchdog_s = self.watchdog_s;
        let results: Mutex<Vec<(PartStats, Option<Violation>)>> = Mutex::new(vec![]);
        let id = self.id;
        std::thread::scope(|scope| {
            // watchdog: a hang is an infrastructure problem (exit 2), never a violation
            scope.spawn(|| {
                while !done.load(Ordering::Relaxed) {
                    std::thread::sleep(std::time::Duration::from_millis(500));
                    let now = epoch.elapsed().as_secs();
                    for hb in heartbeat.iter() {
                        let t = hb.load(Ordering::Relaxed);
                        if t != 0 && t != u64::MAX && now.saturating_sub(t) > watchdog_s {
                            eprintln!("WATCHDOG: a case of {id} ran longer than {watchdog_s}s — inconclusive");
                            std::process::exit(2);
                        }
                    }
                }
            });
            let mut handles = vec![];
            for w in 0..workers {
                let quota = total / workers as u32 + if (w as u32) < total % workers as u32 { 1 } else { 0 };
                let known_sigs = known_sigs.clone();
                let stop = &stop;
                let heartbeat = &heartbeat;
                let results = &results;
                let epoch = &epoch;
                let builder = std::thread::Builder::new().stack_size(64 << 20).name(format!("kvh-{w}"));
                let h = builder
                    .spawn_scoped(scope, move || {
                        let mut stats = PartStats::default();
                        let failed = std::cell::Cell::new(false);
                        let stats_cell = std::cell::RefCell::new(&mut stats);
                        let mut runner = TestRunner::new(Config {
                            cases: quota,
                            rng_seed: RngSeed::Fixed(mix(base_seed, w as u64)),
                            failure_persistence: None,
                            max_shrink_iters: p.max_shrink_iters(tier),
                            max_global_rejects: 1 << 20,
                            ..Config::default()
                        });
                        let strat = p.strategy(tier);
                        let res = runner.run(&strat, |case| {
                            if stop.load(Ordering::Relaxed) && !failed.get() {
                                return Ok(());
                            }
                            heartbeat[w].store(epoch.elapsed().as_secs().max(1), Ordering::Relaxed);
                            let o = guarded_check(p, &case);
                            heartbeat[w].store(u64::MAX, Ordering::Relaxed);
                            let has_new = o.failures.iter().any(|f| !known_sigs.contains(&f.sig));
                            if !failed.get() {
                                let mut st = stats_cell.borrow_mut();
                                st.evaluations += 1;
                                st.inner_evals += o.inner_evals;
                                st.ambiguous += o.ambiguous as u64;
                                for c in &o.classes {
                                    *st.classes.entry(*c).or_default() += 1;
                                }
                                for c in &o.skipped {
                                    *st.skipped.entry(*c).or_default() += 1;
                                }
                                for f in &o.failures {
                                    if known_sigs.contains(&f.sig) {
                                        *st.excluded_known.entry(f.sig.clone()).or_default() += 1;
                                    }
                                }
                                if o.nontrivial {
                                    st.nontrivial_total += 1;
                                    let h = fnv(&format!("{:?}", case));
                                    if st.nontrivial.insert(h) && st.samples.len() < 3 && w < 2 {
                                        st.samples.push(p.describe(&case));
                                    }
                                }
                            }
                            if has_new {
                                failed.set(true);
                                stop.store(true, Ordering::Relaxed);
                                let f = o.failures.iter().find(|f| !known_sigs.contains(&f.sig)).unwrap();
                                Err(TestCaseError::fail(f.sig.clone()))
                            } else {
                                Ok(())
                            }
                        });
                        drop(stats_cell);
                        let mut viol = None;
                        match res {
                            Ok(()) => {}
                            Err(TestError::Fail(_reason, value)) => {
                                // re-verify outside the library on the shrunk value
                                let mut fails: Vec<Failure> = vec![];
                                for _ in 0..p.replay_repeats().max(1) {
                                    let o = guarded_check(p, &value);
                                    for f in o.failures {
                                        if !known_sigs.contains(&f.sig) && !fails.iter().any(|x| x.sig == f.sig) {
                                            fails.push(f);
                                        }
                                    }
                                    if !fails.is_empty() {
                                        break;
                                    }
                                }
                                if fails.is_empty() {
                                    fails.push(Failure { sig: "unstable-after-shrink".into(), detail: "the shrunk case did not fail again on re-verification (order-dependent behaviour)".into() });
                                }
                                viol = Some(Violation { part: p.name().to_string(), case: serde_json::to_value(&value).unwrap_or(Value::Null), failures: fails });
                            }
                            Err(TestError::Abort(reason)) => {
                                eprintln!("proptest aborted in {}: {}", p.name(), reason);
                                viol = None;
                                stats.skipped.insert("proptest-abort", 1);
                            }
                        }
                        results.lock().unwrap().push((stats, viol));
                    })
                    .expect("spawn worker");
                handles.push(h);
            }
            for h in handles {
                let _ = h.join();
            }
            done.store(true, Ordering::Relaxed);
        });
        let results = results.into_inner().unwrap();
        let mut excluded_sigs: Vec<String> = vec![];
        for (st, v) in results {
            excluded_sigs.extend(st.excluded_known.keys().cloned());
            self.part_stats(p.name()).merge(st);
            if let Some(v) = v {
                self.violations.push(v);
            }
        }
        let fs: Vec<Failure> = excluded_sigs.into_iter().map(|sig| Failure { sig, detail: String::new() }).collect();
        self.note_known(&fs);
    }

    /// Exhaustive enumeration of a finite space (no shrinking: enumeration order is by size).
    pub fn run_enum<P: Part, I: Iterator<Item = P::Case> + Send>(&mut self, p: &P, iter: I, complete: bool) {
        if self.run_replays(p) || self.is_replay() {
            return;
        }
        let known_sigs = self.open_known_sigs();
        let it = Mutex::new(iter.enumerate());
        let first_fail: Mutex<Option<(usize, Violation)>> = Mutex::new(None);
        let stats_all: Mutex<PartStats> = Mutex::new(PartStats::default());
        let workers = if p.serial() { 1 } else { WORKERS };
        std::thread::scope(|scope| {
            for w in 0..workers {
                let it = &it;
                let first_fail = &first_fail;
                let stats_all = &stats_all;
                let known_sigs = known_sigs.clone();
                std::thread::Builder::new()
                    .stack_size(64 << 20)
                    .spawn_scoped(scope, move || {
                        let mut st = PartStats::default();
                        loop {
                            let batch: Vec<(usize, P::Case)> = {
                                let mut g = it.lock().unwrap();
                                let mut b = Vec::with_capacity(64);
                                for _ in 0..64 {
                                    match g.next() {
                                        Some(x) => b.push(x),
                                        None => break,
                                    }
                                }
                                b
                            };
                            if batch.is_empty() {
                                break;
                            }
                            for (idx, case) in batch {
                                if let Some((fi, _)) = &*first_fail.lock().unwrap() {
                                    if *fi < idx {
                                        continue;
                                    }
                                }
                                let o = guarded_check(p, &case);
                                st.evaluations += 1;
                                st.inner_evals += o.inner_evals;
                                st.ambiguous += o.ambiguous as u64;
                                for c in &o.classes {
                                    *st.classes.entry(*c).or_default() += 1;
                                }
                                for c in &o.skipped {
                                    *st.skipped.entry(*c).or_default() += 1;
                                }
                                if o.nontrivial {
                                    st.nontrivial_total += 1;
                                    let h = fnv(&format!("{:?}", case));
                                    if st.nontrivial.insert(h) && st.samples.len() < 2 && w < 3 {
                                        st.samples.push(p.describe(&case));
                                    }
                                }
                                let mut newf = vec![];
                                for f in o.failures {
                                    if known_sigs.contains(&f.sig) {
                                        *st.excluded_known.entry(f.sig.clone()).or_default() += 1;
                                    } else {
                                        newf.push(f);
                                    }
                                }
                                if !newf.is_empty() {
                                    let mut g = first_fail.lock().unwrap();
                                    if g.as_ref().map(|(fi, _)| idx < *fi).unwrap_or(true) {
                                        *g = Some((idx, Violation { part: p.name().to_string(), case: serde_json::to_value(&case).unwrap_or(Value::Null), failures: newf }));
                                    }
                                }
                            }
                        }
                        stats_all.lock().unwrap().merge(st);
                    })
                    .expect("spawn");
            }
        });
        let mut st = stats_all.into_inner().unwrap();
        let failed = first_fail.into_inner().unwrap();
        st.exhaustive = Some(complete && failed.is_none());
        let sigs: Vec<Failure> = st.excluded_known.keys().map(|s| Failure { sig: s.clone(), detail: String::new() }).collect();
        self.part_stats(p.name()).merge(st);
        let ex = complete && failed.is_none();
        self.part_stats(p.name()).exhaustive = Some(ex);
        self.note_known(&sigs);
        if let Some((_, v)) = failed {
            self.violations.push(v);
        }
    }

    /// Write evidence, print verdict lines on the real stdout, return the exit code.
    pub fn finish(mut self) -> i32 {
        // known findings not met during generation: replay their demonstration
        // (already done through regressions if the replay lives in replays/<id>/)
        let wall = self.start.elapsed().as_secs_f64();
        let mut evaluations = 0u64;
        let mut inner = 0u64;
        let mut distinct = 0u64;
        let mut classes: BTreeMap<String, u64> = BTreeMap::new();
        let mut skipped: BTreeMap<String, u64> = BTreeMap::new();
        let mut excluded: BTreeMap<String, u64> = BTreeMap::new();
        let mut ambiguous = 0;
        let mut samples: Vec<Value> = vec![];
        let mut parts_json = serde_json::Map::new();
        let mut all_exhaustive: Option<bool> = None;
        for (name, st) in &self.parts {
            evaluations += st.evaluations;
            inner += st.inner_evals;
            distinct += st.nontrivial.len() as u64;
            ambiguous += st.ambiguous;
            for (k, v) in &st.classes {
                *classes.entry(format!("{name}/{k}")).or_default() += v;
            }
            for (k, v) in &st.skipped {
                *skipped.entry(format!("{name}/{k}")).or_default() += v;
            }
            for (k, v) in &st.excluded_known {
                *excluded.entry(k.clone()).or_default() += v;
            }
            for s in st.samples.iter().take(4) {
                samples.push(json!({"part": name, "case": s}));
            }
            if let Some(e) = st.exhaustive {
                all_exhaustive = Some(all_exhaustive.unwrap_or(true) && e);
            }
            parts_json.insert(
                name.clone(),
                json!({"evaluations": st.evaluations, "inner_evaluations": st.inner_evals, "nontrivial_cases": st.nontrivial_total,
                        "distinct_nontrivial": st.nontrivial.len(), "exhaustive": st.exhaustive}),
            );
        }
        let mut viol_paths = vec![];
        // one report per failure signature: keep the smallest case
        {
            let mut best: BTreeMap<String, Violation> = BTreeMap::new();
            for v in std::mem::take(&mut self.violations) {
                let key = format!("{}/{}", v.part, v.failures.first().map(|f| f.sig.clone()).unwrap_or_default());
                let size = serde_json::to_string(&v.case).map(|s| s.len()).unwrap_or(0);
                match best.get(&key) {
                    Some(b) if serde_json::to_string(&b.case).map(|s| s.len()).unwrap_or(0) <= size => {}
                    _ => {
                        best.insert(key, v);
                    }
                }
            }
            self.violations = best.into_values().collect();
        }
        if !self.violations.is_empty() {
            std::fs::create_dir_all(format!("{}/out/violations/{}", verif_root(), self.id)).ok();
        }
        for v in &self.violations {
            let body = ReplayFile { property: self.id.to_string(), part: v.part.clone(), case: v.case.clone(), failures: v.failures.clone(), note: format!("found tier={} seed={}", self.tier.name(), self.seed) };
            let text = serde_json::to_string_pretty(&body).unwrap();
            let path = match &self.replay_path {
                Some(p) => p.clone(),
                None => {
                    let p = format!("{}/out/violations/{}/{:016x}.json", verif_root(), self.id, fnv(&serde_json::to_string(&v.case).unwrap_or_default()));
                    std::fs::write(&p, &text).ok();
                    p
                }
            };
            viol_paths.push((path, v.failures.clone()));
        }
        let mut coverage = serde_json::Map::new();
        coverage.insert("evaluations".into(), json!(evaluations));
        coverage.insert("distinct_nontrivial".into(), json!(distinct));
        coverage.insert("rule".into(), json!(self.rule));
        coverage.insert("samples".into(), json!(samples));
        coverage.insert("inner_evaluations".into(), json!(inner));
        coverage.insert("classes".into(), json!(classes));
        coverage.insert("skipped_comparisons".into(), json!(skipped));
        coverage.insert("excluded_known_finding_cases".into(), json!(excluded));
        coverage.insert("ambiguous".into(), json!(ambiguous));
        coverage.insert("parts".into(), Value::Object(parts_json));
        if let Some(e) = all_exhaustive {
            // true only when every enumeration part covered its stated finite space completely
            coverage.insert("exhaustive".into(), json!(e));
        }
        let ev = json!({
            "property_id": self.id,
            "tier": self.tier.name(),
            "seed": self.seed as i64,
            "level": self.level,
            "coverage": Value::Object(coverage),
            "assumptions": self.assumptions,
            "wall_s": wall,
            "violations": self.violations.len(),
            "known_findings_reproduced": self.known_seen.keys().collect::<Vec<_>>(),
        });
        if self.replay.is_none() {
            std::fs::create_dir_all(format!("{}/evidence", verif_root())).ok();
            let tmp = format!("{}/evidence/.{}.json.tmp", verif_root(), self.id);
            std::fs::write(&tmp, serde_json::to_string_pretty(&ev).unwrap()).ok();
            std::fs::rename(&tmp, format!("{}/evidence/{}.json", verif_root(), self.id)).ok();
        }
        let known = self.known.clone();
        for k in known.iter().filter(|k| k.status == "open") {
            if self.known_seen.get(&k.id).copied().unwrap_or(false) {
                let _ = writeln!(self.out, "KNOWN-FINDING: property={} {} [{}]", self.id, k.what, k.id);
            }
        }
        for (path, fails) in &viol_paths {
            let _ = writeln!(self.out, "VIOLATION property={} replay={}", self.id, path);
            for f in fails {
                let _ = writeln!(self.out, "  sig={} :: {}", f.sig, f.detail.replace('\n', "\n    "));
            }
        }
        let _ = writeln!(
            self.out,
            "{} tier={} seed={} evaluations={} inner={} distinct_nontrivial={} violations={} wall={:.1}s",
            self.id,
            self.tier.name(),
            self.seed,
            evaluations,
            inner,
            distinct,
            self.violations.len(),
            wall
        );
        let _ = self.out.flush();
        if self.violations.is_empty() {
            0
        } else {
            1
        }
    }
}

/// Crash isolation (set by ./check after a run died from a signal): every worker records the case it is
/// about to check, so that the driver can replay the candidates one by one in fresh processes.
fn isolate_dir() -> Option<&'static String> {
    static D: std::sync::OnceLock<Option<String>> = std::sync::OnceLock::new();
    D.get_or_init(|| std::env::var("KVH_ISOLATE").ok()).as_ref()
}

fn record_in_flight<P: Part>(p: &P, case: &P::Case) {
    if let Some(dir) = isolate_dir() {
        let tid = format!("{:?}", std::thread::current().id()).replace(['(', ')'], "_");
        let body = json!({"property": "", "part": p.name(), "case": serde_json::to_value(case).unwrap_or(Value::Null), "failures": [], "note": "in flight when the process died"});
        let _ = std::fs::write(format!("{dir}/inflight-{tid}.json"), body.to_string());
    }
}

fn guarded_check<P: Part>(p: &P, case: &P::Case) -> Outcome {
    record_in_flight(p, case);
    match catch(|| p.check(case)) {
        Ok(o) => o,
        Err(site) => {
            let mut o = Outcome::new();
            o.fail(format!("uncaught-{}", site.sig()), format!("panic escaped the property's own guards at {}:{}: {}", site.file, site.line, site.msg));
            o
        }
    }
}

// ------------------------------------------------------------------------------------------
// coverage-guided search over a part's proptest strategy (libFuzzer drives the random stream)
// ------------------------------------------------------------------------------------------

/// One case of a proptest strategy built from a fuzzer's byte string: proptest's `PassThrough` generator hands
/// out the bytes as the random stream (zeros once they are used up), so the strategy — and with it every
/// soundness restriction it builds in — stays the decoder, and libFuzzer's coverage feedback steers it.
pub fn case_from_bytes<T: Debug>(strategy: &BoxedStrategy<T>, data: &[u8]) -> Option<T> {
    use proptest::strategy::ValueTree;
    use proptest::test_runner::{Config, RngAlgorithm, TestRng, TestRunner};
    // rand's uniform sampling rejects an all-zero stream forever, and PassThrough hands out zeros once the bytes are
    // used up: the input is therefore continued by a pseudo-random tail derived from the input itself (deterministic).
    const TOTAL: usize = 192 * 1024;
    let mut buf: Vec<u8> = Vec::with_capacity(TOTAL.max(data.len()));
    buf.extend_from_slice(data);
    let mut x = data.iter().fold(0xcbf29ce484222325u64, |h, b| (h ^ *b as u64).wrapping_mul(0x100000001b3));
    while buf.len() < TOTAL {
        x = mix(x, buf.len() as u64);
        buf.extend_from_slice(&x.to_le_bytes());
    }
    let rng = TestRng::from_seed(RngAlgorithm::PassThrough, &buf);
    let mut runner = TestRunner::new_with_rng(Config { failure_persistence: None, ..Config::default() }, rng);
    strategy.new_tree(&mut runner).ok().map(|t| t.current())
}

/// Signatures of the open known findings (what a fuzz target tolerates so that it keeps searching behind them).
pub fn open_known_sigs_of(property: &str) -> HashSet<String> {
    let text = std::fs::read_to_string("/verif/known_findings.json").unwrap_or_default();
    let v: Value = serde_json::from_str(&text).unwrap_or(Value::Null);
    let mut out = HashSet::new();
    if let Some(fs) = v.get("findings").and_then(|f| f.as_array()) {
        for f in fs {
            if f.get("property").and_then(|x| x.as_str()) == Some(property) && f.get("status").and_then(|x| x.as_str()) == Some("open") {
                for sg in f.get("sigs").and_then(|x| x.as_array()).into_iter().flatten() {
                    if let Some(t) = sg.as_str() {
                        out.insert(t.to_string());
                    }
                }
            }
        }
    }
    out
}

/// Body of a libFuzzer target: bytes -> case of `p`'s (thorough-tier) strategy -> `p.check`; returns the
/// failures that are not open known findings. Call `install_panic_hook()` once before (libfuzzer-sys installs
/// an aborting hook, the checks need their `catch`).
pub fn fuzz_one<P: Part>(p: &P, strategy: &BoxedStrategy<P::Case>, data: &[u8], known: &HashSet<String>) -> Vec<Failure> {
    let Some(case) = case_from_bytes(strategy, data) else { return vec![] };
    let o = match catch(|| p.check(&case)) {
        Ok(o) => o,
        Err(site) => {
            let mut o = Outcome::new();
            o.fail(format!("uncaught-{}", site.sig()), format!("panic escaped the property's own guards at {}:{}: {}", site.file, site.line, site.msg));
            o
        }
    };
    o.failures.into_iter().filter(|f| !known.contains(&f.sig)).collect()
}

/// The cases a campaign found, re-judged by the ordinary (stable-toolchain) runner under their own part name.
pub struct FuzzFound<'a, P: Part> {
    pub inner: &'a P,
    pub name: &'static str,
}

impl<'a, P: Part> Part for FuzzFound<'a, P> {
    type Case = P::Case;
    fn name(&self) -> &'static str {
        self.name
    }
    fn strategy(&self, tier: Tier) -> BoxedStrategy<Self::Case> {
        self.inner.strategy(tier)
    }
    fn cases(&self, _tier: Tier) -> u32 {
        0
    }
    fn check(&self, case: &Self::Case) -> Outcome {
        self.inner.check(case)
    }
    fn serial(&self) -> bool {
        self.inner.serial()
    }
    fn replay_repeats(&self) -> u32 {
        self.inner.replay_repeats()
    }
    fn describe(&self, case: &Self::Case) -> Value {
        self.inner.describe(case)
    }
}

impl Session {
    /// Thorough tier: a fixed-work libFuzzer campaign (`jobs` processes x `runs` executions, oracle inside the
    /// target, random seed corpus) on fuzz target `target`, whose decoder is `p`'s thorough-tier strategy. Crash
    /// files are decoded with the same strategy and re-judged here on the stable build before they count.
    /// Every tier: saved crash files of earlier campaigns are replayed the same way. `name` is the part name in the
    /// evidence ("libfuzzer:<part>").
    pub fn fuzz_campaign<P: Part>(&mut self, p: &P, name: &'static str, target: &str, runs: u64, jobs: u32, max_len: u32) {
        let part = FuzzFound { inner: p, name };
        let scratch = std::env::var("KVH_ROOT").map_or(false, |r| r != "/verif");
        let strategy = p.strategy(Tier::Thorough);
        let decode = |paths: &[std::path::PathBuf]| -> Vec<P::Case> { paths.iter().filter_map(|f| std::fs::read(f).ok()).filter_map(|b| case_from_bytes(&strategy, &b)).collect() };
        let mut files: Vec<std::path::PathBuf> = if scratch { vec![] } else { crate::fuzzrun::saved_inputs(target) };
        if self.tier == Tier::Thorough && !self.is_replay() && !scratch {
            let c = crate::fuzzrun::run_jobs(target, runs, jobs, self.seed, max_len, None);
            eprintln!("libfuzzer {target}: executed {} units in {jobs} jobs, ok={}\n{}", c.executed_units, c.ok, c.log_tail);
            println!("libfuzzer {target}: {} executions in {jobs} processes, {} crash file(s)", c.executed_units, c.new_artifacts.len());
            for a in c.new_artifacts {
                if !files.contains(&a) {
                    files.push(a);
                }
            }
            self.run_enum(&part, decode(&files).into_iter(), false);
            self.note_inner(name, c.executed_units);
            if !c.ok && c.executed_units == 0 {
                self.part_stats(name).skipped.entry("libfuzzer-unavailable").and_modify(|n| *n += 1).or_insert(1);
            }
        } else {
            self.run_enum(&part, decode(&files).into_iter(), false);
        }
    }
}

/// Monotone index mapping (keeps proptest shrinking convergent): u16 selector -> 0..len
pub fn pick_idx(sel: u16, len: usize) -> usize {
    if len == 0 {
        0
    } else {
        ((sel as usize) * len) >> 16
    }
}

/// Strategy helper: selector for `pick_idx`.
pub fn sel() -> impl Strategy<Value = u16> {
    proptest::num::u16::ANY
}
