//! C14 — export / re-import round-trip oracle, shared by `src/bin/c14.rs` and the libFuzzer target
//! `/verif/fuzz/fuzz_targets/nt_roundtrip.rs`.
//!
//! The EXPECTED side is computed from the generated dataset alone (`RtDataset::lexical_quads`): the
//! engine keeps every term as one lexical string (IRIs without `<>`, literals without quotes, blank
//! nodes as `_:label`, quoted triples rendered `<< s p o >>` from the lexical forms of their
//! components), so "the same set of quads" is equality of the sets of lexical quads.  The GOT side is
//! every quad of the re-imported database (all graphs) decoded with `decode_any`.
//!
//! When a whole-dataset round trip fails the failure is ATTRIBUTED by further round trips of reduced
//! datasets (single quads, single terms next to benign companions, literals with all but one
//! "feature" neutralised, subject groups) so that every root cause class gets its own signature
//! `c14.<format>.<class>`; a signature is only emitted when the reduced dataset that isolates exactly
//! that class fails on its own.

use crate::engine::{catch, PanicSite};
use kolibrie::sparql_database::SparqlDatabase;
use serde::{Deserialize, Serialize};
use shared::dataset_index::{GraphId, Quad};
use shared::triple::Triple;
use std::collections::{BTreeMap, BTreeSet, HashSet};

// ------------------------------------------------------------------------------------------
// dataset model
// ------------------------------------------------------------------------------------------

#[derive(Clone, Debug, PartialEq, Eq, PartialOrd, Ord, Hash, Serialize, Deserialize)]
pub enum RtTerm {
    /// absolute IRI, lexical form without angle brackets
    Iri(String),
    /// blank node label without the `_:` prefix
    BNode(String),
    /// plain literal, the value itself (no quotes, no escapes)
    Lit(String),
    /// quoted triple (RDF-star)
    Quoted(Box<RtTerm>, Box<RtTerm>, Box<RtTerm>),
}

#[derive(Clone, Debug, PartialEq, Eq, PartialOrd, Ord, Hash, Serialize, Deserialize)]
pub struct RtQuad {
    pub s: RtTerm,
    /// predicate IRI
    pub p: String,
    pub o: RtTerm,
    /// `None` = default graph, `Some(iri)` = named graph
    pub g: Option<String>,
}

#[derive(Clone, Debug, PartialEq, Eq, Serialize, Deserialize)]
pub struct RtDataset {
    pub quads: Vec<RtQuad>,
}

/// (graph, subject, predicate, object) in lexical form
pub type LexQuad = (Option<String>, String, String, String);

impl RtTerm {
    /// The lexical string the engine's dictionary holds for this term / `decode_any` renders.
    pub fn lexical(&self) -> String {
        match self {
            RtTerm::Iri(i) => i.clone(),
            RtTerm::BNode(b) => format!("_:{b}"),
            RtTerm::Lit(l) => l.clone(),
            RtTerm::Quoted(s, p, o) => format!("<< {} {} {} >>", s.lexical(), p.lexical(), o.lexical()),
        }
    }
    /// Surface syntax handed to `encode_term_star` (only used for quoted triples, whose components are
    /// IRIs and simple literals by construction, so no escaping question arises).
    fn star_syntax(&self) -> String {
        match self {
            RtTerm::Iri(i) => format!("<{i}>"),
            RtTerm::BNode(b) => format!("_:{b}"),
            RtTerm::Lit(l) => format!("\"{l}\""),
            RtTerm::Quoted(s, p, o) => format!("<< {} {} {} >>", s.star_syntax(), p.star_syntax(), o.star_syntax()),
        }
    }
    pub fn is_quoted(&self) -> bool {
        matches!(self, RtTerm::Quoted(..))
    }
    pub fn depth(&self) -> usize {
        match self {
            RtTerm::Quoted(s, p, o) => 1 + s.depth().max(p.depth()).max(o.depth()),
            _ => 0,
        }
    }
    pub fn kind(&self) -> String {
        match self {
            RtTerm::Iri(i) => format!("iri_{}", iri_scheme(i)),
            RtTerm::BNode(_) => "bnode".into(),
            RtTerm::Lit(_) => "literal".into(),
            RtTerm::Quoted(..) => {
                if self.depth() > 1 {
                    "quoted_nested".into()
                } else {
                    "quoted".into()
                }
            }
        }
    }
}

impl RtQuad {
    pub fn lexical(&self) -> LexQuad {
        (self.g.clone(), self.s.lexical(), self.p.clone(), self.o.lexical())
    }
}

impl RtDataset {
    pub fn lexical_quads(&self) -> BTreeSet<LexQuad> {
        self.quads.iter().map(|q| q.lexical()).collect()
    }
    pub fn default_graph_lexical(&self) -> BTreeSet<LexQuad> {
        self.quads.iter().filter(|q| q.g.is_none()).map(|q| q.lexical()).collect()
    }
}

pub fn iri_scheme(i: &str) -> &'static str {
    if i.starts_with("http://") {
        "http"
    } else if i.starts_with("https://") {
        "https"
    } else if i.starts_with("urn:") {
        "urn"
    } else if i.starts_with("mailto:") {
        "mailto"
    } else {
        "other"
    }
}

// ------------------------------------------------------------------------------------------
// the input domain (property text: "IRIs syntactically valid, literals arbitrary Unicode strings that
// cannot be mistaken for an IRI, blank node or quoted triple")
// ------------------------------------------------------------------------------------------

/// `^[A-Za-z][A-Za-z0-9+.-]*:` — the string starts like an absolute IRI.
pub fn scheme_prefixed(l: &str) -> bool {
    let mut it = l.chars();
    match it.next() {
        Some(c) if c.is_ascii_alphabetic() => {}
        _ => return false,
    }
    for c in it {
        if c == ':' {
            return true;
        }
        if !(c.is_ascii_alphanumeric() || c == '+' || c == '.' || c == '-') {
            return false;
        }
    }
    false
}

/// A literal value that could be mistaken for an IRI, a blank node or a quoted triple.
pub fn mistakable(l: &str) -> bool {
    l.starts_with("_:") || l.starts_with("<<") || scheme_prefixed(l)
}

/// Turn an arbitrary string into a literal of the domain BY CONSTRUCTION: a mistakable string gets the
/// (non-letter, non `_`, non `<`) `breaker` character in front, which makes it unmistakable.
pub fn make_literal(raw: String, breaker: char) -> String {
    debug_assert!(!breaker.is_ascii_alphabetic() && breaker != '_' && breaker != '<');
    if mistakable(&raw) {
        let mut s = String::with_capacity(raw.len() + 4);
        s.push(breaker);
        s.push_str(&raw);
        s
    } else {
        raw
    }
}

fn iri_char_ok(c: char) -> bool {
    // RFC 3987: no whitespace, controls, or the excluded delimiters
    !(c.is_whitespace() || c.is_control() || matches!(c, '<' | '>' | '"' | '{' | '}' | '|' | '\\' | '^' | '`'))
}

pub fn iri_ok(i: &str) -> bool {
    let rest = if let Some(r) = i.strip_prefix("http://") {
        r
    } else if let Some(r) = i.strip_prefix("https://") {
        r
    } else if let Some(r) = i.strip_prefix("urn:") {
        r
    } else if let Some(r) = i.strip_prefix("mailto:") {
        r
    } else {
        return false;
    };
    if rest.is_empty() || !i.chars().all(iri_char_ok) || i.matches('#').count() > 1 {
        return false;
    }
    // every '%' starts a percent-encoded octet
    let cs: Vec<char> = i.chars().collect();
    for (k, c) in cs.iter().enumerate() {
        if *c == '%' && !(k + 2 < cs.len() && cs[k + 1].is_ascii_hexdigit() && cs[k + 2].is_ascii_hexdigit()) {
            return false;
        }
    }
    true
}

/// Append a generated tail character to an IRI under construction, keeping the IRI syntactically valid
/// (`%` becomes a complete percent-encoded octet, a second `#` becomes a letter).
pub fn push_iri_char(s: &mut String, c: char) {
    if c == '%' {
        s.push_str("%C3%A9");
    } else if c == '#' && s.contains('#') {
        s.push('x');
    } else {
        s.push(c);
    }
}

fn bnode_ok(b: &str) -> bool {
    let cs: Vec<char> = b.chars().collect();
    !cs.is_empty()
        && cs[0].is_ascii_alphanumeric()
        && cs[cs.len() - 1].is_ascii_alphanumeric()
        && cs.iter().all(|c| c.is_ascii_alphanumeric() || *c == '_' || *c == '-')
}

fn simple_literal_ok(l: &str) -> bool {
    !l.is_empty() && l.chars().all(|c| c.is_ascii_alphanumeric())
}

fn quoted_ok(t: &RtTerm, depth_left: usize) -> Result<(), String> {
    match t {
        RtTerm::Quoted(s, p, o) => {
            if depth_left == 0 {
                return Err("quoted triple nested deeper than once".into());
            }
            match &**s {
                RtTerm::Iri(i) if iri_ok(i) => {}
                q @ RtTerm::Quoted(..) => quoted_ok(q, depth_left - 1)?,
                other => return Err(format!("quoted subject component {:?}", other)),
            }
            match &**p {
                RtTerm::Iri(i) if iri_ok(i) => {}
                other => return Err(format!("quoted predicate component {:?}", other)),
            }
            match &**o {
                RtTerm::Iri(i) if iri_ok(i) => {}
                RtTerm::Lit(l) if simple_literal_ok(l) => {}
                q @ RtTerm::Quoted(..) => quoted_ok(q, depth_left - 1)?,
                other => return Err(format!("quoted object component {:?}", other)),
            }
            Ok(())
        }
        _ => Err("not a quoted triple".into()),
    }
}

/// Is the dataset inside the domain the property quantifies over?
pub fn validate(ds: &RtDataset) -> Result<(), String> {
    for q in &ds.quads {
        match &q.s {
            RtTerm::Iri(i) if iri_ok(i) => {}
            RtTerm::BNode(b) if bnode_ok(b) => {}
            t @ RtTerm::Quoted(..) => quoted_ok(t, 2)?,
            other => return Err(format!("subject {:?}", other)),
        }
        if !iri_ok(&q.p) {
            return Err(format!("predicate {:?}", q.p));
        }
        match &q.o {
            RtTerm::Iri(i) if iri_ok(i) => {}
            RtTerm::BNode(b) if bnode_ok(b) => {}
            RtTerm::Lit(l) if !mistakable(l) => {}
            t @ RtTerm::Quoted(..) => quoted_ok(t, 2)?,
            other => return Err(format!("object {:?}", other)),
        }
        if let Some(g) = &q.g {
            if !iri_ok(g) {
                return Err(format!("graph {:?}", g));
            }
        }
    }
    Ok(())
}

// ------------------------------------------------------------------------------------------
// loading through the public API, reading back
// ------------------------------------------------------------------------------------------

fn term_id(db: &SparqlDatabase, t: &RtTerm) -> u32 {
    match t {
        // the only public entry point that builds quoted-triple ids from text
        RtTerm::Quoted(..) => db.encode_term_star(&t.star_syntax()),
        // Dictionary::encode stores the lexical string unchanged (add_quad_parts / encode_term_star
        // would trim it and strip <> and "")
        other => db.dictionary.write().unwrap().encode(&other.lexical()),
    }
}

/// Put the dataset into a fresh database the way a user of the API would: `add_triple_parts` for
/// default-graph triples of plain terms (it stores the three lexical strings as they are), otherwise
/// ids from the dictionary / `encode_term_star` and `add_triple` / `add_quad`.
pub fn load(ds: &RtDataset) -> SparqlDatabase {
    let mut db = SparqlDatabase::new();
    for q in &ds.quads {
        match &q.g {
            None if !q.s.is_quoted() && !q.o.is_quoted() => {
                db.add_triple_parts(&q.s.lexical(), &q.p, &q.o.lexical());
            }
            None => {
                let s = term_id(&db, &q.s);
                let p = db.dictionary.write().unwrap().encode(&q.p);
                let o = term_id(&db, &q.o);
                db.add_triple(Triple { subject: s, predicate: p, object: o });
            }
            Some(g) => {
                let s = term_id(&db, &q.s);
                let p = db.dictionary.write().unwrap().encode(&q.p);
                let o = term_id(&db, &q.o);
                let g = db.dictionary.write().unwrap().encode(g);
                db.add_quad(Quad { subject: s, predicate: p, object: o, graph: GraphId::Named(g) });
            }
        }
    }
    db
}

/// Every quad of every graph, each component decoded with `decode_any`.
pub fn lexical_quads_of(db: &SparqlDatabase) -> BTreeSet<LexQuad> {
    let dec = |id: u32| db.decode_any(id).unwrap_or_else(|| format!("\u{1}<undecodable id {id}>"));
    db.dataset_index
        .all_quads()
        .into_iter()
        .map(|q| {
            let g = match q.graph {
                GraphId::Default => None,
                GraphId::Named(g) => Some(dec(g)),
            };
            (g, dec(q.subject), dec(q.predicate), dec(q.object))
        })
        .collect()
}

// ------------------------------------------------------------------------------------------
// one round trip
// ------------------------------------------------------------------------------------------

#[derive(Clone, Copy, PartialEq, Eq, Debug)]
pub enum Fmt {
    Nq,
    Nt,
    Ttl,
}

impl Fmt {
    pub const ALL: [Fmt; 3] = [Fmt::Nq, Fmt::Nt, Fmt::Ttl];
    pub fn tag(self) -> &'static str {
        match self {
            Fmt::Nq => "nq",
            Fmt::Nt => "nt",
            Fmt::Ttl => "ttl",
        }
    }
    fn names(self) -> (&'static str, &'static str) {
        match self {
            Fmt::Nq => ("generate_nquads", "parse_nquads_and_add"),
            Fmt::Nt => ("generate_ntriples", "parse_ntriples_and_add"),
            Fmt::Ttl => ("generate_turtle", "parse_turtle"),
        }
    }
    /// the part of the dataset the format is required to carry
    fn expected(self, ds: &RtDataset) -> BTreeSet<LexQuad> {
        match self {
            Fmt::Nq => ds.lexical_quads(),
            _ => ds.default_graph_lexical(),
        }
    }
    fn in_scope(self, q: &RtQuad) -> bool {
        self == Fmt::Nq || q.g.is_none()
    }
}

pub enum Trip {
    Pass,
    /// the database built through the API does not hold the dataset (nothing to do with export)
    LoadMismatch { expected: BTreeSet<LexQuad>, got: BTreeSet<LexQuad> },
    Mismatch { text: String, expected: BTreeSet<LexQuad>, got: BTreeSet<LexQuad> },
    Panic { stage: &'static str, site: PanicSite, text: Option<String> },
}

impl Trip {
    pub fn passed(&self) -> bool {
        matches!(self, Trip::Pass)
    }
}

pub fn roundtrip(fmt: Fmt, ds: &RtDataset) -> Trip {
    let (gen_name, parse_name) = fmt.names();
    let src = match catch(|| load(ds)) {
        Ok(db) => db,
        Err(site) => return Trip::Panic { stage: "loading the dataset through the API", site, text: None },
    };
    let model_all = ds.lexical_quads();
    let loaded = match catch(|| lexical_quads_of(&src)) {
        Ok(v) => v,
        Err(site) => return Trip::Panic { stage: "reading the source database", site, text: None },
    };
    if loaded != model_all {
        return Trip::LoadMismatch { expected: model_all, got: loaded };
    }
    let text = match catch(|| match fmt {
        Fmt::Nq => src.generate_nquads(),
        Fmt::Nt => src.generate_ntriples(),
        Fmt::Ttl => src.generate_turtle(),
    }) {
        Ok(t) => t,
        Err(site) => return Trip::Panic { stage: gen_name, site, text: None },
    };
    let got = match catch(|| {
        let mut dst = SparqlDatabase::new();
        match fmt {
            Fmt::Nq => dst.parse_nquads_and_add(&text),
            Fmt::Nt => dst.parse_ntriples_and_add(&text),
            Fmt::Ttl => dst.parse_turtle(&text),
        }
        lexical_quads_of(&dst)
    }) {
        Ok(g) => g,
        Err(site) => return Trip::Panic { stage: parse_name, site, text: Some(text) },
    };
    let expected = fmt.expected(ds);
    if got == expected {
        Trip::Pass
    } else {
        Trip::Mismatch { text, expected, got }
    }
}

fn show_quads(qs: &[&LexQuad]) -> String {
    let mut s = String::new();
    for (g, a, b, c) in qs.iter().take(4) {
        s.push_str(&format!("\n      ({:?} {:?} {:?} graph={})", a, b, c, g.as_ref().map(|g| format!("{:?}", g)).unwrap_or_else(|| "default".into())));
    }
    if qs.len() > 4 {
        s.push_str(&format!("\n      … {} more", qs.len() - 4));
    }
    s
}

/// JSON of the dataset with everything outside printable ASCII written as \\uXXXX (readable in reports).
pub fn ascii_json(ds: &RtDataset) -> String {
    let j = serde_json::to_string(ds).unwrap_or_default();
    let mut out = String::with_capacity(j.len());
    for c in j.chars() {
        if (' '..='~').contains(&c) {
            out.push(c);
        } else {
            let mut b = [0u16; 2];
            for u in c.encode_utf16(&mut b) {
                out.push_str(&format!("\\u{:04x}", u));
            }
        }
    }
    out
}

fn describe(fmt: Fmt, ds: &RtDataset, t: &Trip) -> String {
    let (gen_name, parse_name) = fmt.names();
    let input = ascii_json(ds);
    match t {
        Trip::Pass => "passed".into(),
        Trip::LoadMismatch { expected, got } => {
            let missing: Vec<&LexQuad> = expected.difference(got).collect();
            let extra: Vec<&LexQuad> = got.difference(expected).collect();
            format!("database built through the API differs from the dataset: missing{} extra{}\n    dataset={input}", show_quads(&missing), show_quads(&extra))
        }
        Trip::Mismatch { text, expected, got } => {
            let missing: Vec<&LexQuad> = expected.difference(got).collect();
            let extra: Vec<&LexQuad> = got.difference(expected).collect();
            format!(
                "{gen_name} -> {parse_name} into an empty database: {} expected quads, {} after re-import;\n    lost:{}\n    invented:{}\n    exported text={:?}\n    dataset={input}",
                expected.len(),
                got.len(),
                if missing.is_empty() { " none".to_string() } else { show_quads(&missing) },
                if extra.is_empty() { " none".to_string() } else { show_quads(&extra) },
                text
            )
        }
        Trip::Panic { stage, site, text } => format!(
            "panic in {stage} at {}:{}: {}\n    exported text={:?}\n    dataset={input}",
            site.file,
            site.line,
            site.msg,
            text
        ),
    }
}

// ------------------------------------------------------------------------------------------
// literal features (for attribution only)
// ------------------------------------------------------------------------------------------

#[derive(Clone, Copy, PartialEq, Eq, Debug, PartialOrd, Ord)]
pub enum Feat {
    /// LF inside the leading/trailing white-space run of the value
    EdgeLinebreak,
    /// any other white space (char::is_whitespace) in the leading/trailing run
    EdgeWs,
    /// the value starts with `"`
    LeadingDquote,
    /// `"`, `\`, LF or CR elsewhere: the characters N-Triples/Turtle require to be escaped
    Escape,
    /// TAB elsewhere
    Tab,
    /// the value starts with `<` and ends with `>`
    AngleWrapped,
    /// the value contains `{|` (Turtle-star annotation opener)
    AnnotationMarker,
}

impl Feat {
    pub fn name(self) -> &'static str {
        match self {
            Feat::EdgeLinebreak => "edge_linebreak",
            Feat::EdgeWs => "edge_whitespace",
            Feat::LeadingDquote => "leading_dquote",
            Feat::Escape => "escape",
            Feat::Tab => "tab",
            Feat::AngleWrapped => "angle_wrapped",
            Feat::AnnotationMarker => "annotation_marker",
        }
    }
}

/// Per character: the feature it belongs to (features own disjoint positions).
pub fn feature_map(l: &str) -> Vec<Option<Feat>> {
    let cs: Vec<char> = l.chars().collect();
    let n = cs.len();
    let mut out = vec![None; n];
    let lead = cs.iter().take_while(|c| c.is_whitespace()).count();
    let trail = if lead == n { 0 } else { cs.iter().rev().take_while(|c| c.is_whitespace()).count() };
    for i in 0..n {
        let edge = i < lead || i >= n - trail;
        let c = cs[i];
        out[i] = if edge {
            Some(if c == '\n' { Feat::EdgeLinebreak } else { Feat::EdgeWs })
        } else if i == 0 && c == '"' {
            Some(Feat::LeadingDquote)
        } else if matches!(c, '"' | '\\' | '\n' | '\r') {
            Some(Feat::Escape)
        } else if c == '\t' {
            Some(Feat::Tab)
        } else if c == '{' && i + 1 < n && cs[i + 1] == '|' {
            Some(Feat::AnnotationMarker)
        } else {
            None
        };
    }
    if n >= 2 && cs[0] == '<' && cs[n - 1] == '>' {
        out[0] = Some(Feat::AngleWrapped);
        out[n - 1] = Some(Feat::AngleWrapped);
    }
    out
}

pub fn features(l: &str) -> BTreeSet<Feat> {
    feature_map(l).into_iter().flatten().collect()
}

/// The value with every featured character replaced by `~`, except those of the features in `keep`.
pub fn isolate(l: &str, keep: &[Feat]) -> String {
    let fm = feature_map(l);
    l.chars().zip(fm).map(|(c, f)| if f.map_or(false, |f| !keep.contains(&f)) { '~' } else { c }).collect()
}

// ------------------------------------------------------------------------------------------
// attribution
// ------------------------------------------------------------------------------------------

const BENIGN_S: &str = "http://k.example/s";
const BENIGN_P: &str = "http://k.example/p";
const BENIGN_O: &str = "http://k.example/o";

/// `PanicSite::sig` with the source path made relative to the repository root wherever the tree is
/// checked out (scratch worktrees of tools/mutant_run.sh live under /tmp/.../repo/).
///
/// Several places of one source file fail with the same message kind (two different slicing bugs of
/// parse_turtle both say "begin > end"), so the class of the reduced input that provokes the panic is
/// part of the signature: `panic@<file>:<message kind>|<format>.<class>`.
fn panic_sig(site: &PanicSite, fmt: Fmt, class: &str) -> String {
    let mut s = site.clone();
    if let Some(i) = s.file.rfind("/repo/") {
        s.file = s.file[i + 6..].to_string();
    }
    // literal classes whose characters must be escaped in the text form are one class here: a reader
    // that meets them unescaped sees arbitrary token debris, whichever of them it was
    let mut class = class.to_string();
    for unescaped in ["literal_edge_linebreak", "literal_escape_combined", "literal_escape", "literal_leading_dquote"] {
        if class.ends_with(unescaped) {
            class = format!("{}literal_unescaped", &class[..class.len() - unescaped.len()]);
            break;
        }
    }
    format!("{}|{}.{}", s.sig(), fmt.tag(), class)
}

struct Acc {
    out: Vec<(String, String)>,
    trips: u64,
}

impl Acc {
    fn push(&mut self, sig: String, detail: String) {
        if !self.out.iter().any(|(s, _)| *s == sig) {
            self.out.push((sig, detail));
        }
    }
    fn trip(&mut self, fmt: Fmt, ds: &RtDataset) -> Trip {
        self.trips += 1;
        roundtrip(fmt, ds)
    }
}

fn one(q: RtQuad) -> RtDataset {
    RtDataset { quads: vec![q] }
}

/// Literal `l` fails as the object of `(s, p, "l") graph g`: which of its features fail on their own?
/// Every single-feature probe is tried next to the benign subject/predicate first (plain signature
/// `literal_<feature>`); only a probe that passes there but fails in the statement's own context is
/// blamed on the combination (`with_subject_<kind>.literal_<feature>`).
fn attribute_literal(acc: &mut Acc, fmt: Fmt, ctx: Option<(&RtTerm, &str, &Option<String>)>, l: &str, whole: &Trip, whole_ds: &RtDataset) {
    let benign = |v: String| one(RtQuad { s: RtTerm::Iri(BENIGN_S.into()), p: BENIGN_P.into(), o: RtTerm::Lit(v), g: None });
    let feats: Vec<Feat> = features(l).into_iter().collect();
    // rounds: every single feature; if none fails, the value without any feature; if that passes too,
    // every pair of features
    let mut rounds: Vec<Vec<(String, String)>> = vec![];
    rounds.push(feats.iter().map(|f| (f.name().to_string(), isolate(l, &[*f]))).collect());
    rounds.push(vec![("other".to_string(), isolate(l, &[]))]);
    let mut pairs = vec![];
    for (i, a) in feats.iter().enumerate() {
        for b in feats.iter().skip(i + 1) {
            // a pair with a must-be-escaped character gets one name per format: whatever the partner
            // is, the value cannot survive a writer that does not escape / a reader that does not unescape
            let esc = |f: &Feat| matches!(f, Feat::Escape | Feat::LeadingDquote);
            let name = if esc(a) || esc(b) { "escape_combined".to_string() } else { format!("{}+{}", a.name(), b.name()) };
            pairs.push((name, isolate(l, &[*a, *b])));
        }
    }
    rounds.push(pairs);
    let mut any = false;
    let probes: Vec<(usize, String, String)> = rounds.into_iter().enumerate().flat_map(|(r, v)| v.into_iter().map(move |(n, p)| (r, n, p))).collect();
    let mut cur_round = usize::MAX;
    for (round, name, probe) in probes {
        if any && round != cur_round {
            break; // later rounds only matter while nothing simpler explains the failure
        }
        if mistakable(&probe) {
            continue; // cannot happen (see `isolate`), but never leave the domain
        }
        cur_round = round;
        let ds = benign(probe.clone());
        let t = acc.trip(fmt, &ds);
        if !t.passed() {
            any = true;
            match &t {
                Trip::Panic { site, .. } => acc.push(panic_sig(site, fmt, &format!("literal_{name}")), format!("[{}] literal reduced to its `{}` feature: {}", fmt.tag(), name, describe(fmt, &ds, &t))),
                _ => acc.push(format!("c14.{}.literal_{}", fmt.tag(), name), describe(fmt, &ds, &t)),
            }
            continue;
        }
        if let Some((s, p, g)) = ctx {
            let ds = one(RtQuad { s: s.clone(), p: p.to_string(), o: RtTerm::Lit(probe), g: g.clone() });
            let t = acc.trip(fmt, &ds);
            if !t.passed() {
                any = true;
                match &t {
                    Trip::Panic { site, .. } => acc.push(panic_sig(site, fmt, &format!("with_subject_{}.literal_{}", s.kind(), name)), format!("[{}] literal reduced to its `{}` feature: {}", fmt.tag(), name, describe(fmt, &ds, &t))),
                    _ => acc.push(format!("c14.{}.with_subject_{}.literal_{}", fmt.tag(), s.kind(), name), describe(fmt, &ds, &t)),
                }
            }
        }
    }
    if !any {
        // every reduced value passes, the value as a whole does not
        let prefix = ctx.map(|(s, _, _)| format!("with_subject_{}.", s.kind())).unwrap_or_default();
        acc.push(format!("c14.{}.{}literal_feature_combination", fmt.tag(), prefix), describe(fmt, whole_ds, whole));
    }
}

/// The single quad `q` fails: blame the subject, predicate, object or graph term.
fn attribute_quad(acc: &mut Acc, fmt: Fmt, q: &RtQuad, whole: &Trip) {
    let whole_ds = one(q.clone());
    if let Trip::LoadMismatch { .. } = whole {
        acc.push("c14.load.model_mismatch".into(), describe(fmt, &whole_ds, whole));
        return;
    }
    let bs = RtTerm::Iri(BENIGN_S.into());
    let bo = RtTerm::Iri(BENIGN_O.into());
    let mut blamed = false;
    // subject
    {
        let ds = one(RtQuad { s: q.s.clone(), p: BENIGN_P.into(), o: bo.clone(), g: None });
        let t = acc.trip(fmt, &ds);
        if !t.passed() {
            blamed = true;
            match &t {
                Trip::Panic { site, .. } => acc.push(panic_sig(site, fmt, &format!("subject_{}", q.s.kind())), format!("[{}] {}", fmt.tag(), describe(fmt, &ds, &t))),
                _ => acc.push(format!("c14.{}.subject_{}", fmt.tag(), q.s.kind()), describe(fmt, &ds, &t)),
            }
        }
    }
    // predicate
    {
        let ds = one(RtQuad { s: bs.clone(), p: q.p.clone(), o: bo.clone(), g: None });
        let t = acc.trip(fmt, &ds);
        if !t.passed() {
            blamed = true;
            match &t {
                Trip::Panic { site, .. } => acc.push(panic_sig(site, fmt, &format!("predicate_iri_{}", iri_scheme(&q.p))), format!("[{}] {}", fmt.tag(), describe(fmt, &ds, &t))),
                _ => acc.push(format!("c14.{}.predicate_iri_{}", fmt.tag(), iri_scheme(&q.p)), describe(fmt, &ds, &t)),
            }
        }
    }
    // object
    {
        let ds = one(RtQuad { s: bs.clone(), p: BENIGN_P.into(), o: q.o.clone(), g: None });
        let t = acc.trip(fmt, &ds);
        if !t.passed() {
            blamed = true;
            match &q.o {
                RtTerm::Lit(l) => attribute_literal(acc, fmt, None, l, &t, &ds),
                other => match &t {
                    Trip::Panic { site, .. } => acc.push(panic_sig(site, fmt, &format!("object_{}", other.kind())), format!("[{}] {}", fmt.tag(), describe(fmt, &ds, &t))),
                    _ => acc.push(format!("c14.{}.object_{}", fmt.tag(), other.kind()), describe(fmt, &ds, &t)),
                },
            }
        }
    }
    // graph name (N-Quads only)
    if let (Fmt::Nq, Some(g)) = (fmt, &q.g) {
        let ds = one(RtQuad { s: bs.clone(), p: BENIGN_P.into(), o: bo.clone(), g: Some(g.clone()) });
        let t = acc.trip(fmt, &ds);
        if !t.passed() {
            blamed = true;
            match &t {
                Trip::Panic { site, .. } => acc.push(panic_sig(site, fmt, &format!("graph_iri_{}", iri_scheme(g))), format!("[{}] {}", fmt.tag(), describe(fmt, &ds, &t))),
                _ => acc.push(format!("c14.{}.graph_iri_{}", fmt.tag(), iri_scheme(g)), describe(fmt, &ds, &t)),
            }
        }
    }
    if !blamed {
        // no term fails next to benign companions: the combination does
        match (&q.o, whole) {
            (_, Trip::Panic { site, .. }) => acc.push(panic_sig(site, fmt, &format!("quad_combination.{}.{}", q.s.kind(), q.o.kind())), format!("[{}] {}", fmt.tag(), describe(fmt, &whole_ds, whole))),
            (RtTerm::Lit(l), _) => attribute_literal(acc, fmt, Some((&q.s, &q.p, &q.g)), l, whole, &whole_ds),
            _ => acc.push(format!("c14.{}.quad_combination.{}.{}", fmt.tag(), q.s.kind(), q.o.kind()), describe(fmt, &whole_ds, whole)),
        }
    }
}

/// Every quad of `clean` round-trips alone, the set does not: which grouping breaks it?
fn attribute_interaction(acc: &mut Acc, fmt: Fmt, clean: &[RtQuad], whole: &Trip) {
    let whole_ds = RtDataset { quads: clean.to_vec() };
    if let Trip::Panic { site, .. } = whole {
        acc.push(panic_sig(site, fmt, "interaction"), format!("[{}] {}", fmt.tag(), describe(fmt, &whole_ds, whole)));
        return;
    }
    let mut by_subject: BTreeMap<(Option<String>, String), Vec<RtQuad>> = BTreeMap::new();
    for q in clean {
        by_subject.entry((q.g.clone(), q.s.lexical())).or_default().push(q.clone());
    }
    let mut any = false;
    for (_, group) in by_subject {
        if group.len() < 2 {
            continue;
        }
        let gds = RtDataset { quads: group.clone() };
        let gt = if group.len() == clean.len() { None } else { Some(acc.trip(fmt, &gds)) };
        let gt_ref = gt.as_ref().unwrap_or(whole);
        if gt_ref.passed() {
            continue;
        }
        any = true;
        let mut by_pred: BTreeMap<String, Vec<RtQuad>> = BTreeMap::new();
        for q in &group {
            by_pred.entry(q.p.clone()).or_default().push(q.clone());
        }
        let mut list_failed = false;
        if by_pred.len() >= 2 {
            for (_, sub) in &by_pred {
                if sub.len() < 2 {
                    continue;
                }
                let sds = RtDataset { quads: sub.clone() };
                let st = acc.trip(fmt, &sds);
                if !st.passed() {
                    list_failed = true;
                    acc.push(format!("c14.{}.same_subject_predicate_object_list", fmt.tag()), describe(fmt, &sds, &st));
                }
            }
        }
        if by_pred.len() == 1 {
            acc.push(format!("c14.{}.same_subject_predicate_object_list", fmt.tag()), describe(fmt, &gds, gt_ref));
        } else if !list_failed {
            let multiline = matches!(gt_ref, Trip::Mismatch { text, .. } if text.trim_end_matches('\n').contains('\n'));
            if fmt == Fmt::Ttl && multiline {
                // one subject, >= 2 predicates, statement spread over several lines
                acc.push("c14.ttl.multiline_output_not_reparsed".into(), describe(fmt, &gds, gt_ref));
            } else {
                acc.push(format!("c14.{}.same_subject_several_predicates", fmt.tag()), describe(fmt, &gds, gt_ref));
            }
        }
    }
    if !any {
        acc.push(format!("c14.{}.interaction_other", fmt.tag()), describe(fmt, &whole_ds, whole));
    }
}

fn attribute(acc: &mut Acc, fmt: Fmt, ds: &RtDataset, whole: &Trip) {
    if let Trip::LoadMismatch { .. } = whole {
        acc.push("c14.load.model_mismatch".into(), describe(fmt, ds, whole));
        return;
    }
    let before = acc.out.len();
    let mut seen: HashSet<RtQuad> = HashSet::new();
    let mut scope: Vec<RtQuad> = vec![];
    for q in &ds.quads {
        if fmt.in_scope(q) && seen.insert(q.clone()) {
            scope.push(q.clone());
        }
    }
    let single = ds.quads.len() == 1 && scope.len() == 1;
    let mut clean: Vec<RtQuad> = vec![];
    for q in &scope {
        if single {
            attribute_quad(acc, fmt, q, whole);
            continue;
        }
        let t = acc.trip(fmt, &one(q.clone()));
        if t.passed() {
            clean.push(q.clone());
        } else {
            attribute_quad(acc, fmt, q, &t);
        }
    }
    if !single && clean.len() >= 2 {
        let cds = RtDataset { quads: clean.clone() };
        let t = acc.trip(fmt, &cds);
        if !t.passed() {
            attribute_interaction(acc, fmt, &clean, &t);
        }
    }
    if acc.out.len() == before {
        // nothing in scope fails on its own: quads outside the format's scope (named graphs for
        // N-Triples/Turtle) interfere, or the behaviour is not reproducible
        match whole {
            Trip::Panic { site, .. } => acc.push(panic_sig(site, fmt, "dataset"), format!("[{}] {}", fmt.tag(), describe(fmt, ds, whole))),
            _ => {
                let oos = ds.quads.iter().any(|q| !fmt.in_scope(q));
                let sig = if oos { format!("c14.{}.out_of_scope_quads_interfere", fmt.tag()) } else { format!("c14.{}.unattributed", fmt.tag()) };
                acc.push(sig, describe(fmt, ds, whole));
            }
        }
    }
}

/// The C14 oracle. Returns one `(signature, detail)` per root-cause class found (empty = holds).
pub fn check_roundtrip(ds: &RtDataset) -> Vec<(String, String)> {
    check_roundtrip_counted(ds).0
}

/// Same, plus the number of export/import round trips that were executed.
pub fn check_roundtrip_counted(ds: &RtDataset) -> (Vec<(String, String)>, u64) {
    let mut acc = Acc { out: vec![], trips: 0 };
    if let Err(e) = validate(ds) {
        acc.push("c14.harness.dataset_outside_domain".into(), format!("generator/decoder produced a dataset outside the property's domain: {e}"));
        return (acc.out, 0);
    }
    for fmt in Fmt::ALL {
        let t = acc.trip(fmt, ds);
        if !t.passed() {
            attribute(&mut acc, fmt, ds, &t);
        }
    }
    (acc.out, acc.trips)
}

// ------------------------------------------------------------------------------------------
// known findings (for the fuzz target and for ordering failures in c14)
// ------------------------------------------------------------------------------------------

/// Signatures of the OPEN known findings of property C14 in `<root>/known_findings.json`.
pub fn open_known_sigs(root: &str) -> HashSet<String> {
    let mut out = HashSet::new();
    let Ok(text) = std::fs::read_to_string(format!("{root}/known_findings.json")) else {
        return out;
    };
    let Ok(v) = serde_json::from_str::<serde_json::Value>(&text) else {
        return out;
    };
    if let Some(fs) = v.get("findings").and_then(|f| f.as_array()) {
        for f in fs {
            if f.get("property").and_then(|p| p.as_str()) == Some("C14") && f.get("status").and_then(|p| p.as_str()) == Some("open") {
                if let Some(sigs) = f.get("sigs").and_then(|s| s.as_array()) {
                    for s in sigs {
                        if let Some(s) = s.as_str() {
                            out.insert(s.to_string());
                        }
                    }
                }
            }
        }
    }
    out
}

// ------------------------------------------------------------------------------------------
// bytes -> dataset (libFuzzer target and stable-toolchain replay of its corpus / crash files)
// ------------------------------------------------------------------------------------------

/// "next byte, 0 when exhausted" — exactly what `arbitrary::Unstructured::arbitrary::<u8>()` does, so the
/// fuzz target (which feeds an `Unstructured`) and the in-process replay (which feeds a slice) decode
/// the same bytes to the same dataset.
pub trait ByteSrc {
    fn byte(&mut self) -> u8;
}

pub struct SliceSrc<'a> {
    data: &'a [u8],
    pos: usize,
}

impl<'a> SliceSrc<'a> {
    pub fn new(data: &'a [u8]) -> Self {
        SliceSrc { data, pos: 0 }
    }
}

impl<'a> ByteSrc for SliceSrc<'a> {
    fn byte(&mut self) -> u8 {
        let b = self.data.get(self.pos).copied().unwrap_or(0);
        self.pos += 1;
        b
    }
}

/// Characters literals are drawn from (delimiters, escapes, controls, separators, combining marks,
/// astral characters, and fillers that can form escape sequences such as `A` or `\n`).
pub const LIT_ALPHABET: [char; 64] = [
    '"', '\\', '\n', '\r', '\t', ' ', '.', ';', ',', '<', '>', '@', '^', '#', '{', '}', '|', '\u{0}', '\u{1}', '\u{8}', '\u{b}', '\u{c}', '\u{1b}', '\u{1f}', '\u{7f}', '\u{85}', '\u{a0}',
    '\u{2028}', '\u{2029}', '\u{301}', '\u{308}', '\u{20d7}', '\u{1f600}', '\u{10348}', '\u{e0001}', '\u{feff}', '\u{fffd}', 'a', 'b', 'n', 'r', 't', 'u', 'U', 'x', 'A', 'Z', '0', '1', '4', '7', '\u{e9}',
    '\u{df}', '\u{4e2d}', ':', '_', '-', '+', '/', '\'', '~', '%', '=', '?',
];

pub const LIT_BREAKERS: [char; 8] = [' ', '"', '7', '\u{e9}', '\\', '.', '\n', '\u{1f600}'];

pub const SUBJECT_IRIS: [&str; 4] = ["http://example.org/s1", "https://example.org/s2#frag", "urn:ex:s3", "mailto:s4@example.org"];
pub const PRED_IRIS: [&str; 4] = ["http://example.org/p1", "https://example.org/ns#p2", "urn:ex:p3", "mailto:p4@example.org"];
pub const OBJECT_IRIS: [&str; 6] = ["http://example.org/o1", "https://example.org/o2?x=1&y=2", "urn:isbn:0451450523", "mailto:o4@example.org", "urn:ex:a.b,c;d=e", "http://example.org/a.b/c,d;e."];
pub const GRAPH_IRIS: [&str; 3] = ["http://example.org/g1", "urn:ex:g2", "https://example.org/g3#x"];
pub const BNODE_LABELS: [&str; 3] = ["b0", "b1", "n-2_x"];
pub const SIMPLE_LITS: [&str; 4] = ["v", "42", "Alice", "a"];
pub const IRI_TAIL: [char; 32] =
    ['a', 'b', 'z', 'A', '0', '9', '.', '-', '_', '~', '/', '?', '#', '=', '&', ',', ';', ':', '@', '!', '$', '\'', '(', ')', '*', '+', '%', '\u{e9}', '\u{4e2d}', 'x', 'y', '1'];
pub const EDGE_LITS: [&str; 16] = ["", "\\", "\"", " ", ".", "a\\", "a\"", "a ", "a.", "\"a\"", "<a>", "x {| a b |}", "a\r\nb", "\\u0041", "a\"@en", "a\"^^<http://t>"];

fn decode_iri<B: ByteSrc>(b: &mut B) -> String {
    let k = b.byte();
    let mut s = String::from(match k % 4 {
        0 => "http://example.org/",
        1 => "https://example.org/",
        2 => "urn:ex:",
        _ => "mailto:u@example.org?",
    });
    s.push('i');
    let n = (k / 4) % 6;
    for _ in 0..n {
        push_iri_char(&mut s, IRI_TAIL[(b.byte() % 32) as usize]);
    }
    s
}

fn decode_literal<B: ByteSrc>(b: &mut B) -> String {
    let k = b.byte();
    let n = (k % 10) as usize;
    let breaker = LIT_BREAKERS[((k / 10) % 8) as usize];
    let mut s = String::new();
    for _ in 0..n {
        let x = b.byte();
        if x < 0xE0 {
            s.push(LIT_ALPHABET[(x % 64) as usize]);
        } else {
            let v = (((x & 0x1f) as u32) << 16) | ((b.byte() as u32) << 8) | b.byte() as u32;
            s.push(char::from_u32(v % 0x11_0000).unwrap_or('\u{fffd}'));
        }
    }
    make_literal(s, breaker)
}

fn decode_quoted<B: ByteSrc>(b: &mut B, nested: bool) -> RtTerm {
    let k = b.byte();
    let s = if nested && k & 1 == 1 { decode_quoted(b, false) } else { RtTerm::Iri(SUBJECT_IRIS[((k >> 1) % 4) as usize].into()) };
    let p = RtTerm::Iri(PRED_IRIS[((k >> 3) % 4) as usize].into());
    let o = match (k >> 5) % 4 {
        0 => RtTerm::Iri(OBJECT_IRIS[(b.byte() % 6) as usize].into()),
        1 | 2 => RtTerm::Lit(SIMPLE_LITS[(b.byte() % 4) as usize].into()),
        _ => {
            if nested && k & 1 == 0 {
                decode_quoted(b, false)
            } else {
                RtTerm::Iri(OBJECT_IRIS[(b.byte() % 6) as usize].into())
            }
        }
    };
    RtTerm::Quoted(Box::new(s), Box::new(p), Box::new(o))
}

/// Hand-written structure-aware decoding: every byte string denotes a dataset of the domain.
pub fn decode_dataset<B: ByteSrc>(b: &mut B) -> RtDataset {
    let n = 1 + (b.byte() % 5) as usize;
    let mut quads = Vec::with_capacity(n);
    for _ in 0..n {
        let k = b.byte();
        let s = match k % 8 {
            0..=3 => RtTerm::Iri(SUBJECT_IRIS[((k / 8) % 4) as usize].into()),
            4 | 5 => RtTerm::BNode(BNODE_LABELS[((k / 8) % 3) as usize].into()),
            6 => decode_quoted(b, (k / 8) % 2 == 1),
            _ => RtTerm::Iri(decode_iri(b)),
        };
        let p = PRED_IRIS[(b.byte() % 4) as usize].to_string();
        let k = b.byte();
        let o = match k % 16 {
            0..=7 => RtTerm::Lit(decode_literal(b)),
            8 => RtTerm::Iri(OBJECT_IRIS[((k / 16) % 6) as usize].into()),
            9 => RtTerm::Iri(OBJECT_IRIS[2 + ((k / 16) % 3) as usize].into()),
            10 => RtTerm::BNode(BNODE_LABELS[((k / 16) % 3) as usize].into()),
            11 => decode_quoted(b, false),
            12 => decode_quoted(b, true),
            13 => RtTerm::Iri(decode_iri(b)),
            _ => RtTerm::Lit(EDGE_LITS[(k / 16) as usize].into()),
        };
        let k = b.byte();
        let g = match k % 4 {
            0 | 1 => None,
            _ => Some(GRAPH_IRIS[((k / 4) % 3) as usize].to_string()),
        };
        quads.push(RtQuad { s, p, o, g });
    }
    RtDataset { quads }
}

pub fn decode_bytes(data: &[u8]) -> RtDataset {
    decode_dataset(&mut SliceSrc::new(data))
}
