//! C17 — query entry points cannot modify data; string entry points fail cleanly.
//! Generated and mutated request strings x database states x entry points; oracle = lexical snapshot
//! equality (quads + named-graph catalog) around every query-path call, Err for everything the parser
//! rejects / for update syntax on the query path, and no panic on the error-preserving entry points.

use kolibrie::execute_query::{execute_query_rayon_parallel2_volcano, execute_sparql_query, execute_sparql_update};
use kolibrie::parser::parse_combined_query;
use kolibrie::sparql_database::SparqlDatabase;
use kvh::engine::*;
use kvh::sparql::*;
use kvh::update::*;
use kvh::req_oracle::*;
use proptest::prelude::*;
use serde::{Deserialize, Serialize};
use serde_json::json;
use shared::query::SparqlOperation;

const MB: [&str; 6] = ["é", "€", "😀", "\u{301}", "\u{a0}", "\u{2028}"];
const ASCII_TROUBLE: [&str; 14] = ["{", "}", "\"", "'", "<", ">", "#", "\\", ".", ";", "(", ")", "?", "\n"];

#[derive(Clone, Debug, Serialize, Deserialize)]
enum Mutation {
    InsertMb(u16, u8),
    InsertAscii(u16, u8),
    DeleteChar(u16),
    DupToken(u16),
    Truncate(u16),
    Append(u8),
}

#[derive(Clone, Debug, Serialize, Deserialize)]
struct Case {
    data: DataSet,
    /// the well-formed request the text was derived from
    base: String,
    base_kind: String,
    muts: Vec<Mutation>,
}

fn boundaries(s: &str) -> Vec<usize> {
    let mut v: Vec<usize> = s.char_indices().map(|(i, _)| i).collect();
    v.push(s.len());
    v
}

fn apply(s: &str, m: &Mutation) -> String {
    let b = boundaries(s);
    let at = |sel: u16| b[pick_idx(sel, b.len())];
    match m {
        Mutation::InsertMb(o, c) => {
            let i = at(*o);
            format!("{}{}{}", &s[..i], MB[*c as usize % MB.len()], &s[i..])
        }
        Mutation::InsertAscii(o, c) => {
            let i = at(*o);
            format!("{}{}{}", &s[..i], ASCII_TROUBLE[*c as usize % ASCII_TROUBLE.len()], &s[i..])
        }
        Mutation::DeleteChar(o) => {
            if s.is_empty() {
                return String::new();
            }
            let ci: Vec<(usize, char)> = s.char_indices().collect();
            let (i, ch) = ci[pick_idx(*o, ci.len())];
            format!("{}{}", &s[..i], &s[i + ch.len_utf8()..])
        }
        Mutation::DupToken(o) => {
            let toks: Vec<&str> = s.split(' ').collect();
            let k = pick_idx(*o, toks.len());
            let mut out: Vec<&str> = vec![];
            for (i, t) in toks.iter().enumerate() {
                out.push(t);
                if i == k {
                    out.push(t);
                }
            }
            out.join(" ")
        }
        Mutation::Truncate(o) => s[..at(*o)].to_string(),
        Mutation::Append(k) => format!("{s}{}", [" }", " garbage", " €", " . ?x", "\u{301}", " #c\u{2028}", " LIMIT", " ;"][*k as usize % 8]),
    }
}

fn fixed_corpus() -> Vec<(&'static str, String)> {
    let mut v: Vec<(&'static str, String)> = vec![];
    let s = |k: &'static str, t: &str| (k, t.to_string());
    v.push(s("select", "SELECT ?s ?o WHERE { ?s <http://e/p0> ?o }"));
    v.push(s("select", "PREFIX e: <http://e/> SELECT DISTINCT ?s WHERE { ?s e:p0 ?o . ?o e:val ?v FILTER(?v > 3) } ORDER BY ?s LIMIT 5"));
    v.push(s("select", "SELECT * WHERE { { ?s ?p \"x\" } UNION { GRAPH ?g { ?s ?p 'y z' } } }"));
    v.push(s("select", "SELECT ?s (SUM(?v) AS ?t) WHERE { ?s <http://e/val> ?v } GROUP BY ?s"));
    v.push(s("select", "SELECT * FROM <http://e/g0> FROM NAMED <http://e/g1> WHERE { GRAPH <http://e/g1> { ?s ?p ?o } VALUES ?s { <http://e/s0> UNDEF } }"));
    v.push(s("select", "SELECT ?n WHERE { ?p <http://e/tag> ?a BIND(CONCAT(?a, \" \", ?a) AS ?n) { SELECT ?p WHERE { ?p a <http://e/C0> } LIMIT 3 } }"));
    v.push(s("update", "INSERT DATA { <http://e/s0> <http://e/p0> \"caf\\u00e9\" . GRAPH <http://e/g0> { <http://e/s1> <http://e/p1> <http://e/o0> } }"));
    v.push(s("update", "DELETE DATA { <http://e/s0> <http://e/p0> <http://e/s1> }"));
    v.push(s("update", "PREFIX e: <http://e/> DELETE { ?s e:p0 ?o } INSERT { GRAPH e:g1 { ?s e:p1 ?o . _:b e:p2 ?o } } WHERE { ?s e:p0 ?o FILTER(?o != e:s0) }"));
    v.push(s("update", "INSERT { ?s <http://e/p1> ?o } WHERE { GRAPH ?g { ?s <http://e/p0> ?o } }"));
    v.push(s("update", "DELETE { ?s ?p ?o } WHERE { ?s ?p ?o . ?s <http://e/tag> \"red\" }"));
    v.push(s("update", "DELETE WHERE { GRAPH <http://e/g0> { ?s <http://e/p0> ?o } }"));
    v.push(s("alias", "INSERT { <http://e/s0> <http://e/p0> <http://e/o1> }"));
    v.push(s("alias", "DELETE { <http://e/s0> <http://e/p0> <http://e/s1> }"));
    v.push(s(
        "rule",
        "PREFIX ex: <http://example.org/> RULE :OverheatingAlert :- CONSTRUCT { ?room ex:overheatingAlert true . } WHERE { ?reading ex:room ?room ; ex:temperature ?temp FILTER (?temp > 80) }",
    ));
    v.push(s(
        "register",
        "PREFIX : <http://test/> REGISTER RSTREAM <http://out/stream> AS SELECT * FROM NAMED WINDOW :wind ON ?s [RANGE 10 STEP 2] WHERE { WINDOW :wind { ?s a <http://www.w3.org/test/SuperType> . } }",
    ));
    v.push(s("rule+update", "RULE :Derived :- CONSTRUCT { ?x <http://e/derived> <http://e/yes> . } WHERE { ?x <http://e/p0> ?y . } .\nINSERT DATA { <http://e/s0> <http://e/p0> <http://e/o1> }"));
    v.push(s("rule+update", "PREFIX e: <http://e/> RULE :Derived :- CONSTRUCT { ?x e:derived e:yes . } WHERE { ?x e:p0 ?y . } .\nDELETE WHERE { ?s e:p0 ?o }"));
    v.push(s("rule+select", "RULE :Derived :- CONSTRUCT { ?x <http://e/derived> <http://e/yes> . } WHERE { ?x <http://e/p0> ?y . } .\nSELECT ?s WHERE { ?s <http://e/p0> ?o }"));
    v.push(s("retrieve+update", "RETRIEVE SOME ACTIVE STREAM ?st FROM <http://e/catalog> WITH { ?st a <http://e/Stream> . }\nINSERT { ?s <http://e/p1> ?o } WHERE { ?s <http://e/p0> ?o }"));
    // numeric escapes inside IRIs and literals, in every place an IRI is lexed (the sweep cuts their bodies with multi-byte characters)
    v.push(s("escapes", "PREFIX x: <http://e/\\u0070re#> SELECT ?s FROM <http://e/g\\u0030> WHERE { ?s <http://e/p\\u0030> <http://e/\\U0001F600x> . GRAPH <http://e/g\\U00000031> { ?s ?p \"a\\u00e9\\U0001F600\"^^<http://e/d\\u0074> } VALUES ?p { <http://e/p\\u0031> } FILTER(?s != <http://e/s\\u0030>) }"));
    v.push(s("escapes", "INSERT DATA { <http://e/s\\u0030> <http://e/p0> \"x\\u0041\" . GRAPH <http://e/g\\u0030> { <http://e/s1> <http://e/p\\U00000031> <http://e/o\\u0030> } }"));
    v.push(s("escapes", "DELETE { ?s <http://e/p\\u0030> ?o } INSERT { ?s <http://e/p\\u0031> ?o } WHERE { ?s <http://e/p\\u0030> ?o }"));
    v.push(s("garbage", "this is not sparql at all { ? } <"));
    v.push(s("garbage", ""));
    v.push(s("garbage", "SELECT"));
    v.push(s("garbage", "INSERT DATA { ?x <http://e/p0> <http://e/o0> } #€"));
    v
}

const EXTENSION_CLAUSES: [&str; 2] = [
    "RULE :Derived :- CONSTRUCT { ?x <http://e/derived> <http://e/yes> . } WHERE { ?x <http://e/p0> ?y . } .\n",
    "RETRIEVE SOME ACTIVE STREAM ?st FROM <http://e/catalog> WITH { ?st a <http://e/Stream> . }\n",
];

/// Put an extension clause in front of the request's operation keyword (after its PREFIX declarations).
fn with_extension_clause(text: &str, which: u8) -> String {
    let at = ["SELECT", "INSERT", "DELETE"].iter().filter_map(|k| text.find(k)).min().unwrap_or(0);
    format!("{}{}{}", &text[..at], EXTENSION_CLAUSES[which as usize % EXTENSION_CLAUSES.len()], &text[at..])
}

fn kind_well_formed_select(kind: &str) -> bool {
    kind == "gen-select"
}

fn check_case(c: &Case) -> Outcome {
    let mut o = Outcome::new();
    let mut text = c.base.clone();
    for m in &c.muts {
        text = apply(&text, m);
    }
    let mutated = !c.muts.is_empty();
    o.class(match c.base_kind.as_str() {
        "gen-select" => "base:generated-select",
        "gen-update" => "base:generated-update",
        "gen-rejected" => "base:generated-rejected-update",
        "gen-select+extension" => "base:extension-clause+select",
        "gen-update+extension" => "base:extension-clause+update",
        _ => "base:fixed-corpus",
    });
    o.class_if(mutated, "mutated");
    o.class_if(text.chars().any(|ch| ch.len_utf8() > 1), "multi-byte");
    check_text(&mut o, &c.data, &text, !mutated && kind_well_formed_select(&c.base_kind), true);
    // non-trivial: rejected after >=1 accepted token, or a well-formed update on the query path, or multi-byte text
    let parsed = classify(&text).unwrap_or(Parsed::Rejected);
    let starts_ok = {
        let t = text.trim_start().to_ascii_uppercase();
        ["SELECT", "INSERT", "DELETE", "PREFIX", "RULE", "REGISTER"].iter().any(|k| t.starts_with(k))
    };
    o.nontrivial = (parsed == Parsed::Rejected && starts_ok) || parsed == Parsed::Update || text.chars().any(|ch| ch.len_utf8() > 1);
    o
}

fn mutation() -> impl Strategy<Value = Mutation> {
    prop_oneof![
        4 => (any::<u16>(), any::<u8>()).prop_map(|(o, c)| Mutation::InsertMb(o, c)),
        2 => (any::<u16>(), any::<u8>()).prop_map(|(o, c)| Mutation::InsertAscii(o, c)),
        2 => any::<u16>().prop_map(Mutation::DeleteChar),
        1 => any::<u16>().prop_map(Mutation::DupToken),
        2 => any::<u16>().prop_map(Mutation::Truncate),
        1 => any::<u8>().prop_map(Mutation::Append),
    ]
}

struct Requests;
impl Part for Requests {
    type Case = Case;
    fn name(&self) -> &'static str {
        "requests"
    }
    fn cases(&self, tier: Tier) -> u32 {
        tier.pick(80_000, 300_000)
    }
    fn strategy(&self, _tier: Tier) -> BoxedStrategy<Case> {
        let corpus = fixed_corpus();
        let n = corpus.len();
        let base = prop_oneof![
            3 => (data_query_strategy(1, 10, 5), any::<bool>()).prop_map(|((d, q), p)| (d, Printer { use_prefix: p }.query(&q), "gen-select".to_string())),
            3 => (dataset_strategy(10, 5), raw_op(), any::<bool>()).prop_map(|(d, r, p)| {
                let op = UBuilder::new(&d).op(&r);
                let kind = if matches!(op, UpdOp::Rejected(_)) { "gen-rejected" } else { "gen-update" };
                let t = UPrinter { use_prefix: p }.op(&op);
                (d, t, kind.to_string())
            }),
            2 => (dataset_strategy(8, 4), 0..n).prop_map(move |(d, i)| (d, corpus[i].1.clone(), format!("fixed-{}", corpus[i].0))),
        ];
        // One generated request in six carries an extension clause (RULE definition / RETRIEVE clause) between its PREFIX
        // declarations and its SELECT or update operation: still ONE request whose operation decides what it is.
        (base, proptest::collection::vec(mutation(), 0..=3), 0u8..12)
            .prop_map(|((data, base, base_kind), muts, ext)| {
                let (base, base_kind) = if ext < 2 && (base_kind == "gen-select" || base_kind == "gen-update") {
                    (with_extension_clause(&base, ext), format!("{base_kind}+extension"))
                } else {
                    (base, base_kind)
                };
                Case { data, base, base_kind, muts }
            })
            .boxed()
    }
    fn check(&self, c: &Case) -> Outcome {
        check_case(c)
    }
    fn describe(&self, c: &Case) -> serde_json::Value {
        let mut text = c.base.clone();
        for m in &c.muts {
            text = apply(&text, m);
        }
        json!({"request": text, "kind": c.base_kind, "mutations": c.muts.len(), "quads": c.data.size()})
    }
}

/// Deterministic sweep: every char-boundary offset of every corpus request x every multi-byte character.
#[derive(Clone, Debug, Serialize, Deserialize)]
struct SweepCase {
    corpus_index: usize,
    ch: usize,
}

struct Sweep {
    corpus: Vec<(&'static str, String)>,
}

impl Part for Sweep {
    type Case = SweepCase;
    fn name(&self) -> &'static str {
        "multibyte-sweep"
    }
    fn cases(&self, _: Tier) -> u32 {
        0
    }
    fn strategy(&self, _: Tier) -> BoxedStrategy<SweepCase> {
        Just(SweepCase { corpus_index: 0, ch: 0 }).boxed()
    }
    fn check(&self, c: &SweepCase) -> Outcome {
        let mut o = Outcome::new();
        let base = &self.corpus[c.corpus_index % self.corpus.len()].1;
        let data = DataSet {
            default: vec![[Tm::Iri("http://e/s0".into()), Tm::Iri("http://e/p0".into()), Tm::Iri("http://e/s1".into())], [Tm::Iri("http://e/s1".into()), Tm::Iri("http://e/tag".into()), Tm::Lit("red".into())]],
            named: vec![("http://e/g0".into(), vec![[Tm::Iri("http://e/s1".into()), Tm::Iri("http://e/p0".into()), Tm::Iri("http://e/o0".into())]])],
        };
        for off in boundaries(base) {
            let text = format!("{}{}{}", &base[..off], MB[c.ch % MB.len()], &base[off..]);
            check_text(&mut o, &data, &text, false, false);
            if !o.ok() {
                break;
            }
        }
        o.nontrivial = true;
        o
    }
}

#[derive(Clone, Debug, Serialize, Deserialize)]
struct BytesCase {
    bytes: Vec<u8>,
}

struct FuzzInput {
    name: &'static str,
}

impl Part for FuzzInput {
    type Case = BytesCase;
    fn name(&self) -> &'static str {
        self.name
    }
    fn cases(&self, _: Tier) -> u32 {
        0
    }
    fn strategy(&self, _: Tier) -> BoxedStrategy<BytesCase> {
        Just(BytesCase { bytes: vec![] }).boxed()
    }
    fn check(&self, c: &BytesCase) -> Outcome {
        let mut o = Outcome::new();
        let text = String::from_utf8_lossy(&c.bytes).to_string();
        let data = DataSet {
            default: vec![[Tm::Iri("http://e/s0".into()), Tm::Iri("http://e/p0".into()), Tm::Iri("http://e/s1".into())], [Tm::Iri("http://e/s1".into()), Tm::Iri("http://e/tag".into()), Tm::Lit("red".into())], [Tm::Iri("http://e/s0".into()), Tm::Iri("http://e/val".into()), Tm::Num(3)]],
            named: vec![("http://e/g0".into(), vec![[Tm::Iri("http://e/s1".into()), Tm::Iri("http://e/p0".into()), Tm::Iri("http://e/o0".into())]])],
        };
        check_text(&mut o, &data, &text, false, true);
        o.nontrivial = text.len() > 8;
        o
    }
    fn describe(&self, c: &BytesCase) -> serde_json::Value {
        json!({"request": String::from_utf8_lossy(&c.bytes)})
    }
}

// ---- deep / long requests on a small stack (the HTTP server runs each connection on its own thread) ----

#[derive(Clone, Debug, Serialize, Deserialize)]
struct DeepCase {
    kind: String,
    n: usize,
}

fn deep_request(kind: &str, n: usize) -> String {
    match kind {
        "group" => format!("SELECT * WHERE {}?s ?p ?o{}", "{".repeat(n), "}".repeat(n)),
        "filter_paren" => format!("SELECT * WHERE {{ ?s ?p ?o FILTER({}?o > 1{}) }}", "(".repeat(n), ")".repeat(n)),
        "filter_not" => format!("SELECT * WHERE {{ ?s ?p ?o FILTER({}?o = 1) }}", "!".repeat(n)),
        "filter_minus" => format!("SELECT * WHERE {{ ?s ?p ?o FILTER(?o > {}1) }}", "-".repeat(n)),
        "subselect" => format!("SELECT * WHERE {{ {}?s ?p ?o{} }}", "{ SELECT * WHERE { ".repeat(n), " } }".repeat(n)),
        "update_where_not" => format!("DELETE {{ ?s ?p ?o }} WHERE {{ ?s ?p ?o FILTER({}?o = 1) }}", "!".repeat(n)),
        "update_where_group" => format!("INSERT {{ ?s <http://e/p9> ?o }} WHERE {}?s ?p ?o{}", "{".repeat(n), "}".repeat(n)),
        _ => String::new(),
    }
}

/// Child mode: the three error-preserving entry points on a 2 MiB-stack thread; exit 0 = every one returned.
fn child_deep(kind: &str, n: usize) -> i32 {
    install_panic_hook();
    let text = deep_request(kind, n);
    let h = std::thread::Builder::new().stack_size(2 << 20).spawn(move || {
        let mk = || {
            let mut db = SparqlDatabase::new();
            db.add_triple_parts("http://e/s0", "http://e/p0", "1");
            db
        };
        let a = catch(|| execute_sparql_query(&text, &mut mk()).is_ok());
        let b = catch(|| execute_sparql_update(&text, &mut mk()).is_ok());
        let c = catch(|| mk().execute_update(&text).is_ok());
        (a.is_err(), b.is_err(), c.is_err())
    });
    match h.map(|h| h.join()) {
        Ok(Ok((pa, pb, pc))) => {
            if pa || pb || pc {
                3
            } else {
                0
            }
        }
        _ => 4,
    }
}

struct Deep;
impl Part for Deep {
    type Case = DeepCase;
    fn name(&self) -> &'static str {
        "deep-requests"
    }
    fn cases(&self, _: Tier) -> u32 {
        0
    }
    fn strategy(&self, _: Tier) -> BoxedStrategy<DeepCase> {
        Just(DeepCase { kind: "group".into(), n: 1 }).boxed()
    }
    fn check(&self, c: &DeepCase) -> Outcome {
        use std::os::unix::process::ExitStatusExt;
        let mut o = Outcome::new();
        let Ok(exe) = std::env::current_exe() else {
            o.skipped.push("child-unavailable");
            return o;
        };
        let child = std::process::Command::new(exe).arg("--child-deep").arg(&c.kind).arg(c.n.to_string()).stdin(std::process::Stdio::null()).stdout(std::process::Stdio::null()).stderr(std::process::Stdio::piped()).spawn();
        let Ok(mut child) = child else {
            o.skipped.push("child-unavailable");
            return o;
        };
        // bounded wait: a slow child is an infrastructure matter, never a violation
        let t0 = std::time::Instant::now();
        let status = loop {
            match child.try_wait() {
                Ok(Some(st)) => break Some(st),
                Ok(None) => {
                    if t0.elapsed().as_secs() > 240 {
                        let _ = child.kill();
                        let _ = child.wait();
                        break None;
                    }
                    std::thread::sleep(std::time::Duration::from_millis(20));
                }
                Err(_) => break None,
            }
        };
        let Some(status) = status else {
            o.skipped.push("child-timeout");
            return o;
        };
        let mut err = String::new();
        use std::io::Read;
        if let Some(mut e) = child.stderr.take() {
            let _ = e.read_to_string(&mut err);
        }
        o.inner_evals += 3;
        o.nontrivial = true;
        let tail: String = err.trim().chars().rev().take(240).collect::<String>().chars().rev().collect();
        if let Some(sig) = status.signal() {
            o.fail(
                format!("c17.total.process_died.{}", c.kind),
                format!("a request with {} levels / repetitions of `{}` sent to the string entry points on a 2 MiB-stack thread killed the process (signal {sig}): {tail}", c.n, c.kind),
            );
            return o;
        }
        match status.code() {
            Some(0) => {}
            Some(3) => o.fail(format!("c17.total.panic.{}", c.kind), format!("an entry point panicked on a request with {} x `{}`: {tail}", c.n, c.kind)),
            code => o.fail(format!("c17.total.child_abnormal_exit.{}", c.kind), format!("child exit {:?}: {tail}", code)),
        }
        o
    }
}

fn main() {
    {
        let args: Vec<String> = std::env::args().collect();
        if args.len() >= 4 && args[1] == "--child-deep" {
            std::process::exit(child_deep(&args[2], args[3].parse().unwrap_or(1)));
        }
    }
    let mut s = Session::start(
        "C17",
        "exploration",
        "request strings x database states x entry points. Part `requests`: base requests = generated SELECTs of the C01 grammar, generated updates of all six forms (plus texts the strict path must reject, and legacy INSERT{}/DELETE{} aliases), RULE/REGISTER extension texts and garbage, \
         each with 0-3 mutations (multi-byte character inserted at a char boundary, ASCII delimiter inserted, char deleted, token duplicated, truncation, garbage appended), over generated datasets; every text is sent to execute_sparql_query, execute_sparql_update, SparqlDatabase::execute_update, handle_update, \
         execute_query_rayon_parallel2_volcano (SELECTs) and handle_http_request (GET ?query=, POST sparql-query, form query=/update=, sparql-update). Oracle: lexical snapshot (all quads + named-graph catalog) unchanged around every query-path call and around every Err/`Update Failed`; \
         Err whenever parse_combined_query rejects the text or it is an update on the query path; Ok for unmutated generated SELECTs; no panic. Part `multibyte-sweep`: every char-boundary offset of the fixed corpus requests x 6 multi-byte characters (exhaustive). Part `deep-requests`: requests with 200 / 5 000 / 100 000 levels or repetitions of { ( ! - sub-SELECT (also in update WHERE clauses) sent to the three error-preserving entry points on a 2 MiB-stack thread of a child process, which must survive. \
         Non-trivial = rejected after a recognised leading keyword, or a well-formed update reaching the query path, or multi-byte text; inner_evaluations counts entry-point calls.",
    );
    s.assume("requests that would start neural training / Python (TRAIN NEURAL RELATION, ML.PREDICT execution) are not generated");
    let sweep = Sweep { corpus: fixed_corpus() };
    let n = sweep.corpus.len();
    let cases: Vec<SweepCase> = (0..n).flat_map(|i| (0..MB.len()).map(move |ch| SweepCase { corpus_index: i, ch })).collect();
    s.run_enum(&sweep, cases.into_iter(), true);
    s.run(&Requests);
    let mut deep = vec![];
    for kind in ["group", "filter_paren", "filter_not", "filter_minus", "subselect", "update_where_not", "update_where_group"] {
        for n in [200usize, 5_000, 100_000] {
            deep.push(DeepCase { kind: kind.into(), n });
        }
    }
    s.run_enum(&Deep, deep.into_iter(), true);
    // saved fuzz inputs (seed corpus + crash artifacts) through the stable build, every run
    let saved: Vec<BytesCase> = kvh::fuzzrun::saved_inputs("request_total").into_iter().filter_map(|p| std::fs::read(&p).ok()).map(|b| BytesCase { bytes: b }).collect();
    if !saved.is_empty() {
        s.run_enum(&FuzzInput { name: "fuzz-corpus" }, saved.into_iter(), true);
    }
    if s.tier == Tier::Thorough && !s.is_replay() {
        // coverage-guided campaign (libFuzzer) with the same oracle inside the target; fixed work
        let c = kvh::fuzzrun::run("request_total", 60_000, s.seed, 2048, Some("/verif/fuzz/sparql.dict").filter(|d| std::path::Path::new(d).exists()));
        eprintln!("libfuzzer request_total: executed {} ok={}\n{}", c.executed_units, c.ok, c.log_tail);
        let found: Vec<BytesCase> = c.new_artifacts.iter().filter_map(|p| std::fs::read(p).ok()).map(|b| BytesCase { bytes: b }).collect();
        let part = FuzzInput { name: "libfuzzer" };
        // every unit the campaign executed went through check_text inside the target; crash artifacts are
        // re-judged here on the stable build before they count
        s.run_enum(&part, found.into_iter().chain(std::iter::once(BytesCase { bytes: format!("#executed_units={}", c.executed_units).into_bytes() })), false);
        s.note_inner("libfuzzer", c.executed_units);
    }
    std::process::exit(s.finish());
}
