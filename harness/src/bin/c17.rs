//! C17 — query entry points cannot modify data; string entry points fail cleanly.
//! Generated and mutated request strings x database states x entry points; oracle = lexical snapshot
//! equality (quads + named-graph catalog) around every query-path call, Err for everything the parser
//! rejects / for update syntax on the query path, and no panic on the error-preserving entry points.

use kolibrie::execute_query::{execute_query_rayon_parallel2_volcano, execute_sparql_query, execute_sparql_update};
use kolibrie::parser::parse_combined_query;
use kolibrie::sparql_database::SparqlDatabase;
use kvh::engine::*;
use kvh::sparql::*;
use kvh::update::*;
use proptest::prelude::*;
use serde::{Deserialize, Serialize};
use serde_json::json;
use shared::query::SparqlOperation;

const MB: [&str; 6] = ["é", "€", "😀", "\u{301}", "\u{a0}", "\u{2028}"];
const ASCII_TROUBLE: [&str; 14] = ["{", "}", "\"", "'", "<", ">", "#", "\\", ".", ";", "(", ")", "?", "\n"];

#[derive(Clone, Debug, Serialize, Deserialize)]
enum Mutation {
    InsertMb(u16, u8),
    InsertAscii(u16, u8),
    DeleteChar(u16),
    DupToken(u16),
    Truncate(u16),
    Append(u8),
}

#[derive(Clone, Debug, Serialize, Deserialize)]
struct Case {
    data: DataSet,
    /// the well-formed request the text was derived from
    base: String,
    base_kind: String,
    muts: Vec<Mutation>,
}

fn boundaries(s: &str) -> Vec<usize> {
    let mut v: Vec<usize> = s.char_indices().map(|(i, _)| i).collect();
    v.push(s.len());
    v
}

fn apply(s: &str, m: &Mutation) -> String {
    let b = boundaries(s);
    let at = |sel: u16| b[pick_idx(sel, b.len())];
    match m {
        Mutation::InsertMb(o, c) => {
            let i = at(*o);
            format!("{}{}{}", &s[..i], MB[*c as usize % MB.len()], &s[i..])
        }
        Mutation::InsertAscii(o, c) => {
            let i = at(*o);
            format!("{}{}{}", &s[..i], ASCII_TROUBLE[*c as usize % ASCII_TROUBLE.len()], &s[i..])
        }
        Mutation::DeleteChar(o) => {
            if s.is_empty() {
                return String::new();
            }
            let ci: Vec<(usize, char)> = s.char_indices().collect();
            let (i, ch) = ci[pick_idx(*o, ci.len())];
            format!("{}{}", &s[..i], &s[i + ch.len_utf8()..])
        }
        Mutation::DupToken(o) => {
            let toks: Vec<&str> = s.split(' ').collect();
            let k = pick_idx(*o, toks.len());
            let mut out: Vec<&str> = vec![];
            for (i, t) in toks.iter().enumerate() {
                out.push(t);
                if i == k {
                    out.push(t);
                }
            }
            out.join(" ")
        }
        Mutation::Truncate(o) => s[..at(*o)].to_string(),
        Mutation::Append(k) => format!("{s}{}", [" }", " garbage", " €", " . ?x", "\u{301}", " #c\u{2028}", " LIMIT", " ;"][*k as usize % 8]),
    }
}

#[derive(Clone, Copy, PartialEq, Debug)]
enum Parsed {
    Rejected,
    Select,
    Update,
    Other, // accepted without a standard SPARQL operation (RULE / REGISTER / declarations only)
}

fn classify(text: &str) -> Result<Parsed, PanicSite> {
    catch(|| match parse_combined_query(text) {
        Ok((rest, c)) if rest.trim().is_empty() => match c.sparql {
            Some(SparqlOperation::Select(_)) => Parsed::Select,
            Some(SparqlOperation::Update(_)) => Parsed::Update,
            None => Parsed::Other,
        },
        _ => Parsed::Rejected,
    })
}

fn pct(s: &str) -> String {
    let mut o = String::new();
    for b in s.bytes() {
        if b.is_ascii_alphanumeric() || b"-_.~".contains(&b) {
            o.push(b as char);
        } else {
            o.push_str(&format!("%{:02X}", b));
        }
    }
    o
}

fn fresh_db(d: &DataSet) -> SparqlDatabase {
    let mut db = SparqlDatabase::new();
    load_into(&mut db, d);
    db
}

/// All entry-point checks for one request text over one database state.
fn check_text(o: &mut Outcome, data: &DataSet, text: &str, well_formed_select: bool, http: bool) {
    let parsed = match classify(text) {
        Ok(p) => p,
        Err(_) => {
            // parser totality is C16's subject; here the entry points decide
            Parsed::Rejected
        }
    };
    let snap0 = data.lexical();
    let show = |t: &str| -> String { t.chars().take(400).collect() };
    // ---- A. execute_sparql_query: never mutates, refuses updates, errors instead of crashing ----
    {
        let mut db = fresh_db(data);
        let r = catch(|| execute_sparql_query(text, &mut db));
        o.inner_evals += 1;
        match r {
            Err(site) => o.panic(&format!("execute_sparql_query({:?})", show(text)), &site),
            Ok(res) => {
                if snapshot(&db) != snap0 {
                    o.fail("c17.query_path.mutated", format!("execute_sparql_query changed the dataset; request: {:?}", show(text)));
                }
                match (parsed, &res) {
                    (Parsed::Update, Ok(_)) => o.fail("c17.query_path.update_accepted", format!("update syntax accepted on the query-only entry point: {:?}", show(text))),
                    (Parsed::Rejected, Ok(_)) => o.fail("c17.query_path.malformed_accepted", format!("request rejected by parse_combined_query but execute_sparql_query returned Ok: {:?}", show(text))),
                    (Parsed::Select, Err(e)) if well_formed_select => o.fail("c17.query_path.select_rejected", format!("well-formed SELECT of the supported fragment failed: {e}\n{:?}", show(text))),
                    _ => {}
                }
            }
        }
    }
    // ---- B. execute_sparql_update / SparqlDatabase::execute_update ----
    for which in 0..2 {
        let mut db = fresh_db(data);
        let r = catch(|| if which == 0 { execute_sparql_update(text, &mut db) } else { db.execute_update(text) });
        o.inner_evals += 1;
        let name = ["execute_sparql_update", "SparqlDatabase::execute_update"][which];
        match r {
            Err(site) => o.panic(&format!("{name}({:?})", show(text)), &site),
            Ok(Ok(_)) => {
                if parsed != Parsed::Update {
                    o.fail("c17.update_path.non_update_accepted", format!("{name} returned Ok for a request that is not a standard update ({:?}): {:?}", parsed, show(text)));
                }
            }
            Ok(Err(_)) => {
                if snapshot(&db) != snap0 {
                    o.fail("c17.update_path.err_mutated", format!("{name} returned Err but changed the dataset: {:?}", show(text)));
                }
            }
        }
    }
    // ---- C. handle_update adapter ----
    {
        let mut db = fresh_db(data);
        let r = catch(|| db.handle_update(text));
        o.inner_evals += 1;
        match r {
            Err(site) => o.panic(&format!("handle_update({:?})", show(text)), &site),
            Ok(msg) => {
                if msg == "Update Failed" && snapshot(&db) != snap0 {
                    o.fail("c17.handle_update.failed_mutated", format!("handle_update reported failure but changed the dataset: {:?}", show(text)));
                }
                if parsed == Parsed::Select && snapshot(&db) != snap0 {
                    o.fail("c17.select.mutated", format!("a SELECT sent to handle_update changed the dataset: {:?}", show(text)));
                }
            }
        }
    }
    // ---- D. legacy entry point: every SELECT leaves the data alone ----
    if parsed == Parsed::Select {
        let mut db = fresh_db(data);
        let r = catch(|| execute_query_rayon_parallel2_volcano(text, &mut db));
        o.inner_evals += 1;
        match r {
            Err(site) => o.panic(&format!("execute_query_rayon_parallel2_volcano({:?})", show(text)), &site),
            Ok(_) => {
                if snapshot(&db) != snap0 {
                    o.fail("c17.select.mutated", format!("a SELECT sent to execute_query_rayon_parallel2_volcano changed the dataset: {:?}", show(text)));
                }
            }
        }
    }
    // ---- E. HTTP adapters ----
    if http {
        let routes: Vec<(&str, String, bool)> = vec![
            ("GET ?query=", format!("GET /sparql?query={} HTTP/1.1\r\nHost: localhost\r\n\r\n", pct(text)), true),
            ("POST application/sparql-query", format!("POST /sparql HTTP/1.1\r\nHost: localhost\r\nContent-Type: application/sparql-query\r\n\r\n{}", text), true),
            ("POST form query=", format!("POST /sparql HTTP/1.1\r\nHost: localhost\r\nContent-Type: application/x-www-form-urlencoded\r\n\r\nquery={}", pct(text)), true),
            ("POST form update=", format!("POST /sparql HTTP/1.1\r\nHost: localhost\r\nContent-Type: application/x-www-form-urlencoded\r\n\r\nupdate={}", pct(text)), false),
            ("POST application/sparql-update", format!("POST /sparql HTTP/1.1\r\nHost: localhost\r\nContent-Type: application/sparql-update\r\n\r\n{}", text), false),
        ];
        for (name, req, query_route) in routes {
            let mut db = fresh_db(data);
            let r = catch(|| db.handle_http_request(&req));
            o.inner_evals += 1;
            match r {
                Err(site) => o.panic(&format!("handle_http_request[{name}]({:?})", show(text)), &site),
                Ok(resp) => {
                    let changed = snapshot(&db) != snap0;
                    if query_route && changed {
                        o.fail("c17.http.query_route_mutated", format!("HTTP query route {name} changed the dataset: {:?}", show(text)));
                    }
                    // the raw-body routes cut the body at the first blank line; only judge the response when the text went through whole
                    let whole = !text.contains("\r\n\r\n");
                    if query_route && whole && parsed == Parsed::Update && !resp.starts_with("Query Failed") {
                        o.fail("c17.http.query_route_update_accepted", format!("HTTP query route {name} did not refuse update syntax (response {:?}): {:?}", show(&resp), show(text)));
                    }
                    if !query_route && resp == "Update Failed" && changed {
                        o.fail("c17.http.update_failed_mutated", format!("HTTP update route {name} reported failure but changed the dataset: {:?}", show(text)));
                    }
                    if parsed == Parsed::Select && changed {
                        o.fail("c17.select.mutated", format!("a SELECT sent to HTTP route {name} changed the dataset: {:?}", show(text)));
                    }
                }
            }
        }
    }
    o.class(match parsed {
        Parsed::Rejected => "parsed:rejected",
        Parsed::Select => "parsed:select",
        Parsed::Update => "parsed:update",
        Parsed::Other => "parsed:extension-only",
    });
}

fn fixed_corpus() -> Vec<(&'static str, String)> {
    let mut v: Vec<(&'static str, String)> = vec![];
    let s = |k: &'static str, t: &str| (k, t.to_string());
    v.push(s("select", "SELECT ?s ?o WHERE { ?s <http://e/p0> ?o }"));
    v.push(s("select", "PREFIX e: <http://e/> SELECT DISTINCT ?s WHERE { ?s e:p0 ?o . ?o e:val ?v FILTER(?v > 3) } ORDER BY ?s LIMIT 5"));
    v.push(s("select", "SELECT * WHERE { { ?s ?p \"x\" } UNION { GRAPH ?g { ?s ?p 'y z' } } }"));
    v.push(s("select", "SELECT ?s (SUM(?v) AS ?t) WHERE { ?s <http://e/val> ?v } GROUP BY ?s"));
    v.push(s("select", "SELECT * FROM <http://e/g0> FROM NAMED <http://e/g1> WHERE { GRAPH <http://e/g1> { ?s ?p ?o } VALUES ?s { <http://e/s0> UNDEF } }"));
    v.push(s("select", "SELECT ?n WHERE { ?p <http://e/tag> ?a BIND(CONCAT(?a, \" \", ?a) AS ?n) { SELECT ?p WHERE { ?p a <http://e/C0> } LIMIT 3 } }"));
    v.push(s("update", "INSERT DATA { <http://e/s0> <http://e/p0> \"caf\\u00e9\" . GRAPH <http://e/g0> { <http://e/s1> <http://e/p1> <http://e/o0> } }"));
    v.push(s("update", "DELETE DATA { <http://e/s0> <http://e/p0> <http://e/s1> }"));
    v.push(s("update", "PREFIX e: <http://e/> DELETE { ?s e:p0 ?o } INSERT { GRAPH e:g1 { ?s e:p1 ?o . _:b e:p2 ?o } } WHERE { ?s e:p0 ?o FILTER(?o != e:s0) }"));
    v.push(s("update", "INSERT { ?s <http://e/p1> ?o } WHERE { GRAPH ?g { ?s <http://e/p0> ?o } }"));
    v.push(s("update", "DELETE { ?s ?p ?o } WHERE { ?s ?p ?o . ?s <http://e/tag> \"red\" }"));
    v.push(s("update", "DELETE WHERE { GRAPH <http://e/g0> { ?s <http://e/p0> ?o } }"));
    v.push(s("alias", "INSERT { <http://e/s0> <http://e/p0> <http://e/o1> }"));
    v.push(s("alias", "DELETE { <http://e/s0> <http://e/p0> <http://e/s1> }"));
    v.push(s(
        "rule",
        "PREFIX ex: <http://example.org/> RULE :OverheatingAlert :- CONSTRUCT { ?room ex:overheatingAlert true . } WHERE { ?reading ex:room ?room ; ex:temperature ?temp FILTER (?temp > 80) }",
    ));
    v.push(s(
        "register",
        "PREFIX : <http://test/> REGISTER RSTREAM <http://out/stream> AS SELECT * FROM NAMED WINDOW :wind ON ?s [RANGE 10 STEP 2] WHERE { WINDOW :wind { ?s a <http://www.w3.org/test/SuperType> . } }",
    ));
    v.push(s("garbage", "this is not sparql at all { ? } <"));
    v.push(s("garbage", ""));
    v.push(s("garbage", "SELECT"));
    v.push(s("garbage", "INSERT DATA { ?x <http://e/p0> <http://e/o0> } #€"));
    v
}

fn kind_well_formed_select(kind: &str) -> bool {
    kind == "gen-select"
}

fn check_case(c: &Case) -> Outcome {
    let mut o = Outcome::new();
    let mut text = c.base.clone();
    for m in &c.muts {
        text = apply(&text, m);
    }
    let mutated = !c.muts.is_empty();
    o.class(match c.base_kind.as_str() {
        "gen-select" => "base:generated-select",
        "gen-update" => "base:generated-update",
        "gen-rejected" => "base:generated-rejected-update",
        _ => "base:fixed-corpus",
    });
    o.class_if(mutated, "mutated");
    o.class_if(text.chars().any(|ch| ch.len_utf8() > 1), "multi-byte");
    check_text(&mut o, &c.data, &text, !mutated && kind_well_formed_select(&c.base_kind), true);
    // non-trivial: rejected after >=1 accepted token, or a well-formed update on the query path, or multi-byte text
    let parsed = classify(&text).unwrap_or(Parsed::Rejected);
    let starts_ok = {
        let t = text.trim_start().to_ascii_uppercase();
        ["SELECT", "INSERT", "DELETE", "PREFIX", "RULE", "REGISTER"].iter().any(|k| t.starts_with(k))
    };
    o.nontrivial = (parsed == Parsed::Rejected && starts_ok) || parsed == Parsed::Update || text.chars().any(|ch| ch.len_utf8() > 1);
    o
}

fn mutation() -> impl Strategy<Value = Mutation> {
    prop_oneof![
        4 => (any::<u16>(), any::<u8>()).prop_map(|(o, c)| Mutation::InsertMb(o, c)),
        2 => (any::<u16>(), any::<u8>()).prop_map(|(o, c)| Mutation::InsertAscii(o, c)),
        2 => any::<u16>().prop_map(Mutation::DeleteChar),
        1 => any::<u16>().prop_map(Mutation::DupToken),
        2 => any::<u16>().prop_map(Mutation::Truncate),
        1 => any::<u8>().prop_map(Mutation::Append),
    ]
}

struct Requests;
impl Part for Requests {
    type Case = Case;
    fn name(&self) -> &'static str {
        "requests"
    }
    fn cases(&self, tier: Tier) -> u32 {
        tier.pick(10_000, 250_000)
    }
    fn strategy(&self, _tier: Tier) -> BoxedStrategy<Case> {
        let corpus = fixed_corpus();
        let n = corpus.len();
        let base = prop_oneof![
            3 => (data_query_strategy(1, 10, 5), any::<bool>()).prop_map(|((d, q), p)| (d, Printer { use_prefix: p }.query(&q), "gen-select".to_string())),
            3 => (dataset_strategy(10, 5), raw_op(), any::<bool>()).prop_map(|(d, r, p)| {
                let op = UBuilder::new(&d).op(&r);
                let kind = if matches!(op, UpdOp::Rejected(_)) { "gen-rejected" } else { "gen-update" };
                let t = UPrinter { use_prefix: p }.op(&op);
                (d, t, kind.to_string())
            }),
            2 => (dataset_strategy(8, 4), 0..n).prop_map(move |(d, i)| (d, corpus[i].1.clone(), format!("fixed-{}", corpus[i].0))),
        ];
        (base, proptest::collection::vec(mutation(), 0..=3))
            .prop_map(|((data, base, base_kind), muts)| Case { data, base, base_kind, muts })
            .boxed()
    }
    fn check(&self, c: &Case) -> Outcome {
        check_case(c)
    }
    fn describe(&self, c: &Case) -> serde_json::Value {
        let mut text = c.base.clone();
        for m in &c.muts {
            text = apply(&text, m);
        }
        json!({"request": text, "kind": c.base_kind, "mutations": c.muts.len(), "quads": c.data.size()})
    }
}

/// Deterministic sweep: every char-boundary offset of every corpus request x every multi-byte character.
#[derive(Clone, Debug, Serialize, Deserialize)]
struct SweepCase {
    corpus_index: usize,
    ch: usize,
}

struct Sweep {
    corpus: Vec<(&'static str, String)>,
}

impl Part for Sweep {
    type Case = SweepCase;
    fn name(&self) -> &'static str {
        "multibyte-sweep"
    }
    fn cases(&self, _: Tier) -> u32 {
        0
    }
    fn strategy(&self, _: Tier) -> BoxedStrategy<SweepCase> {
        Just(SweepCase { corpus_index: 0, ch: 0 }).boxed()
    }
    fn check(&self, c: &SweepCase) -> Outcome {
        let mut o = Outcome::new();
        let base = &self.corpus[c.corpus_index % self.corpus.len()].1;
        let data = DataSet {
            default: vec![[Tm::Iri("http://e/s0".into()), Tm::Iri("http://e/p0".into()), Tm::Iri("http://e/s1".into())], [Tm::Iri("http://e/s1".into()), Tm::Iri("http://e/tag".into()), Tm::Lit("red".into())]],
            named: vec![("http://e/g0".into(), vec![[Tm::Iri("http://e/s1".into()), Tm::Iri("http://e/p0".into()), Tm::Iri("http://e/o0".into())]])],
        };
        for off in boundaries(base) {
            let text = format!("{}{}{}", &base[..off], MB[c.ch % MB.len()], &base[off..]);
            check_text(&mut o, &data, &text, false, false);
            if !o.ok() {
                break;
            }
        }
        o.nontrivial = true;
        o
    }
}

fn main() {
    let mut s = Session::start(
        "C17",
        "exploration",
        "request strings x database states x entry points. Part `requests`: base requests = generated SELECTs of the C01 grammar, generated updates of all six forms (plus texts the strict path must reject, and legacy INSERT{}/DELETE{} aliases), RULE/REGISTER extension texts and garbage, \
         each with 0-3 mutations (multi-byte character inserted at a char boundary, ASCII delimiter inserted, char deleted, token duplicated, truncation, garbage appended), over generated datasets; every text is sent to execute_sparql_query, execute_sparql_update, SparqlDatabase::execute_update, handle_update, \
         execute_query_rayon_parallel2_volcano (SELECTs) and handle_http_request (GET ?query=, POST sparql-query, form query=/update=, sparql-update). Oracle: lexical snapshot (all quads + named-graph catalog) unchanged around every query-path call and around every Err/`Update Failed`; \
         Err whenever parse_combined_query rejects the text or it is an update on the query path; Ok for unmutated generated SELECTs; no panic. Part `multibyte-sweep`: every char-boundary offset of 20 fixed corpus requests x 6 multi-byte characters (exhaustive). \
         Non-trivial = rejected after a recognised leading keyword, or a well-formed update reaching the query path, or multi-byte text; inner_evaluations counts entry-point calls.",
    );
    s.assume("requests that would start neural training / Python (TRAIN NEURAL RELATION, ML.PREDICT execution) are not generated");
    let sweep = Sweep { corpus: fixed_corpus() };
    let n = sweep.corpus.len();
    let cases: Vec<SweepCase> = (0..n).flat_map(|i| (0..MB.len()).map(move |ch| SweepCase { corpus_index: i, ch })).collect();
    s.run_enum(&sweep, cases.into_iter(), true);
    s.run(&Requests);
    std::process::exit(s.finish());
}
