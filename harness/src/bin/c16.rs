//! C16 — the query parser is total and faithful.
//!
//! Parts: `sweep` (exhaustive multi-byte / delete / duplicate / truncate edits at every char offset of a corpus),
//! `roundtrip` (generated syntax trees -> randomised printing -> parse -> structural equality, two printings agree),
//! `mutations` (token-level mutations of generated valid requests), `deep-nesting` (child process, 2 MiB stack),
//! `fuzz-corpus` (replay of corpus + libFuzzer artifacts), `libfuzzer` (thorough tier: cargo-fuzz campaign).
//! The totality oracle lives in `kvh::parse_oracle` (shared with the libFuzzer target).

use kvh::engine::*;
use kvh::parse_oracle::*;
use kvh::sparql::{self as sq, AggKind, Arith, BArg, Elem, FExpr, GName, Proj, ProjItem, Select, Tm, PT};
use kvh::update::{raw_op, TplQuad, UBuilder, UpdOp, TT};
use proptest::prelude::*;
use serde::{Deserialize, Serialize};
use serde_json::json;
use shared::query as pq;
use std::collections::{BTreeMap, BTreeSet};

const CORPUS_DIR: &str = "/verif/corpus/parse_total";
const ARTIFACT_DIR: &str = "/verif/fuzz/artifacts/parse_total";

// ------------------------------------------------------------------------------------------
// choice stream: every printing decision is one byte of a generated vector (cycled); an empty
// vector yields the canonical choice 0 everywhere
// ------------------------------------------------------------------------------------------

struct Ch<'a> {
    v: &'a [u8],
    pos: usize,
}

impl<'a> Ch<'a> {
    fn new(v: &'a [u8]) -> Self {
        Ch { v, pos: 0 }
    }
    fn byte(&mut self) -> u8 {
        if self.v.is_empty() {
            return 0;
        }
        let b = self.v[self.pos % self.v.len()];
        self.pos += 1;
        b
    }
    fn pick(&mut self, n: usize) -> usize {
        (self.byte() as usize * n) >> 8
    }
    /// true with probability per256/256; never for the canonical byte 0
    fn chance(&mut self, per256: u32) -> bool {
        (self.byte() as u32) + per256 >= 256
    }
}

// ------------------------------------------------------------------------------------------
// tokens and rendering
// ------------------------------------------------------------------------------------------

#[derive(Clone, Copy, PartialEq, Eq, Debug)]
enum K {
    Kw,   // keyword or bare word (`a`, `true`)
    Var,  // ?x / $x
    Iri,  // <...>
    Lit,  // quoted literal including its suffix
    Num,  // numeric literal
    Name, // prefixed name or blank node label
    P,    // punctuation / operator
    Dot,  // the `.` separator
}

#[derive(Clone, PartialEq, Eq, Debug)]
struct Tok {
    s: String,
    k: K,
}

fn tok(s: impl Into<String>, k: K) -> Tok {
    Tok { s: s.into(), k }
}

fn is_word(k: K) -> bool {
    !matches!(k, K::P | K::Dot)
}

/// the token ends in characters that a following name character / dot could extend
fn name_like_end(t: &Tok) -> bool {
    match t.k {
        K::Kw | K::Name | K::Num | K::Var => true,
        K::Lit => !matches!(t.s.chars().last(), Some('"') | Some('\'') | Some('>')),
        _ => false,
    }
}

fn safe_start(c: char) -> bool {
    matches!(c, '?' | '$' | '<' | '"' | '\'')
}

/// Must whitespace (or a comment) separate `a` and `b`? Conservative: `false` only where the SPARQL
/// token grammar makes the boundary unambiguous (derived from the terminals' character classes).
fn needs_sep(prev2: Option<&Tok>, a: &Tok, b: &Tok) -> bool {
    let fb = b.s.chars().next().unwrap_or(' ');
    let la = a.s.chars().last().unwrap_or(' ');
    if is_word(a.k) && is_word(b.k) {
        if !safe_start(fb) {
            return true;
        }
        if matches!(la, '"' | '\'') && matches!(fb, '"' | '\'') {
            return true;
        }
        return false;
    }
    if a.k == K::Dot {
        if b.k == K::Num {
            return true;
        }
        if let Some(p) = prev2 {
            if name_like_end(p) && is_word(b.k) && !safe_start(fb) {
                return true;
            }
        }
        return false;
    }
    if b.k == K::Dot {
        return false;
    }
    if is_word(a.k) && b.k == K::P {
        // PN_LOCAL / keywords may continue with '-'
        if fb == '-' && name_like_end(a) && !matches!(a.k, K::Var | K::Num) {
            return true;
        }
        return false;
    }
    false
}

#[derive(Default, Clone, Debug)]
struct LayoutStats {
    comments: u32,
    glued: u32,
    odd_ws: u32,
    cr_comment: u32,
}

const COMMENT_TEXT: [&str; 10] = ["", " c", " SELECT { } GRAPH ?g", " \"quote", " é€😀", "#", " ' } .", " <<", " FILTER(", "\t x"];

fn gen_gap(lay: &mut Ch, need: bool, st: &mut LayoutStats) -> String {
    match lay.pick(16) {
        0 | 1 | 2 | 3 => " ".into(),
        4 | 5 | 6 | 7 => {
            if need {
                " ".into()
            } else {
                st.glued += 1;
                String::new()
            }
        }
        8 => {
            st.odd_ws += 1;
            "\n".into()
        }
        9 => {
            st.odd_ws += 1;
            "\t".into()
        }
        10 => {
            st.odd_ws += 1;
            "\r\n  ".into()
        }
        11 => {
            st.odd_ws += 1;
            " \n\t ".into()
        }
        12 => {
            st.odd_ws += 1;
            "\r".into()
        }
        _ => {
            st.comments += 1;
            let pre = ["", " ", "\n"][lay.pick(3)];
            let text = COMMENT_TEXT[lay.pick(COMMENT_TEXT.len())];
            let nl = match lay.pick(4) {
                0 | 1 => "\n",
                2 => {
                    st.cr_comment += 1;
                    "\r"
                }
                _ => "\r\n",
            };
            let post = ["", " ", "\t"][lay.pick(3)];
            format!("{pre}#{text}{nl}{post}")
        }
    }
}

fn render(toks: &[Tok], lay: &mut Ch, st: &mut LayoutStats) -> String {
    let mut s = String::new();
    // leading whitespace / comment
    match lay.pick(8) {
        5 => s.push_str("\n  "),
        6 => {
            st.comments += 1;
            s.push_str("# GRAPH in this comment is not syntax\n")
        }
        7 => s.push(' '),
        _ => {}
    }
    for i in 0..toks.len() {
        s.push_str(&toks[i].s);
        if i + 1 < toks.len() {
            let need = needs_sep(if i > 0 { Some(&toks[i - 1]) } else { None }, &toks[i], &toks[i + 1]);
            s.push_str(&gen_gap(lay, need, st));
        }
    }
    match lay.pick(8) {
        4 => s.push('\n'),
        5 => s.push_str("  \t"),
        6 => {
            st.comments += 1;
            s.push_str(" # trailing comment without newline")
        }
        7 => {
            st.comments += 1;
            s.push_str("#x\r\n")
        }
        _ => {}
    }
    s
}

fn kw(lay: &mut Ch, word: &str) -> Tok {
    let s = match lay.pick(4) {
        0 | 1 => word.to_string(),
        2 => word.to_lowercase(),
        _ => word.chars().enumerate().map(|(i, c)| if i % 2 == 0 { c.to_ascii_lowercase() } else { c.to_ascii_uppercase() }).collect(),
    };
    tok(s, K::Kw)
}

fn p(s: &str) -> Tok {
    tok(s, K::P)
}
