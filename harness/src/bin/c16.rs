//! C16 — the query parser is total and faithful.
//!
//! Parts: `sweep` (exhaustive multi-byte / delete / duplicate / truncate edits at every char offset of a corpus),
//! `roundtrip` (generated syntax trees -> randomised printing -> parse -> structural equality, two printings agree),
//! `mutations` (token-level mutations of generated valid requests), `deep-nesting` (child process, 2 MiB stack),
//! `fuzz-corpus` (replay of corpus + libFuzzer artifacts), `libfuzzer` (thorough tier: cargo-fuzz campaign).
//! The totality oracle lives in `kvh::parse_oracle` (shared with the libFuzzer target).

use kvh::engine::*;
use kvh::parse_oracle::*;
use kvh::sparql::{self as sq, AggKind, Arith, BArg, Elem, FExpr, GName, Proj, ProjItem, Select, Tm, PT};
use kvh::update::{raw_op, TplQuad, UBuilder, UpdOp, TT};
use proptest::prelude::*;
use serde::{Deserialize, Serialize};
use serde_json::json;
use shared::query as pq;
use std::collections::{BTreeMap, BTreeSet};

const CORPUS_DIR: &str = "/verif/corpus/parse_total";
const ARTIFACT_DIR: &str = "/verif/fuzz/artifacts/parse_total";

// ------------------------------------------------------------------------------------------
// choice stream: every printing decision is one byte of a generated vector (cycled); an empty
// vector yields the canonical choice 0 everywhere
// ------------------------------------------------------------------------------------------

struct Ch<'a> {
    v: &'a [u8],
    pos: usize,
}

impl<'a> Ch<'a> {
    fn new(v: &'a [u8]) -> Self {
        Ch { v, pos: 0 }
    }
    fn byte(&mut self) -> u8 {
        if self.v.is_empty() {
            return 0;
        }
        let b = self.v[self.pos % self.v.len()];
        self.pos += 1;
        b
    }
    fn pick(&mut self, n: usize) -> usize {
        (self.byte() as usize * n) >> 8
    }
    /// true with probability per256/256; never for the canonical byte 0
    fn chance(&mut self, per256: u32) -> bool {
        (self.byte() as u32) + per256 >= 256
    }
}

// ------------------------------------------------------------------------------------------
// tokens and rendering
// ------------------------------------------------------------------------------------------

#[derive(Clone, Copy, PartialEq, Eq, Debug)]
enum K {
    Kw,   // keyword or bare word (`a`, `true`)
    Var,  // ?x / $x
    Iri,  // <...>
    Lit,  // quoted literal including its suffix
    Num,  // numeric literal
    Name, // prefixed name or blank node label
    P,    // punctuation / operator
    Dot,  // the `.` separator
}

#[derive(Clone, PartialEq, Eq, Debug)]
struct Tok {
    s: String,
    k: K,
}

fn tok(s: impl Into<String>, k: K) -> Tok {
    Tok { s: s.into(), k }
}

fn is_word(k: K) -> bool {
    !matches!(k, K::P | K::Dot)
}

/// the token ends in characters that a following name character / dot could extend
fn name_like_end(t: &Tok) -> bool {
    match t.k {
        K::Kw | K::Name | K::Num | K::Var => true,
        K::Lit => !matches!(t.s.chars().last(), Some('"') | Some('\'') | Some('>')),
        _ => false,
    }
}

fn safe_start(c: char) -> bool {
    matches!(c, '?' | '$' | '<' | '"' | '\'')
}

/// Must whitespace (or a comment) separate `a` and `b`? Conservative: `false` only where the SPARQL
/// token grammar makes the boundary unambiguous (derived from the terminals' character classes).
fn needs_sep(prev2: Option<&Tok>, a: &Tok, b: &Tok) -> bool {
    let fb = b.s.chars().next().unwrap_or(' ');
    let la = a.s.chars().last().unwrap_or(' ');
    if is_word(a.k) && is_word(b.k) {
        if !safe_start(fb) {
            return true;
        }
        if matches!(la, '"' | '\'') && matches!(fb, '"' | '\'') {
            return true;
        }
        return false;
    }
    if a.k == K::Dot {
        if b.k == K::Num {
            return true;
        }
        if let Some(p) = prev2 {
            if name_like_end(p) && is_word(b.k) && !safe_start(fb) {
                return true;
            }
        }
        return false;
    }
    if b.k == K::Dot {
        return false;
    }
    if is_word(a.k) && b.k == K::P {
        // PN_LOCAL / keywords may continue with '-'
        if fb == '-' && name_like_end(a) && !matches!(a.k, K::Var | K::Num) {
            return true;
        }
        return false;
    }
    false
}

#[derive(Default, Clone, Debug)]
struct LayoutStats {
    comments: u32,
    glued: u32,
    odd_ws: u32,
    cr_comment: u32,
}

const COMMENT_TEXT: [&str; 10] = ["", " c", " SELECT { } GRAPH ?g", " \"quote", " é€😀", "#", " ' } .", " <<", " FILTER(", "\t x"];

fn gen_gap(lay: &mut Ch, need: bool, st: &mut LayoutStats) -> String {
    match lay.pick(16) {
        0 | 1 | 2 | 3 => " ".into(),
        4 | 5 | 6 | 7 => {
            if need {
                " ".into()
            } else {
                st.glued += 1;
                String::new()
            }
        }
        8 => {
            st.odd_ws += 1;
            "\n".into()
        }
        9 => {
            st.odd_ws += 1;
            "\t".into()
        }
        10 => {
            st.odd_ws += 1;
            "\r\n  ".into()
        }
        11 => {
            st.odd_ws += 1;
            " \n\t ".into()
        }
        12 => {
            st.odd_ws += 1;
            "\r".into()
        }
        _ => {
            st.comments += 1;
            let pre = ["", " ", "\n"][lay.pick(3)];
            let text = COMMENT_TEXT[lay.pick(COMMENT_TEXT.len())];
            let nl = match lay.pick(4) {
                0 | 1 => "\n",
                2 => {
                    st.cr_comment += 1;
                    "\r"
                }
                _ => "\r\n",
            };
            let post = ["", " ", "\t"][lay.pick(3)];
            format!("{pre}#{text}{nl}{post}")
        }
    }
}

fn render(toks: &[Tok], lay: &mut Ch, st: &mut LayoutStats) -> String {
    let mut s = String::new();
    // leading whitespace / comment
    match lay.pick(8) {
        5 => s.push_str("\n  "),
        6 => {
            st.comments += 1;
            s.push_str("# GRAPH in this comment is not syntax\n")
        }
        7 => s.push(' '),
        _ => {}
    }
    for i in 0..toks.len() {
        s.push_str(&toks[i].s);
        if i + 1 < toks.len() {
            let need = needs_sep(if i > 0 { Some(&toks[i - 1]) } else { None }, &toks[i], &toks[i + 1]);
            s.push_str(&gen_gap(lay, need, st));
        }
    }
    match lay.pick(8) {
        4 => s.push('\n'),
        5 => s.push_str("  \t"),
        6 => {
            st.comments += 1;
            s.push_str(" # trailing comment without newline")
        }
        7 => {
            st.comments += 1;
            s.push_str("#x\r\n")
        }
        _ => {}
    }
    s
}

fn kw(lay: &mut Ch, word: &str) -> Tok {
    let s = match lay.pick(4) {
        0 | 1 => word.to_string(),
        2 => word.to_lowercase(),
        _ => word.chars().enumerate().map(|(i, c)| if i % 2 == 0 { c.to_ascii_lowercase() } else { c.to_ascii_uppercase() }).collect(),
    };
    tok(s, K::Kw)
}

fn p(s: &str) -> Tok {
    tok(s, K::P)
}

// ------------------------------------------------------------------------------------------
// concrete syntax tree: structure of the generated tree + the exact lexeme chosen for every term
// ------------------------------------------------------------------------------------------

#[derive(Clone, PartialEq, Debug)]
enum CT {
    T(Tok),
    Q(Box<[CT; 3]>),
}

impl CT {
    /// lexeme as the AST must report it (quoted triples: raw slice, compared token-wise → tokens joined by one blank)
    fn canon(&self) -> String {
        match self {
            CT::T(t) => t.s.clone(),
            CT::Q(b) => lexer_checked(format!("<< {} {} {} >>", b[0].canon(), b[1].canon(), b[2].canon())),
        }
    }
    fn toks(&self, out: &mut Vec<Tok>) {
        match self {
            CT::T(t) => out.push(t.clone()),
            CT::Q(b) => {
                out.push(p("<<"));
                for x in b.iter() {
                    x.toks(out);
                }
                out.push(p(">>"));
            }
        }
    }
}

#[derive(Clone, Debug)]
enum CA {
    Leaf(Tok),
    Bin(char, Box<CA>, Box<CA>),
    Paren(Box<CA>),
}

impl CA {
    fn toks(&self, out: &mut Vec<Tok>) {
        match self {
            CA::Leaf(t) => out.push(t.clone()),
            CA::Bin(op, l, r) => {
                l.toks(out);
                out.push(p(&op.to_string()));
                r.toks(out);
            }
            CA::Paren(i) => {
                out.push(p("("));
                i.toks(out);
                out.push(p(")"));
            }
        }
    }
}

#[derive(Clone, Debug)]
enum CF {
    Cmp(CA, &'static str, CA),
    And(Box<CF>, Box<CF>),
    Or(Box<CF>, Box<CF>),
    Not(Box<CF>),
}

#[derive(Clone, Debug)]
enum CArg {
    Var(Tok),
    /// quoted string argument: token as written, text the AST keeps (historical form: without the quotes)
    Str(Tok, String),
}

#[derive(Clone, Debug)]
enum CE {
    Bgp(Vec<[CT; 3]>),
    Group(Vec<CE>),
    Union(Vec<Vec<CE>>),
    Graph(Tok, Vec<CE>),
    Filter(CF),
    Bind(Vec<CArg>, Tok),
    Values(Vec<Tok>, Vec<Vec<Option<Tok>>>),
    Sub(Box<CS>),
}

#[derive(Clone, Debug)]
enum CProj {
    Var(Tok),
    Agg(&'static str, Tok, Tok),
}

#[derive(Clone, Debug)]
struct CS {
    distinct: bool,
    proj: Option<Vec<CProj>>, // None = *
    from: Vec<Tok>,
    from_named: Vec<Tok>,
    body: Vec<CE>,
    group_by: Vec<Tok>,
    order: Vec<(Tok, bool)>,
    limit: Option<usize>,
}

#[derive(Clone, Debug)]
struct CQuad {
    graph: Option<Tok>,
    t: [CT; 3],
}

#[derive(Clone, Debug)]
enum CU {
    InsertData(Vec<CQuad>),
    DeleteData(Vec<CQuad>),
    Modify { delete: Vec<CQuad>, insert: Vec<CQuad>, w: Vec<CE> },
    DeleteWhere(Vec<CQuad>),
}

#[derive(Clone, Debug)]
enum CBody {
    Sel(CS),
    Upd(CU),
}

#[derive(Clone, Debug)]
struct CReq {
    prefixes: Vec<(String, String)>,
    body: CBody,
}

// ---- lexicalisation: harness tree -> CST, driven by the `lex` choice stream ----

const PREFIXES: [(&str, &str); 6] = [
    ("e", sq::NS),
    ("xsd", "http://www.w3.org/2001/XMLSchema#"),
    ("rdf", "http://www.w3.org/1999/02/22-rdf-syntax-ns#"),
    ("é", "http://é/"),
    ("e.x", "http://e/x/"),
    ("", "http://d/"),
];

/// exotic prefixed names: (prefix, local) — PN_LOCAL with dots, escapes, percent, leading digit, colons, non-ASCII, empty
const EXOTIC_PNAME: [(&str, &str); 14] = [
    ("e", "item.one"),
    ("e", "has\\.value"),
    ("e", "enc%2Evalue"),
    ("e", "esc\\#name"),
    ("e", "1x"),
    ("e", "a:b"),
    ("e", "é"),
    ("e", "x-y"),
    ("e", ""),
    ("é", "x"),
    ("e.x", "y"),
    ("", "x"),
    ("e", "_u"),
    ("e", "a\\~b\\!c"),
];

const EXOTIC_IRI: [&str; 8] = ["<http://e/\\u0067>", "<http://e/\\U0001F600x>", "<http://exämple.org/ü>", "<urn:x#frag>", "<>", "<mailto:a@b.c>", "<http://e/a%20b>", "<http://e/(x)>"];

/// exotic literal bodies with the quote styles they are legal in (bit0 "x", bit1 'x', bit2 """x""", bit3 '''x''')
const EXOTIC_BODY: [(&str, u8); 16] = [
    ("a # not a comment", 15),
    ("} { . ; , ( )", 15),
    ("?notvar $x _:b <iri>", 15),
    ("é€😀e\u{0301}", 15),
    ("\\t\\n\\r\\b\\f\\\\", 15),
    ("\\\"\\'", 15),
    ("\\u0041\\U0001F600", 15),
    ("", 15),
    ("it's", 0b0101),
    ("say \"hi\" ok", 0b1110),
    ("line1\nline2", 0b1100),
    ("a''b", 0b1101),
    ("a\"\"b", 0b1110),
    (">> <<", 15),
    ("FILTER(?x > 1) UNION", 15),
    ("cr\rlf", 0b1100),
];

const EXOTIC_BNODE: [&str; 5] = ["a.b", "1v", "é", "b-1", "_x"];

#[derive(Clone, Copy, PartialEq, Debug)]
enum Pos {
    Subj,
    Pred,
    Obj,
    Graph,
    FilterOp,
    Value,
    Inner, // inside a quoted triple
}

struct Lx<'a> {
    ch: Ch<'a>,
    used: BTreeSet<&'static str>,
    exotic: u32,
    quoted: u32,
    allow_bnode_subst: bool,
}

impl<'a> Lx<'a> {
    fn var(&mut self, name: &str) -> Tok {
        let sigil = if self.ch.chance(70) { '$' } else { '?' };
        let name = if self.ch.chance(14) {
            self.exotic += 1;
            format!("{name}_é1")
        } else {
            name.to_string()
        };
        tok(format!("{sigil}{name}"), K::Var)
    }
    fn pname(&mut self, prefix: &'static str, local: &str) -> Tok {
        self.used.insert(prefix);
        tok(format!("{prefix}:{local}"), K::Name)
    }
    fn exotic_name(&mut self) -> Tok {
        self.exotic += 1;
        let (pf, l) = EXOTIC_PNAME[self.ch.pick(EXOTIC_PNAME.len())];
        self.pname(pf, l)
    }
    fn iri_plain(&mut self, i: &str, pos: Pos) -> Tok {
        if pos == Pos::Pred && i == sq::RDF_TYPE {
            match self.ch.pick(4) {
                0 | 1 => return tok("a", K::Kw),
                2 => return self.pname("rdf", "type"),
                _ => {}
            }
        }
        if let Some(local) = i.strip_prefix(sq::NS) {
            if !local.is_empty() && local.chars().all(|c| c.is_ascii_alphanumeric()) && self.ch.pick(2) == 0 {
                return self.pname("e", local);
            }
        }
        tok(format!("<{i}>"), K::Iri)
    }
    fn iri_tok(&mut self, i: &str, pos: Pos) -> Tok {
        if self.ch.chance(26) {
            if self.ch.pick(3) == 0 {
                self.exotic += 1;
                return tok(EXOTIC_IRI[self.ch.pick(EXOTIC_IRI.len())], K::Iri);
            }
            return self.exotic_name();
        }
        self.iri_plain(i, pos)
    }
    fn bnode(&mut self, label: &str) -> Tok {
        if self.ch.chance(40) {
            self.exotic += 1;
            return tok(format!("_:{}", EXOTIC_BNODE[self.ch.pick(EXOTIC_BNODE.len())]), K::Name);
        }
        tok(format!("_:{label}"), K::Name)
    }
    fn lit_tok(&mut self, body: &str) -> Tok {
        let mut body = body.to_string();
        let mut style = self.ch.pick(4);
        if self.ch.chance(36) {
            self.exotic += 1;
            let (b, mask) = EXOTIC_BODY[self.ch.pick(EXOTIC_BODY.len())];
            body = b.to_string();
            while mask & (1 << style) == 0 {
                style = (style + 1) % 4;
            }
        }
        let q = ["\"", "'", "\"\"\"", "'''"][style];
        let suffix = match self.ch.pick(12) {
            0..=5 => String::new(),
            6 => "@en".into(),
            7 => "@en-US".into(),
            8 => "@x-private1".into(),
            9 => "^^<http://www.w3.org/2001/XMLSchema#string>".into(),
            10 => {
                self.used.insert("xsd");
                "^^xsd:string".into()
            }
            _ => {
                self.used.insert("e");
                "^^e:dt.x".into()
            }
        };
        tok(format!("{q}{body}{q}{suffix}"), K::Lit)
    }
    fn num_tok(&mut self, n: i64, signed_ok: bool) -> Tok {
        let n = n.unsigned_abs();
        let forms = if signed_ok { 12 } else { 8 };
        let s = match self.ch.pick(forms) {
            0 | 1 => format!("{n}"),
            2 => format!("{n}.0"),
            3 => format!("{n}.50"),
            4 => format!("{n}e0"),
            5 => format!("{n}E+1"),
            6 => format!("{n}.5e-1"),
            7 => format!(".{n}"),
            8 => format!("+{n}"),
            9 => format!("-{n}"),
            10 => format!("-{n}.5"),
            _ => format!("+.{n}"),
        };
        tok(s, K::Num)
    }
    fn quoted(&mut self, depth: u32, allow_bnode: bool) -> CT {
        self.quoted += 1;
        let s = if depth < 2 && self.ch.chance(50) {
            self.quoted(depth + 1, allow_bnode)
        } else if allow_bnode && self.ch.chance(40) {
            CT::T(self.bnode("q"))
        } else {
            let i = format!("{}s{}", sq::NS, self.ch.pick(5));
            CT::T(self.iri_tok(&i, Pos::Inner))
        };
        let pk = self.ch.pick(3);
        let pr = if pk == 0 { CT::T(tok("a", K::Kw)) } else { CT::T(self.iri_tok(&format!("{}p{}", sq::NS, pk), Pos::Inner)) };
        let o = match self.ch.pick(5) {
            0 if depth < 2 => self.quoted(depth + 1, allow_bnode),
            1 => CT::T(self.lit_tok("q")),
            2 => {
                let n = self.ch.pick(9) as i64;
                CT::T(self.num_tok(n, false))
            }
            _ => {
                let i = format!("{}o{}", sq::NS, self.ch.pick(3));
                CT::T(self.iri_tok(&i, Pos::Inner))
            }
        };
        CT::Q(Box::new([s, pr, o]))
    }
    /// a constant in a triple / quad position
    fn constant(&mut self, c: &Tm, pos: Pos, allow_bnode: bool) -> CT {
        if matches!(pos, Pos::Subj | Pos::Obj) && self.ch.chance(16) {
            return self.quoted(0, allow_bnode);
        }
        if matches!(pos, Pos::Subj | Pos::Obj) && allow_bnode && self.allow_bnode_subst && self.ch.chance(10) {
            return CT::T(self.bnode("s"));
        }
        CT::T(self.scalar(c, pos))
    }
    /// a constant that is a single token (filter operands, VALUES cells, graph names, triple terms)
    fn scalar(&mut self, c: &Tm, pos: Pos) -> Tok {
        match c {
            Tm::Iri(i) => self.iri_tok(i, pos),
            Tm::Lit(s) => {
                if self.ch.chance(16) {
                    self.exotic += 1;
                    return tok(["true", "false", "TRUE", "False"][self.ch.pick(4)], K::Kw);
                }
                self.lit_tok(s)
            }
            Tm::Num(n) => self.num_tok(*n, matches!(pos, Pos::Obj | Pos::Value)),
        }
    }
    fn pt(&mut self, t: &PT, pos: Pos, memo: &mut Vec<(PT, Pos, CT)>) -> CT {
        if matches!(pos, Pos::Subj | Pos::Pred) {
            if let Some((_, _, c)) = memo.iter().find(|(x, q, _)| x == t && *q == pos) {
                if !self.ch.chance(40) {
                    return c.clone();
                }
            }
        }
        let c = match t {
            PT::Var(v) => CT::T(self.var(v)),
            PT::C(c) => self.constant(c, pos, true),
        };
        if matches!(pos, Pos::Subj | Pos::Pred) {
            memo.retain(|(x, q, _)| !(x == t && *q == pos));
            memo.push((t.clone(), pos, c.clone()));
        }
        c
    }
    fn gname(&mut self, g: &GName) -> Tok {
        match g {
            GName::Var(v) => self.var(v),
            GName::Iri(i) => self.iri_tok(i, Pos::Graph),
        }
    }
    fn arith(&mut self, a: &Arith, top: bool) -> CA {
        match a {
            Arith::Var(v) => CA::Leaf(self.var(v)),
            Arith::Num(n) => CA::Leaf(self.num_tok(*n, false)),
            Arith::Add(l, r) | Arith::Sub(l, r) | Arith::Mul(l, r) => {
                let op = match a {
                    Arith::Add(..) => '+',
                    Arith::Sub(..) => '-',
                    _ => '*',
                };
                let inner = CA::Bin(op, Box::new(self.arith(l, false)), Box::new(self.arith(r, false)));
                // the operand text is kept verbatim by the AST, so parentheses are part of the lexeme choice
                if top && self.ch.chance(100) {
                    inner
                } else {
                    CA::Paren(Box::new(inner))
                }
            }
        }
    }
    fn fexpr(&mut self, f: &FExpr) -> CF {
        match f {
            FExpr::Cmp(v, op, r) => {
                let l = CA::Leaf(self.var(v));
                let r = match r {
                    PT::Var(w) => CA::Leaf(self.var(w)),
                    PT::C(c) => CA::Leaf(self.scalar(c, Pos::FilterOp)),
                };
                CF::Cmp(l, op.s(), r)
            }
            FExpr::ArithCmp(l, op, r) => CF::Cmp(self.arith(l, true), op.s(), self.arith(r, true)),
            FExpr::And(l, r) => CF::And(Box::new(self.fexpr(l)), Box::new(self.fexpr(r))),
            FExpr::Or(l, r) => CF::Or(Box::new(self.fexpr(l)), Box::new(self.fexpr(r))),
            FExpr::Not(i) => CF::Not(Box::new(self.fexpr(i))),
        }
    }
    fn elems(&mut self, es: &[Elem]) -> Vec<CE> {
        es.iter()
            .map(|e| match e {
                Elem::Bgp(ts) => {
                    let mut memo = vec![];
                    CE::Bgp(ts.iter().map(|t| [self.pt(&t[0], Pos::Subj, &mut memo), self.pt(&t[1], Pos::Pred, &mut memo), self.pt(&t[2], Pos::Obj, &mut memo)]).collect())
                }
                Elem::Group(g) => CE::Group(self.elems(g)),
                Elem::Union(bs) => CE::Union(bs.iter().map(|b| self.elems(b)).collect()),
                Elem::Graph(n, g) => CE::Graph(self.gname(n), self.elems(g)),
                Elem::Filter(f) => CE::Filter(self.fexpr(f)),
                Elem::Bind(args, out) => {
                    let a = args
                        .iter()
                        .map(|a| match a {
                            BArg::Var(v) => CArg::Var(self.var(v)),
                            BArg::Str(s) => {
                                let mut body = s.clone();
                                let mut style = self.ch.pick(2);
                                if self.ch.chance(40) {
                                    self.exotic += 1;
                                    let (b, mask) = EXOTIC_BODY[self.ch.pick(10)];
                                    body = b.to_string();
                                    while mask & (1 << style) == 0 {
                                        style = (style + 1) % 2;
                                    }
                                }
                                let q = ["\"", "'"][style];
                                CArg::Str(tok(format!("{q}{body}{q}"), K::Lit), body)
                            }
                        })
                        .collect();
                    CE::Bind(a, self.var(out))
                }
                Elem::Values(vars, rows) => {
                    let vs = vars.iter().map(|v| self.var(v)).collect();
                    let rs = rows.iter().map(|r| r.iter().map(|c| c.as_ref().map(|c| self.scalar(c, Pos::Value))).collect()).collect();
                    CE::Values(vs, rs)
                }
                Elem::Sub(q) => CE::Sub(Box::new(self.select(q))),
            })
            .collect()
    }
    fn select(&mut self, q: &Select) -> CS {
        let proj = match &q.proj {
            Proj::Star => None,
            Proj::Items(items) => Some(
                items
                    .iter()
                    .map(|i| match i {
                        ProjItem::Var(v) => CProj::Var(self.var(v)),
                        ProjItem::Agg(k, v, a) => CProj::Agg(
                            match k {
                                AggKind::Sum => "SUM",
                                AggKind::Min => "MIN",
                                AggKind::Max => "MAX",
                                AggKind::Avg => "AVG",
                            },
                            self.var(v),
                            self.var(a),
                        ),
                    })
                    .collect(),
            ),
        };
        let from = q.from.iter().map(|g| self.iri_tok(g, Pos::Graph)).collect();
        let from_named = q.from_named.iter().map(|g| self.iri_tok(g, Pos::Graph)).collect();
        let body = self.elems(&q.body);
        CS {
            distinct: q.distinct,
            proj,
            from,
            from_named,
            body,
            group_by: q.group_by.iter().map(|v| self.var(v)).collect(),
            order: q.order.iter().map(|(v, d)| (self.var(v), *d)).collect(),
            limit: q.limit,
        }
    }
    fn quads(&mut self, qs: &[TplQuad], allow_bnode: bool) -> Vec<CQuad> {
        let mut memo: Vec<(PT, Pos, CT)> = vec![];
        qs.iter()
            .map(|q| {
                let mut term = |lx: &mut Lx, t: &TT, pos: Pos| -> CT {
                    match t {
                        TT::Var(v) => lx.pt(&PT::Var(v.clone()), pos, &mut memo),
                        TT::BNode(b) => CT::T(lx.bnode(b)),
                        TT::C(c) => {
                            if matches!(pos, Pos::Subj | Pos::Pred) {
                                if let Some((_, _, x)) = memo.iter().find(|(x, q, _)| *x == PT::C(c.clone()) && *q == pos) {
                                    if !lx.ch.chance(40) {
                                        return x.clone();
                                    }
                                }
                            }
                            let x = lx.constant(c, pos, allow_bnode);
                            if matches!(pos, Pos::Subj | Pos::Pred) {
                                memo.retain(|(y, q, _)| !(*y == PT::C(c.clone()) && *q == pos));
                                memo.push((PT::C(c.clone()), pos, x.clone()));
                            }
                            x
                        }
                    }
                };
                let t = [term(self, &q.t[0], Pos::Subj), term(self, &q.t[1], Pos::Pred), term(self, &q.t[2], Pos::Obj)];
                CQuad { graph: q.graph.as_ref().map(|g| self.gname(g)), t }
            })
            .collect()
    }
}

#[derive(Clone, Debug, Serialize, Deserialize)]
enum Query {
    Sel(Select),
    Upd(UpdOp),
}

struct LexInfo {
    exotic: u32,
    quoted: u32,
}

fn lexicalise(q: &Query, lex: &[u8]) -> (CReq, LexInfo) {
    let mut lx = Lx { ch: Ch::new(lex), used: BTreeSet::new(), exotic: 0, quoted: 0, allow_bnode_subst: true };
    let body = match q {
        Query::Sel(s) => CBody::Sel(lx.select(s)),
        Query::Upd(u) => CBody::Upd(match u {
            // INSERT DATA / INSERT templates may contain blank nodes; DELETE forms may not
            UpdOp::InsertData(qs) => CU::InsertData(lx.quads(qs, true)),
            UpdOp::DeleteData(qs) => CU::DeleteData(lx.quads(qs, false)),
            UpdOp::Modify { delete, insert, where_ } => {
                let d = lx.quads(delete, false);
                let i = lx.quads(insert, true);
                CU::Modify { delete: d, insert: i, w: lx.elems(where_) }
            }
            UpdOp::DeleteWhere(qs) => CU::DeleteWhere(lx.quads(qs, false)),
            UpdOp::Rejected(_) => CU::DeleteWhere(vec![]),
        }),
    };
    // declared prefixes: the used ones (+ sometimes all)
    let all = lx.ch.chance(40);
    let prefixes = PREFIXES.iter().filter(|(pf, _)| all || lx.used.contains(pf)).map(|(a, b)| (a.to_string(), b.to_string())).collect();
    (CReq { prefixes, body }, LexInfo { exotic: lx.exotic, quoted: lx.quoted })
}

// ------------------------------------------------------------------------------------------
// printing the CST into tokens; `lay` decides everything that must not matter
// ------------------------------------------------------------------------------------------

struct Pr<'a, 'b> {
    lay: &'b mut Ch<'a>,
    out: Vec<Tok>,
    abbreviations: u32,
    dots_omitted: u32,
    where_omitted: u32,
}

impl<'a, 'b> Pr<'a, 'b> {
    fn kw(&mut self, w: &str) {
        let t = kw(self.lay, w);
        self.out.push(t);
    }
    fn p(&mut self, s: &str) {
        self.out.push(p(s));
    }
    fn t(&mut self, t: &Tok) {
        self.out.push(t.clone());
    }
    fn opt_dot(&mut self, per256: u32) {
        if self.lay.chance(per256) {
            self.out.push(tok(".", K::Dot));
        }
    }
    /// triples of one block: `;` / `,` abbreviations for repeated subject / subject+predicate, optional dots.
    /// `closing`: the block's closing brace follows directly (a dangling `;` is then legal without a dot).
    fn triples(&mut self, ts: &[[CT; 3]], closing: bool) {
        let mut i = 0;
        while i < ts.len() {
            let t = &ts[i];
            t[0].toks(&mut self.out);
            t[1].toks(&mut self.out);
            t[2].toks(&mut self.out);
            let mut last = t;
            i += 1;
            while i < ts.len() && ts[i][0] == last[0] && !self.lay.chance(90) {
                self.abbreviations += 1;
                if ts[i][1] == last[1] && !self.lay.chance(90) {
                    self.p(",");
                    ts[i][2].toks(&mut self.out);
                } else {
                    self.p(";");
                    ts[i][1].toks(&mut self.out);
                    ts[i][2].toks(&mut self.out);
                }
                last = &ts[i];
                i += 1;
            }
            let last_stmt = i == ts.len();
            if self.lay.chance(20) {
                // dangling `;` (legal before `.` or `}`)
                self.p(";");
                if !(last_stmt && closing && self.lay.chance(128)) {
                    self.out.push(tok(".", K::Dot));
                }
                continue;
            }
            if self.lay.chance(70) {
                self.dots_omitted += 1;
            } else {
                self.out.push(tok(".", K::Dot));
            }
        }
    }
    fn cf(&mut self, f: &CF, min_prec: u8) {
        // precedence: || = 1, && = 2, atom = 3; the parser builds left-associative trees
        let prec = match f {
            CF::Or(..) => 1,
            CF::And(..) => 2,
            _ => 3,
        };
        let wrap = prec < min_prec || self.lay.chance(50);
        if wrap {
            self.p("(");
        }
        match f {
            CF::Or(l, r) => {
                self.cf(l, 1);
                self.p("||");
                self.cf(r, 2);
            }
            CF::And(l, r) => {
                self.cf(l, 2);
                self.p("&&");
                self.cf(r, 3);
            }
            CF::Not(i) => {
                self.p("!");
                self.cf(i, 3);
            }
            CF::Cmp(l, op, r) => {
                l.toks(&mut self.out);
                self.p(op);
                r.toks(&mut self.out);
            }
        }
        if wrap {
            self.p(")");
        }
    }
    fn group(&mut self, es: &[CE]) {
        self.p("{");
        for (i, e) in es.iter().enumerate() {
            let closing = i + 1 == es.len();
            match e {
                CE::Bgp(ts) => self.triples(ts, closing),
                CE::Group(g) => {
                    self.group(g);
                    self.opt_dot(40);
                }
                CE::Union(bs) => {
                    for (j, b) in bs.iter().enumerate() {
                        if j > 0 {
                            self.kw("UNION");
                        }
                        self.group(b);
                    }
                    self.opt_dot(40);
                }
                CE::Graph(n, g) => {
                    self.kw("GRAPH");
                    self.t(n);
                    self.group(g);
                    self.opt_dot(40);
                }
                CE::Filter(f) => {
                    self.kw("FILTER");
                    self.p("(");
                    self.cf(f, 1);
                    self.p(")");
                }
                CE::Bind(args, out) => {
                    self.kw("BIND");
                    self.p("(");
                    self.kw("CONCAT");
                    self.p("(");
                    for (j, a) in args.iter().enumerate() {
                        if j > 0 {
                            self.p(",");
                        }
                        match a {
                            CArg::Var(v) => self.t(v),
                            CArg::Str(t, _) => self.t(t),
                        }
                    }
                    self.p(")");
                    self.kw("AS");
                    self.t(out);
                    self.p(")");
                }
                CE::Values(vars, rows) => {
                    self.kw("VALUES");
                    let single = vars.len() == 1;
                    if single {
                        self.t(&vars[0]);
                    } else {
                        self.p("(");
                        for v in vars {
                            self.t(v);
                        }
                        self.p(")");
                    }
                    self.p("{");
                    for r in rows {
                        if !single {
                            self.p("(");
                        }
                        for c in r {
                            match c {
                                Some(t) => self.t(t),
                                None => self.kw("UNDEF"),
                            }
                        }
                        if !single {
                            self.p(")");
                        }
                    }
                    self.p("}");
                }
                CE::Sub(q) => {
                    self.p("{");
                    self.select(q);
                    self.p("}");
                    self.opt_dot(40);
                }
            }
        }
        self.p("}");
    }
    fn select(&mut self, q: &CS) {
        self.kw("SELECT");
        if q.distinct {
            self.kw("DISTINCT");
        }
        match &q.proj {
            None => self.p("*"),
            Some(items) => {
                for i in items {
                    match i {
                        CProj::Var(v) => self.t(v),
                        CProj::Agg(k, v, a) => {
                            self.p("(");
                            self.kw(k);
                            self.p("(");
                            self.t(v);
                            self.p(")");
                            self.kw("AS");
                            self.t(a);
                            self.p(")");
                        }
                    }
                }
            }
        }
        // FROM and FROM NAMED clauses may interleave; each list keeps its order
        let (mut i, mut j) = (0, 0);
        while i < q.from.len() || j < q.from_named.len() {
            let take_named = if i == q.from.len() {
                true
            } else if j == q.from_named.len() {
                false
            } else {
                self.lay.chance(100)
            };
            self.kw("FROM");
            if take_named {
                self.kw("NAMED");
                self.t(&q.from_named[j]);
                j += 1;
            } else {
                self.t(&q.from[i]);
                i += 1;
            }
        }
        if self.lay.chance(80) {
            self.where_omitted += 1;
        } else {
            self.kw("WHERE");
        }
        self.group(&q.body);
        if !q.group_by.is_empty() {
            self.kw("GROUP");
            self.kw("BY");
            for v in &q.group_by {
                self.t(v);
            }
        }
        if !q.order.is_empty() {
            self.kw("ORDER");
            self.kw("BY");
            for (v, desc) in &q.order {
                if *desc {
                    self.kw("DESC");
                    self.p("(");
                    self.t(v);
                    self.p(")");
                } else if self.lay.chance(80) {
                    self.kw("ASC");
                    self.p("(");
                    self.t(v);
                    self.p(")");
                } else {
                    self.t(v);
                }
            }
        }
        if let Some(l) = q.limit {
            self.kw("LIMIT");
            let s = if self.lay.chance(40) { format!("00{l}") } else { l.to_string() };
            self.out.push(tok(s, K::Num));
        }
    }
    fn quad_block(&mut self, qs: &[CQuad]) {
        self.p("{");
        let mut i = 0;
        while i < qs.len() {
            // maximal run of quads that may share one block: same graph lexeme (a run may also be cut short)
            let mut j = i + 1;
            while j < qs.len() && qs[j].graph == qs[i].graph && !self.lay.chance(60) {
                j += 1;
            }
            let ts: Vec<[CT; 3]> = qs[i..j].iter().map(|q| q.t.clone()).collect();
            match &qs[i].graph {
                None => self.triples(&ts, j == qs.len()),
                Some(g) => {
                    self.kw("GRAPH");
                    self.t(g);
                    self.p("{");
                    self.triples(&ts, true);
                    self.p("}");
                    self.opt_dot(40);
                }
            }
            i = j;
        }
        self.p("}");
    }
    fn request(&mut self, r: &CReq) {
        for (pf, iri) in &r.prefixes {
            self.kw("PREFIX");
            self.out.push(tok(format!("{pf}:"), K::Name));
            self.out.push(tok(format!("<{iri}>"), K::Iri));
        }
        match &r.body {
            CBody::Sel(q) => self.select(q),
            CBody::Upd(u) => match u {
                CU::InsertData(qs) => {
                    self.kw("INSERT");
                    self.kw("DATA");
                    self.quad_block(qs);
                }
                CU::DeleteData(qs) => {
                    self.kw("DELETE");
                    self.kw("DATA");
                    self.quad_block(qs);
                }
                CU::DeleteWhere(qs) => {
                    self.kw("DELETE");
                    self.kw("WHERE");
                    self.quad_block(qs);
                }
                CU::Modify { delete, insert, w } => {
                    if !delete.is_empty() || insert.is_empty() {
                        self.kw("DELETE");
                        self.quad_block(delete);
                    }
                    if !insert.is_empty() {
                        self.kw("INSERT");
                        self.quad_block(insert);
                    }
                    self.kw("WHERE");
                    self.group(w);
                }
            },
        }
    }
}

struct Printed {
    text: String,
    toks: Vec<Tok>,
    st: LayoutStats,
    abbreviations: u32,
    dots_omitted: u32,
    where_omitted: u32,
}

fn print_tokens(r: &CReq, lay: &mut Ch) -> (Vec<Tok>, u32, u32, u32) {
    let mut pr = Pr { lay, out: vec![], abbreviations: 0, dots_omitted: 0, where_omitted: 0 };
    pr.request(r);
    (pr.out, pr.abbreviations, pr.dots_omitted, pr.where_omitted)
}

fn print_request(r: &CReq, lay: &[u8]) -> Printed {
    let mut ch = Ch::new(lay);
    let (toks, abbreviations, dots_omitted, where_omitted) = print_tokens(r, &mut ch);
    let mut st = LayoutStats::default();
    let text = render(&toks, &mut ch, &mut st);
    Printed { text, toks, st, abbreviations, dots_omitted, where_omitted }
}

// ------------------------------------------------------------------------------------------
// owned mirror of the parser's AST
// ------------------------------------------------------------------------------------------

#[derive(Clone, PartialEq, Debug)]
enum MArith {
    Operand(String),
    Bin(char, Box<MArith>, Box<MArith>),
}

#[derive(Clone, PartialEq, Debug)]
enum MFilter {
    /// operands: the raw operand text, token-wise (whitespace/comments inside an operand are layout)
    Cmp(String, String, String),
    And(Box<MFilter>, Box<MFilter>),
    Or(Box<MFilter>, Box<MFilter>),
    Not(Box<MFilter>),
    Arith(MArith),
    Func(String, Vec<String>),
}

#[derive(Clone, PartialEq, Debug)]
enum MPat {
    Unit,
    Bgp(Vec<[String; 3]>),
    Join(Vec<MPat>),
    Union(Vec<MPat>),
    Graph(String, Box<MPat>),
    Filter(MFilter),
    Bind(String, Vec<String>, String),
    Values(Vec<String>, Vec<Vec<Option<String>>>),
    Sub(Box<MSelect>),
}

#[derive(Clone, PartialEq, Debug)]
struct MSelect {
    distinct: bool,
    vars: Vec<(String, String, Option<String>)>,
    from: Vec<String>,
    from_named: Vec<String>,
    pattern: MPat,
    group: Vec<String>,
    order: Vec<(String, bool)>,
    limit: Option<usize>,
}

type MQuad = (Option<String>, [String; 3]);

#[derive(Clone, PartialEq, Debug)]
enum MUpd {
    InsertData(Vec<MQuad>),
    DeleteData(Vec<MQuad>),
    InsertWhere(Vec<MQuad>, MPat),
    DeleteWhere(Vec<MQuad>, MPat),
    DeleteInsertWhere(Vec<MQuad>, Vec<MQuad>, MPat),
    /// template + the quads that the implied WHERE pattern matches (flattened, grouping-independent)
    DeleteWhereShorthand(Vec<MQuad>, Vec<MQuad>),
}

// ---- tokeniser for raw slices kept by the AST (comparison operands, quoted triples) ----

fn name_char(c: char) -> bool {
    c.is_alphanumeric() || matches!(c, '_' | ':' | '-' | '%' | '\u{00B7}') || (!c.is_ascii() && !c.is_whitespace())
}

fn lit_len(s: &str) -> usize {
    let q = s.chars().next().unwrap();
    let triple = s.len() >= 3 && s[1..].starts_with(q) && s[2..].starts_with(q);
    let dl = if triple { 3 } else { 1 };
    let delim: String = std::iter::repeat(q).take(dl).collect();
    let mut i = dl;
    let mut end = None;
    while i < s.len() {
        if s[i..].starts_with(&delim) {
            end = Some(i + dl);
            break;
        }
        let c = s[i..].chars().next().unwrap();
        if c == '\\' {
            i += 1;
            if let Some(n) = s[i..].chars().next() {
                i += n.len_utf8();
            }
            continue;
        }
        i += c.len_utf8();
    }
    let Some(mut e) = end else { return s.len() };
    let rest = &s[e..];
    if let Some(l) = rest.strip_prefix('@') {
        let n = l.chars().take_while(|c| c.is_ascii_alphanumeric() || *c == '-').count();
        e += 1 + n;
    } else if let Some(d) = rest.strip_prefix("^^") {
        if d.starts_with('<') {
            e += 2 + d.find('>').map(|p| p + 1).unwrap_or(d.len());
        } else {
            e += 2 + name_len(d);
        }
    }
    e
}

fn name_len(s: &str) -> usize {
    let mut i = 0;
    let mut end = 0;
    while i < s.len() {
        let c = s[i..].chars().next().unwrap();
        if c == '\\' {
            i += 1;
            if let Some(n) = s[i..].chars().next() {
                i += n.len_utf8();
            }
            end = i;
        } else if name_char(c) {
            i += c.len_utf8();
            end = i;
        } else if c == '.' {
            i += 1; // only part of the name when a name character follows
        } else {
            break;
        }
    }
    end
}

fn lex_raw(s: &str) -> Vec<String> {
    let mut out = vec![];
    let mut rest = s;
    loop {
        rest = skip_ws_comments(rest);
        let Some(c) = rest.chars().next() else { break };
        let mut len = if rest.starts_with("<<") || rest.starts_with(">>") {
            2
        } else if c == '<' {
            match rest[1..].find(|ch: char| ch == '>' || ch == '<' || ch.is_whitespace()) {
                Some(p) if rest[1 + p..].starts_with('>') => p + 2,
                _ => 1,
            }
        } else if c == '"' || c == '\'' {
            lit_len(rest)
        } else if c == '?' || c == '$' {
            1 + rest[1..].chars().take_while(|c| c.is_alphanumeric() || *c == '_').map(|c| c.len_utf8()).sum::<usize>()
        } else if c.is_ascii_digit() || (c == '.' && rest[1..].starts_with(|d: char| d.is_ascii_digit())) {
            let b = rest.as_bytes();
            let mut i = 0;
            while i < b.len() && b[i].is_ascii_digit() {
                i += 1;
            }
            if i < b.len() && b[i] == b'.' && i + 1 < b.len() && b[i + 1].is_ascii_digit() {
                i += 1;
                while i < b.len() && b[i].is_ascii_digit() {
                    i += 1;
                }
            }
            if i < b.len() && (b[i] == b'e' || b[i] == b'E') {
                let mut j = i + 1;
                if j < b.len() && (b[j] == b'+' || b[j] == b'-') {
                    j += 1;
                }
                let k = j;
                while j < b.len() && b[j].is_ascii_digit() {
                    j += 1;
                }
                if j > k {
                    i = j;
                }
            }
            i
        } else if (name_char(c) && c != '-') || c == '\\' {
            name_len(rest)
        } else {
            c.len_utf8()
        };
        if len == 0 {
            len = c.len_utf8();
        }
        out.push(rest[..len].to_string());
        rest = &rest[len..];
    }
    out
}

/// set when the harness' own tokeniser does not reproduce the tokens the printer emitted (harness defect, never the engine's)
static LEXER_INCONSISTENT: std::sync::atomic::AtomicBool = std::sync::atomic::AtomicBool::new(false);

fn lexer_checked(joined: String) -> String {
    if canon_raw(&joined) != joined {
        eprintln!("harness tokeniser inconsistent on {joined:?}: {:?}", lex_raw(&joined));
        LEXER_INCONSISTENT.store(true, std::sync::atomic::Ordering::Relaxed);
    }
    joined
}

fn canon_raw(s: &str) -> String {
    lex_raw(s).join(" ")
}

fn canon_term(s: &str) -> String {
    if s.starts_with("<<") {
        canon_raw(s)
    } else {
        s.to_string()
    }
}

// ---- borrowed AST -> mirror ----

fn conv_arith(a: &pq::ArithmeticExpression) -> MArith {
    use pq::ArithmeticExpression as A;
    match a {
        A::Operand(s) => MArith::Operand(s.to_string()),
        A::Add(l, r) => MArith::Bin('+', Box::new(conv_arith(l)), Box::new(conv_arith(r))),
        A::Subtract(l, r) => MArith::Bin('-', Box::new(conv_arith(l)), Box::new(conv_arith(r))),
        A::Multiply(l, r) => MArith::Bin('*', Box::new(conv_arith(l)), Box::new(conv_arith(r))),
        A::Divide(l, r) => MArith::Bin('/', Box::new(conv_arith(l)), Box::new(conv_arith(r))),
    }
}

fn conv_filter(f: &pq::FilterExpression) -> MFilter {
    use pq::FilterExpression as F;
    match f {
        F::Comparison(l, op, r) => MFilter::Cmp(canon_raw(l), op.to_string(), canon_raw(r)),
        F::And(l, r) => MFilter::And(Box::new(conv_filter(l)), Box::new(conv_filter(r))),
        F::Or(l, r) => MFilter::Or(Box::new(conv_filter(l)), Box::new(conv_filter(r))),
        F::Not(i) => MFilter::Not(Box::new(conv_filter(i))),
        F::ArithmeticExpr(a) => MFilter::Arith(conv_arith(a)),
        F::FunctionCall(n, args) => MFilter::Func(n.to_string(), args.iter().map(|a| canon_term(a)).collect()),
    }
}

fn conv_pat(p: &pq::GroupGraphPattern) -> MPat {
    use pq::GroupGraphPattern as G;
    match p {
        G::Unit => MPat::Unit,
        G::Bgp(ts) => MPat::Bgp(ts.iter().map(|t| [canon_term(t.0), canon_term(t.1), canon_term(t.2)]).collect()),
        G::Join(v) => MPat::Join(v.iter().map(conv_pat).collect()),
        G::Union(v) => MPat::Union(v.iter().map(conv_pat).collect()),
        G::Graph { name, pattern } => MPat::Graph(name.to_string(), Box::new(conv_pat(pattern))),
        G::Filter(f) => MPat::Filter(conv_filter(f)),
        G::Bind((f, args, v)) => MPat::Bind(f.to_string(), args.iter().map(|a| a.to_string()).collect(), v.to_string()),
        G::Values(v) => MPat::Values(
            v.variables.iter().map(|x| x.to_string()).collect(),
            v.values
                .iter()
                .map(|r| {
                    r.iter()
                        .map(|c| match c {
                            pq::Value::Term(t) => Some(t.clone()),
                            pq::Value::Undef => None,
                        })
                        .collect()
                })
                .collect(),
        ),
        G::SubQuery(s) => MPat::Sub(Box::new(conv_select(&s.query))),
    }
}

fn conv_select(q: &pq::SelectQuery) -> MSelect {
    MSelect {
        distinct: q.distinct,
        vars: q.variables.iter().map(|(k, v, a)| (k.to_string(), v.to_string(), a.map(|a| a.to_string()))).collect(),
        from: q.from.iter().map(|s| s.to_string()).collect(),
        from_named: q.from_named.iter().map(|s| s.to_string()).collect(),
        pattern: conv_pat(&q.pattern),
        group: q.group_vars.iter().map(|s| s.to_string()).collect(),
        order: q.order_conditions.iter().map(|c| (c.variable.to_string(), c.direction == pq::SortDirection::Desc)).collect(),
        limit: q.limit,
    }
}

fn conv_quads(qs: &[pq::LexicalQuadPattern]) -> Vec<MQuad> {
    qs.iter().map(|q| (q.graph.map(|g| g.to_string()), [canon_term(q.triple.0), canon_term(q.triple.1), canon_term(q.triple.2)])).collect()
}

/// the (graph, triple) pairs a pattern made of BGPs and GRAPH-wrapped BGPs matches; None if it has another shape
fn flatten_quads(p: &MPat, g: Option<&String>, out: &mut Vec<MQuad>) -> bool {
    match p {
        MPat::Unit => true,
        MPat::Bgp(ts) => {
            for t in ts {
                out.push((g.cloned(), t.clone()));
            }
            true
        }
        MPat::Join(v) => v.iter().all(|x| flatten_quads(x, g, out)),
        MPat::Graph(n, inner) if g.is_none() => flatten_quads(inner, Some(n), out),
        _ => false,
    }
}

fn conv_update(u: &pq::UpdateOperation) -> MUpd {
    use pq::UpdateOperation as U;
    match u {
        U::InsertData(c) => MUpd::InsertData(conv_quads(&c.quads)),
        U::DeleteData(c) => MUpd::DeleteData(conv_quads(&c.quads)),
        U::InsertWhere { insert, where_pattern } => MUpd::InsertWhere(conv_quads(&insert.quads), norm(conv_pat(where_pattern))),
        U::DeleteWhere { delete, where_pattern } => MUpd::DeleteWhere(conv_quads(&delete.quads), norm(conv_pat(where_pattern))),
        U::DeleteInsertWhere { delete, insert, where_pattern } => MUpd::DeleteInsertWhere(conv_quads(&delete.quads), conv_quads(&insert.quads), norm(conv_pat(where_pattern))),
        U::DeleteWhereShorthand { delete, where_pattern } => {
            let mut flat = vec![];
            if !flatten_quads(&conv_pat(where_pattern), None, &mut flat) {
                flat = vec![(Some("<pattern is not a conjunction of (GRAPH-wrapped) triple patterns>".into()), [String::new(), String::new(), String::new()])];
            }
            MUpd::DeleteWhereShorthand(conv_quads(&delete.quads), flat)
        }
    }
}

/// The only normalisation (applied to both sides): adjacent BGP siblings of one group are merged in order; a
/// group left with one member is that member (the parser's own rule for single-member groups).
fn norm(p: MPat) -> MPat {
    match p {
        MPat::Join(v) => {
            let mut out: Vec<MPat> = vec![];
            for x in v {
                let x = norm(x);
                match (out.last_mut(), x) {
                    (Some(MPat::Bgp(a)), MPat::Bgp(b)) => a.extend(b),
                    (_, x) => out.push(x),
                }
            }
            if out.len() == 1 {
                out.pop().unwrap()
            } else {
                MPat::Join(out)
            }
        }
        MPat::Union(v) => MPat::Union(v.into_iter().map(norm).collect()),
        MPat::Graph(n, i) => MPat::Graph(n, Box::new(norm(*i))),
        MPat::Sub(mut s) => {
            s.pattern = norm(std::mem::replace(&mut s.pattern, MPat::Unit));
            MPat::Sub(s)
        }
        other => other,
    }
}

// ---- CST -> expected mirror (the AST's documented normal form) ----

fn exp_arith_text(a: &CA) -> String {
    let mut t = vec![];
    a.toks(&mut t);
    lexer_checked(t.iter().map(|x| x.s.clone()).collect::<Vec<_>>().join(" "))
}

fn exp_filter(f: &CF) -> MFilter {
    match f {
        CF::Cmp(l, op, r) => MFilter::Cmp(exp_arith_text(l), op.to_string(), exp_arith_text(r)),
        CF::And(l, r) => MFilter::And(Box::new(exp_filter(l)), Box::new(exp_filter(r))),
        CF::Or(l, r) => MFilter::Or(Box::new(exp_filter(l)), Box::new(exp_filter(r))),
        CF::Not(i) => MFilter::Not(Box::new(exp_filter(i))),
    }
}

fn exp_group(es: &[CE]) -> MPat {
    let mut parts = vec![];
    for e in es {
        parts.push(match e {
            CE::Bgp(ts) => MPat::Bgp(ts.iter().map(|t| [t[0].canon(), t[1].canon(), t[2].canon()]).collect()),
            CE::Group(g) => exp_group(g),
            CE::Union(bs) => MPat::Union(bs.iter().map(|b| exp_group(b)).collect()),
            CE::Graph(n, g) => MPat::Graph(n.s.clone(), Box::new(exp_group(g))),
            CE::Filter(f) => MPat::Filter(exp_filter(f)),
            CE::Bind(args, out) => MPat::Bind(
                "CONCAT".into(),
                args.iter()
                    .map(|a| match a {
                        CArg::Var(v) => v.s.clone(),
                        CArg::Str(_, inner) => inner.clone(),
                    })
                    .collect(),
                out.s.clone(),
            ),
            CE::Values(vars, rows) => MPat::Values(vars.iter().map(|v| v.s.clone()).collect(), rows.iter().map(|r| r.iter().map(|c| c.as_ref().map(|t| t.s.clone())).collect()).collect()),
            CE::Sub(q) => MPat::Sub(Box::new(exp_select(q))),
        });
    }
    match parts.len() {
        0 => MPat::Unit,
        1 => parts.pop().unwrap(),
        _ => MPat::Join(parts),
    }
}

fn exp_select(q: &CS) -> MSelect {
    MSelect {
        distinct: q.distinct,
        vars: match &q.proj {
            None => vec![("*".into(), "*".into(), None)],
            Some(items) => items
                .iter()
                .map(|i| match i {
                    CProj::Var(v) => ("VAR".to_string(), v.s.clone(), None),
                    CProj::Agg(k, v, a) => (k.to_string(), v.s.clone(), Some(a.s.clone())),
                })
                .collect(),
        },
        from: q.from.iter().map(|t| t.s.clone()).collect(),
        from_named: q.from_named.iter().map(|t| t.s.clone()).collect(),
        pattern: exp_group(&q.body),
        group: q.group_by.iter().map(|t| t.s.clone()).collect(),
        order: q.order.iter().map(|(t, d)| (t.s.clone(), *d)).collect(),
        limit: q.limit,
    }
}

fn exp_quads(qs: &[CQuad]) -> Vec<MQuad> {
    qs.iter().map(|q| (q.graph.as_ref().map(|g| g.s.clone()), [q.t[0].canon(), q.t[1].canon(), q.t[2].canon()])).collect()
}

fn exp_update(u: &CU) -> MUpd {
    match u {
        CU::InsertData(q) => MUpd::InsertData(exp_quads(q)),
        CU::DeleteData(q) => MUpd::DeleteData(exp_quads(q)),
        CU::DeleteWhere(q) => MUpd::DeleteWhereShorthand(exp_quads(q), exp_quads(q)),
        CU::Modify { delete, insert, w } => {
            let w = norm(exp_group(w));
            match (delete.is_empty(), insert.is_empty()) {
                (false, false) => MUpd::DeleteInsertWhere(exp_quads(delete), exp_quads(insert), w),
                (true, false) => MUpd::InsertWhere(exp_quads(insert), w),
                (_, true) => MUpd::DeleteWhere(exp_quads(delete), w),
            }
        }
    }
}

fn norm_select(mut s: MSelect) -> MSelect {
    s.pattern = norm(std::mem::replace(&mut s.pattern, MPat::Unit));
    s
}

fn pat_depth(p: &MPat) -> u32 {
    match p {
        MPat::Join(v) | MPat::Union(v) => 1 + v.iter().map(pat_depth).max().unwrap_or(0),
        MPat::Graph(_, i) => 1 + pat_depth(i),
        MPat::Sub(s) => 1 + pat_depth(&s.pattern),
        _ => 1,
    }
}

fn pat_has(p: &MPat, f: &dyn Fn(&MPat) -> bool) -> bool {
    if f(p) {
        return true;
    }
    match p {
        MPat::Join(v) | MPat::Union(v) => v.iter().any(|x| pat_has(x, f)),
        MPat::Graph(_, i) => pat_has(i, f),
        MPat::Sub(s) => pat_has(&s.pattern, f),
        _ => false,
    }
}

// ------------------------------------------------------------------------------------------
// faithfulness oracle
// ------------------------------------------------------------------------------------------

#[derive(Clone, PartialEq, Debug)]
enum MBody {
    Sel(MSelect),
    Upd(MUpd),
}

fn expected_body(r: &CReq) -> MBody {
    match &r.body {
        CBody::Sel(q) => MBody::Sel(norm_select(exp_select(q))),
        CBody::Upd(u) => MBody::Upd(exp_update(u)),
    }
}

/// parse through the main entry point and convert; Err((sig suffix, detail))
fn parse_mirror(text: &str, with_aliases: bool) -> Result<(BTreeMap<String, String>, MBody), (String, String)> {
    let r = catch(|| {
        let res = if with_aliases { kolibrie::parser::parse_combined_query_with_options(text, true) } else { kolibrie::parser::parse_combined_query(text) };
        match res {
            Err(e) => Err(("rejected".to_string(), format!("{e:?}"))),
            Ok((rest, c)) => {
                if !skip_ws_comments(rest).is_empty() {
                    return Err(("remainder".into(), format!("unconsumed {rest:?}")));
                }
                if c.retrieve_clause.is_some() || c.register_clause.is_some() || c.rule.is_some() || c.ml_predict.is_some() || !c.model_decls.is_empty() || !c.neural_relation_decls.is_empty() || !c.train_neural_relation_decls.is_empty() {
                    return Err(("extension_invented".into(), "a plain SPARQL request produced extension clauses".into()));
                }
                let prefixes: BTreeMap<String, String> = c.prefixes.iter().map(|(k, v)| (k.clone(), v.clone())).collect();
                match &c.sparql {
                    None => Err(("no_operation".into(), "CombinedQuery.sparql is None".into())),
                    Some(pq::SparqlOperation::Select(q)) => Ok((prefixes, MBody::Sel(norm_select(conv_select(q))))),
                    Some(pq::SparqlOperation::Update(u)) => Ok((prefixes, MBody::Upd(conv_update(u)))),
                }
            }
        }
    });
    match r {
        Err(site) => Err((format!("panic:{}", panic_sig(&site)), format!("panic at {}:{}: {}", site.file, site.line, site.msg))),
        Ok(x) => x,
    }
}

fn clip(s: &str, n: usize) -> String {
    let mut e = s.len().min(n);
    while !s.is_char_boundary(e) {
        e -= 1;
    }
    if e < s.len() {
        format!("{}…", &s[..e])
    } else {
        s.to_string()
    }
}

/// narrow description of the first difference between two mirrors
fn diff_body(exp: &MBody, got: &MBody) -> Option<(String, String)> {
    if exp == got {
        return None;
    }
    let d = |what: &str, e: String, g: String| Some((what.to_string(), format!("expected {} got {}", clip(&e, 1500), clip(&g, 1500))));
    match (exp, got) {
        (MBody::Sel(e), MBody::Sel(g)) => {
            if e.distinct != g.distinct || e.vars != g.vars {
                return d("projection", format!("{:?} {:?}", e.distinct, e.vars), format!("{:?} {:?}", g.distinct, g.vars));
            }
            if e.from != g.from || e.from_named != g.from_named {
                return d("dataset_clause", format!("{:?} {:?}", e.from, e.from_named), format!("{:?} {:?}", g.from, g.from_named));
            }
            if e.group != g.group || e.order != g.order || e.limit != g.limit {
                return d("modifiers", format!("{:?} {:?} {:?}", e.group, e.order, e.limit), format!("{:?} {:?} {:?}", g.group, g.order, g.limit));
            }
            d("pattern", format!("{:?}", e.pattern), format!("{:?}", g.pattern))
        }
        (MBody::Upd(e), MBody::Upd(g)) => {
            if std::mem::discriminant(e) != std::mem::discriminant(g) {
                return d("update_form", format!("{e:?}"), format!("{g:?}"));
            }
            let tpl = |u: &MUpd| -> Vec<MQuad> {
                match u {
                    MUpd::InsertData(q) | MUpd::DeleteData(q) | MUpd::InsertWhere(q, _) | MUpd::DeleteWhere(q, _) | MUpd::DeleteWhereShorthand(q, _) => q.clone(),
                    MUpd::DeleteInsertWhere(a, b, _) => a.iter().chain(b.iter()).cloned().collect(),
                }
            };
            if tpl(e) != tpl(g) {
                return d("update_template", format!("{:?}", tpl(e)), format!("{:?}", tpl(g)));
            }
            d("update_where", format!("{e:?}"), format!("{g:?}"))
        }
        _ => d("operation_kind", format!("{exp:?}"), format!("{got:?}")),
    }
}

#[derive(Clone, Debug, Serialize, Deserialize)]
struct RtCase {
    q: Query,
    lex: Vec<u8>,
    lay1: Vec<u8>,
    lay2: Vec<u8>,
}

fn query_strategy() -> BoxedStrategy<Query> {
    prop_oneof![
        4 => sq::data_query_strategy(2, 6, 4).prop_map(|(_, q)| Query::Sel(q)),
        3 => sq::data_query_strategy(3, 6, 4).prop_map(|(_, q)| Query::Sel(q)),
        4 => (sq::dataset_strategy(6, 4), raw_op()).prop_map(|(d, r)| {
            let op = UBuilder::new(&d).op(&r);
            Query::Upd(match op {
                UpdOp::Rejected(_) => UpdOp::DeleteWhere(vec![TplQuad { graph: Some(GName::Var("g".into())), t: [TT::Var("a".into()), TT::C(Tm::Iri(sq::RDF_TYPE.into())), TT::Var("c".into())] }]),
                o => o,
            })
        }),
    ]
    .boxed()
}

fn bytes(max: usize) -> impl Strategy<Value = Vec<u8>> {
    proptest::collection::vec(any::<u8>(), 0..max)
}

struct Roundtrip;
impl Part for Roundtrip {
    type Case = RtCase;
    fn name(&self) -> &'static str {
        "roundtrip"
    }
    fn cases(&self, tier: Tier) -> u32 {
        tier.pick(100_000, 400_000)
    }
    fn strategy(&self, _: Tier) -> BoxedStrategy<RtCase> {
        (query_strategy(), bytes(160), bytes(240), bytes(240)).prop_map(|(q, lex, lay1, lay2)| RtCase { q, lex, lay1, lay2 }).boxed()
    }
    fn describe(&self, c: &RtCase) -> serde_json::Value {
        let (req, _) = lexicalise(&c.q, &c.lex);
        json!({"printing_1": print_request(&req, &c.lay1).text, "printing_2": print_request(&req, &c.lay2).text})
    }
    fn check(&self, c: &RtCase) -> Outcome {
        let mut o = Outcome::new();
        let (req, li) = lexicalise(&c.q, &c.lex);
        let exp = expected_body(&req);
        let exp_prefixes: BTreeMap<String, String> = req.prefixes.iter().cloned().collect();
        let p1 = print_request(&req, &c.lay1);
        let p2 = print_request(&req, &c.lay2);
        if LEXER_INCONSISTENT.load(std::sync::atomic::Ordering::Relaxed) {
            o.fail("c16.harness.lexer", "the harness tokeniser disagrees with the printer's tokens (harness defect)");
            return o;
        }
        let is_sel = matches!(exp, MBody::Sel(_));
        let kind = if is_sel { "select" } else { "update" };
        let mut mirrors = vec![];
        for (i, pr) in [&p1, &p2].into_iter().enumerate() {
            o.inner_evals += 1;
            match parse_mirror(&pr.text, false) {
                Err((what, d)) => {
                    let sig = if let Some(ps) = what.strip_prefix("panic:") { ps.to_string() } else { format!("c16.faithful.{what}.{kind}") };
                    o.fail(sig, format!("printing {} of a valid {kind} request: {d}\n--- text ---\n{}", i + 1, pr.text));
                    return o;
                }
                Ok((prefixes, body)) => {
                    if prefixes != exp_prefixes {
                        o.fail("c16.faithful.prefixes", format!("expected {:?} got {:?}\n--- text ---\n{}", exp_prefixes, prefixes, pr.text));
                        return o;
                    }
                    if let Some((what, d)) = diff_body(&exp, &body) {
                        o.fail(format!("c16.faithful.{what}"), format!("printing {}: {d}\n--- text ---\n{}", i + 1, pr.text));
                        return o;
                    }
                    mirrors.push(body);
                }
            }
        }
        if mirrors[0] != mirrors[1] {
            o.fail("c16.faithful.two_printings_differ", format!("--- text 1 ---\n{}\n--- text 2 ---\n{}", p1.text, p2.text));
            return o;
        }
        // the other entry points build the same tree
        o.inner_evals += 1;
        match parse_mirror(&p1.text, true) {
            Ok((_, b)) if b == mirrors[0] => {}
            other => {
                o.fail("c16.faithful.alias_option_changes_tree", format!("parse_combined_query_with_options(_, true) differs: {:?}\n--- text ---\n{}", other.map(|x| x.1), p1.text));
                return o;
            }
        }
        if is_sel {
            o.inner_evals += 1;
            let r = catch(|| kolibrie::parser::parse_sparql_query(&p2.text).map(|(rest, q)| (rest.to_string(), norm_select(conv_select(&q)))).map_err(|e| format!("{e:?}")));
            match r {
                Err(site) => o.fail(panic_sig(&site), format!("parse_sparql_query panicked: {}\n--- text ---\n{}", site.msg, p2.text)),
                Ok(Err(e)) => o.fail("c16.faithful.rejected.select_entry", format!("parse_sparql_query rejects what parse_combined_query accepts: {e}\n--- text ---\n{}", p2.text)),
                Ok(Ok((rest, m))) => {
                    if !rest.is_empty() || MBody::Sel(m) != mirrors[0] {
                        o.fail("c16.faithful.select_entry_differs", format!("parse_sparql_query builds a different tree / leaves {rest:?}\n--- text ---\n{}", p2.text));
                    }
                }
            }
        }
        // ---- classes / non-triviality ----
        let (depth, has_op) = match &exp {
            MBody::Sel(s) => (pat_depth(&s.pattern) + 1, pat_has(&s.pattern, &|p| matches!(p, MPat::Graph(..) | MPat::Union(_) | MPat::Sub(_)))),
            MBody::Upd(MUpd::InsertWhere(_, w)) | MBody::Upd(MUpd::DeleteWhere(_, w)) | MBody::Upd(MUpd::DeleteInsertWhere(_, _, w)) => (pat_depth(w) + 1, pat_has(w, &|p| matches!(p, MPat::Graph(..) | MPat::Union(_) | MPat::Sub(_)))),
            MBody::Upd(_) => (2, false),
        };
        let layout_nontrivial = |p: &Printed| p.st.comments + p.st.glued + p.st.odd_ws > 0;
        o.nontrivial = depth >= 3 && has_op && (layout_nontrivial(&p1) || layout_nontrivial(&p2));
        o.class_if(is_sel, "select");
        if let MBody::Upd(u) = &exp {
            o.class(match u {
                MUpd::InsertData(_) => "insert-data",
                MUpd::DeleteData(_) => "delete-data",
                MUpd::InsertWhere(..) => "insert-where",
                MUpd::DeleteWhere(..) => "delete-where",
                MUpd::DeleteInsertWhere(..) => "delete-insert-where",
                MUpd::DeleteWhereShorthand(..) => "delete-where-shorthand",
            });
        }
        let text_all = format!("{}{}", p1.text, p2.text);
        o.class_if(depth >= 4, "depth>=4");
        o.class_if(p1.st.comments + p2.st.comments > 0, "comment");
        o.class_if(p1.st.cr_comment + p2.st.cr_comment > 0, "comment-ended-by-CR");
        o.class_if(p1.st.glued + p2.st.glued > 0, "tokens-glued");
        o.class_if(p1.abbreviations + p2.abbreviations > 0, "semicolon-comma-abbreviation");
        o.class_if(p1.dots_omitted + p2.dots_omitted > 0, "dot-omitted");
        o.class_if(p1.where_omitted + p2.where_omitted > 0 && is_sel, "where-omitted");
        o.class_if(li.exotic > 0, "exotic-lexeme");
        o.class_if(li.quoted > 0, "quoted-triple");
        o.class_if(text_all.contains('$'), "dollar-variable");
        o.class_if(text_all.contains("\"\"\"") || text_all.contains("'''"), "long-quoted-literal");
        o.class_if(text_all.contains("^^"), "datatype");
        o.class_if(text_all.contains("\"@") || text_all.contains("'@"), "language-tag");
        o.class_if(p1.toks.iter().any(|t| t.k == K::Kw && t.s == "a"), "a-keyword");
        o.class_if(p1.toks.iter().any(|t| t.k == K::Kw && t.s.chars().any(|c| c.is_ascii_lowercase()) && t.s.len() > 1), "keyword-case");
        if let MBody::Sel(s) = &exp {
            o.class_if(pat_has(&s.pattern, &|p| matches!(p, MPat::Union(_))), "union");
            o.class_if(pat_has(&s.pattern, &|p| matches!(p, MPat::Graph(..))), "graph");
            o.class_if(pat_has(&s.pattern, &|p| matches!(p, MPat::Sub(_))), "subselect");
            o.class_if(pat_has(&s.pattern, &|p| matches!(p, MPat::Filter(_))), "filter");
            o.class_if(pat_has(&s.pattern, &|p| matches!(p, MPat::Filter(MFilter::Cmp(l, _, _)) if l.contains(' '))), "arithmetic-comparison");
            o.class_if(pat_has(&s.pattern, &|p| matches!(p, MPat::Values(..))), "values");
            o.class_if(pat_has(&s.pattern, &|p| matches!(p, MPat::Bind(..))), "bind");
            o.class_if(pat_has(&s.pattern, &|p| matches!(p, MPat::Unit)), "empty-group");
            o.class_if(!s.from.is_empty() || !s.from_named.is_empty(), "dataset-clause");
            o.class_if(!s.order.is_empty() || s.limit.is_some() || !s.group.is_empty(), "modifiers");
        }
        o
    }
}

// ------------------------------------------------------------------------------------------
// totality parts
// ------------------------------------------------------------------------------------------

fn total_outcome(input: &str, o: &mut Outcome) -> TotalReport {
    let r = check_total_report(input);
    o.inner_evals += r.parsers_run as u64;
    for (sig, d) in &r.failures {
        o.fail(sig.clone(), d.clone());
    }
    o.nontrivial = r.rejected_after_progress;
    o.class_if(r.accepted.iter().any(|a| a.starts_with("parse_combined_query") || *a == "parse_sparql_query"), "accepted-by-request-parser");
    o.class_if(!r.accepted.is_empty(), "accepted-by-some-parser");
    o.class_if(r.accepted.is_empty(), "rejected-by-all");
    o.class_if(r.rejected_after_progress, "rejected-after-first-token");
    for a in &r.accepted {
        match *a {
            "parse_rule" | "parse_standalone_rule" => o.class("accepted:rule"),
            "parse_register_clause" => o.class("accepted:register"),
            "parse_retrieve_clause" => o.class("accepted:retrieve"),
            "parse_model_decl" | "parse_neural_relation_decl" | "parse_train_neural_relation_decl" => o.class("accepted:neural-decl"),
            "parse_ml_predict" => o.class("accepted:ml-predict"),
            "parse_window_spec" | "parse_from_named_window" => o.class("accepted:window"),
            _ => {}
        }
    }
    r
}

fn load_dir(dir: &str) -> Vec<(String, Vec<u8>)> {
    let mut v = vec![];
    if let Ok(rd) = std::fs::read_dir(dir) {
        for e in rd.flatten() {
            if e.path().is_file() {
                if let Ok(b) = std::fs::read(e.path()) {
                    v.push((e.file_name().to_string_lossy().to_string(), b));
                }
            }
        }
    }
    v.sort();
    v
}

// ---- sweep ----

#[derive(Clone, Debug, Serialize, Deserialize)]
struct SweepCase {
    file: String,
    edit: String,
    offset: usize,
    input: String,
}

const INSERTS: [(&str, &str); 6] = [("insert-é", "é"), ("insert-€", "€"), ("insert-😀", "😀"), ("insert-U+0301", "\u{0301}"), ("insert-U+00A0", "\u{00A0}"), ("insert-U+2028", "\u{2028}")];

fn sweep_token_at(s: &str, off: usize) -> Option<&str> {
    // a token starts at `off`: maximal run of name-ish characters, or one other non-blank character
    let rest = &s[off..];
    let c = rest.chars().next()?;
    if c.is_whitespace() {
        return None;
    }
    let wordish = |c: char| c.is_alphanumeric() || matches!(c, '_' | ':' | '?' | '$' | '-' | '.');
    if wordish(c) {
        if off > 0 && s[..off].chars().last().map_or(false, wordish) {
            return None;
        }
        let n: usize = rest.chars().take_while(|c| wordish(*c)).map(|c| c.len_utf8()).sum();
        Some(&rest[..n])
    } else {
        Some(&rest[..c.len_utf8()])
    }
}

fn sweep_cases(corpus: Vec<(String, String)>) -> impl Iterator<Item = SweepCase> + Send {
    corpus.into_iter().flat_map(|(file, text)| {
        let mut offs: Vec<usize> = text.char_indices().map(|(i, _)| i).collect();
        offs.push(text.len());
        let mut v = vec![SweepCase { file: file.clone(), edit: "unchanged".into(), offset: 0, input: text.clone() }];
        for &off in &offs {
            for (name, ins) in INSERTS {
                v.push(SweepCase { file: file.clone(), edit: name.into(), offset: off, input: format!("{}{}{}", &text[..off], ins, &text[off..]) });
            }
            if off < text.len() {
                let cl = text[off..].chars().next().unwrap().len_utf8();
                v.push(SweepCase { file: file.clone(), edit: "delete-char".into(), offset: off, input: format!("{}{}", &text[..off], &text[off + cl..]) });
                v.push(SweepCase { file: file.clone(), edit: "truncate".into(), offset: off, input: text[..off].to_string() });
                if let Some(t) = sweep_token_at(&text, off) {
                    v.push(SweepCase { file: file.clone(), edit: "duplicate-token".into(), offset: off, input: format!("{}{} {}", &text[..off], t, &text[off..]) });
                }
            }
        }
        v.into_iter()
    })
}

struct Sweep;
impl Part for Sweep {
    type Case = SweepCase;
    fn name(&self) -> &'static str {
        "sweep"
    }
    fn cases(&self, _: Tier) -> u32 {
        0
    }
    fn strategy(&self, _: Tier) -> BoxedStrategy<SweepCase> {
        Just(SweepCase { file: String::new(), edit: String::new(), offset: 0, input: String::new() }).boxed()
    }
    fn check(&self, c: &SweepCase) -> Outcome {
        let mut o = Outcome::new();
        total_outcome(&c.input, &mut o);
        o.class_if(c.edit.starts_with("insert-"), "edit:multibyte-insert");
        o.class_if(c.edit == "delete-char", "edit:delete-char");
        o.class_if(c.edit == "duplicate-token", "edit:duplicate-token");
        o.class_if(c.edit == "truncate", "edit:truncate");
        o.class_if(c.edit == "unchanged", "edit:none");
        o
    }
}

// ---- token-level mutations of generated valid requests ----

#[derive(Clone, Debug, Serialize, Deserialize)]
enum MutBase {
    /// generated valid request, printed with `lay`
    Gen { q: Query, lex: Vec<u8>, lay: Vec<u8> },
    /// a corpus request (extension syntax included), split into tokens and whitespace runs
    Text { file: String, text: String },
}

#[derive(Clone, Debug, Serialize, Deserialize)]
struct MutCase {
    base: MutBase,
    muts: Vec<(u8, u16, u16)>,
}

const MUT_DICT: [&str; 72] = [
    "SELECT", "WHERE", "{", "}", "(", ")", ".", ";", ",", "UNION", "GRAPH", "FILTER", "BIND", "VALUES", "UNDEF", "<<", ">>", "?x", "$y", "_:b", "a", "e:p", ":", "<urn:x>", "<", ">", "\"", "'", "\"\"\"", "'''",
    "\\", "@en", "^^", "#", "\n", "\r", "*", "=", "!=", "&&", "||", "!", "+", "-", "1", "1.", ".5", "1e", "é", "€", "😀", "\u{0301}", "\u{00A0}", "\u{2028}", "INSERT", "DELETE", "DATA", "PREFIX", "FROM", "NAMED", "ORDER BY", "LIMIT", "AS", "%2",
    "[", "]", "PT", "STEP", "MODEL", "INPUT", "OUTPUT", "PROB(",
];

/// numbers at the edges of the integer types the parsers convert to
const MUT_NUMBERS: [&str; 8] = ["0", "4294967296", "9223372036854775807", "18446744073709551615", "18446744073709551616", "99999999999999999", "5124095576030431", "1e999"];

const MUT_KINDS: u8 = 11;

fn apply_mutations(toks: &mut Vec<Tok>, muts: &[(u8, u16, u16)]) {
    for &(k, a, b) in muts {
        if toks.is_empty() {
            toks.push(tok(MUT_DICT[pick_idx(b, MUT_DICT.len())], K::Kw));
            continue;
        }
        let i = pick_idx(a, toks.len());
        match k % MUT_KINDS {
            0 => {
                toks.remove(i);
            }
            1 => {
                let t = toks[i].clone();
                toks.insert(i, t);
            }
            2 => {
                if i + 1 < toks.len() {
                    toks.swap(i, i + 1);
                }
            }
            3 => toks[i] = tok(MUT_DICT[pick_idx(b, MUT_DICT.len())], K::Kw),
            4 => toks.insert(i, tok(format!("{} ", MUT_DICT[pick_idx(b, MUT_DICT.len())]), K::P)),
            5 => {
                // multi-byte character inside the token, at a char boundary
                let s = &toks[i].s;
                let offs: Vec<usize> = s.char_indices().map(|(x, _)| x).chain([s.len()]).collect();
                let at = offs[pick_idx(b, offs.len())];
                let ins = ["é", "€", "😀", "\u{0301}", "\u{00A0}", "\u{2028}"][b as usize % 6];
                let ns = format!("{}{}{}", &s[..at], ins, &s[at..]);
                toks[i].s = ns;
            }
            6 => toks.truncate(i),
            7 => {
                // cut the token itself short
                let s = &toks[i].s;
                let offs: Vec<usize> = s.char_indices().map(|(x, _)| x).collect();
                let at = offs[pick_idx(b, offs.len())];
                toks[i].s = s[..at].to_string();
                if toks[i].s.is_empty() {
                    toks.remove(i);
                }
            }
            8 => {
                let t = &mut toks[i];
                t.s = if b % 2 == 0 { t.s.to_uppercase() } else { t.s.to_lowercase() };
            }
            9 => {
                // copy a token to another place (keywords out of order, repeated clauses)
                let j = pick_idx(b, toks.len() + 1);
                // prefer keywords (upper-case words): a clause keyword in the wrong place is the interesting case
                let kws: Vec<usize> = (0..toks.len()).filter(|&x| toks[x].s.len() > 1 && toks[x].s.chars().all(|c| c.is_ascii_uppercase() || c == '.')).collect();
                let i = if kws.is_empty() { i } else { kws[pick_idx(a, kws.len())] };
                let mut t = toks[i].clone();
                t.s.push(' ');
                toks.insert(j, t);
            }
            _ => {
                // the digits of a token (or the whole token) become a boundary number
                let n = MUT_NUMBERS[pick_idx(b, MUT_NUMBERS.len())];
                let s = &toks[i].s;
                if let Some(st) = s.find(|c: char| c.is_ascii_digit()) {
                    let len = s[st..].chars().take_while(|c| c.is_ascii_digit()).count();
                    toks[i].s = format!("{}{}{}", &s[..st], n, &s[st + len..]);
                } else {
                    toks[i].s = n.to_string();
                }
            }
        }
    }
}

/// words (name-ish runs), whitespace runs, and single other characters
fn split_tokens(text: &str) -> Vec<Tok> {
    let wordish = |c: char| c.is_alphanumeric() || matches!(c, '_' | ':' | '?' | '$' | '-' | '.');
    let mut out: Vec<Tok> = vec![];
    let mut cur = String::new();
    let mut cur_kind = 0u8; // 1 word, 2 whitespace
    for c in text.chars() {
        let kind = if c.is_whitespace() {
            2
        } else if wordish(c) {
            1
        } else {
            0
        };
        if kind != cur_kind || kind == 0 {
            if !cur.is_empty() {
                out.push(tok(std::mem::take(&mut cur), K::Kw));
            }
            cur_kind = kind;
        }
        cur.push(c);
    }
    if !cur.is_empty() {
        out.push(tok(cur, K::Kw));
    }
    out
}

fn mutated_text(c: &MutCase) -> String {
    match &c.base {
        MutBase::Gen { q, lex, lay } => {
            let (req, _) = lexicalise(q, lex);
            let mut ch = Ch::new(lay);
            let (mut toks, ..) = print_tokens(&req, &mut ch);
            if let Query::Upd(UpdOp::Rejected(t)) = q {
                toks = t.split_whitespace().map(|w| tok(w, K::Kw)).collect();
            }
            apply_mutations(&mut toks, &c.muts);
            let mut st = LayoutStats::default();
            render(&toks, &mut ch, &mut st)
        }
        MutBase::Text { text, .. } => {
            let mut toks = split_tokens(text);
            apply_mutations(&mut toks, &c.muts);
            toks.iter().map(|t| t.s.as_str()).collect()
        }
    }
}

struct Mutations;
impl Part for Mutations {
    type Case = MutCase;
    fn name(&self) -> &'static str {
        "mutations"
    }
    fn cases(&self, tier: Tier) -> u32 {
        tier.pick(150_000, 800_000)
    }
    fn strategy(&self, _: Tier) -> BoxedStrategy<MutCase> {
        let q = prop_oneof![
            3 => query_strategy(),
            1 => (sq::dataset_strategy(4, 3), raw_op()).prop_map(|(d, r)| Query::Upd(UBuilder::new(&d).op(&r))),
        ];
        let corpus: std::sync::Arc<Vec<(String, String)>> = std::sync::Arc::new(load_dir(CORPUS_DIR).into_iter().map(|(n, b)| (n, String::from_utf8_lossy(&b).to_string())).collect());
        let gen = (q, bytes(120), bytes(200)).prop_map(|(q, lex, lay)| MutBase::Gen { q, lex, lay });
        let base: BoxedStrategy<MutBase> = if corpus.is_empty() {
            gen.boxed()
        } else {
            let from_corpus = sel().prop_map(move |i| {
                let (file, text) = corpus[pick_idx(i, corpus.len())].clone();
                MutBase::Text { file, text }
            });
            prop_oneof![1 => gen, 1 => from_corpus].boxed()
        };
        (base, proptest::collection::vec((0u8..MUT_KINDS, any::<u16>(), any::<u16>()), 1..=4)).prop_map(|(base, muts)| MutCase { base, muts }).boxed()
    }
    fn describe(&self, c: &MutCase) -> serde_json::Value {
        json!({"text": mutated_text(c), "mutations": c.muts})
    }
    fn check(&self, c: &MutCase) -> Outcome {
        let mut o = Outcome::new();
        let text = mutated_text(c);
        total_outcome(&text, &mut o);
        o.class_if(!text.is_ascii(), "non-ascii");
        o.class_if(matches!(c.base, MutBase::Text { .. }), "base:corpus-request");
        o.class_if(matches!(c.base, MutBase::Gen { .. }), "base:generated-request");
        o
    }
}

// ---- corpus / artifact replay ----

#[derive(Clone, Debug, Serialize, Deserialize)]
struct BytesCase {
    name: String,
    bytes: Vec<u8>,
}

struct FuzzCorpus;
impl Part for FuzzCorpus {
    type Case = BytesCase;
    fn name(&self) -> &'static str {
        "fuzz-corpus"
    }
    fn cases(&self, _: Tier) -> u32 {
        0
    }
    fn strategy(&self, _: Tier) -> BoxedStrategy<BytesCase> {
        Just(BytesCase { name: String::new(), bytes: vec![] }).boxed()
    }
    fn check(&self, c: &BytesCase) -> Outcome {
        let mut o = Outcome::new();
        let text = String::from_utf8_lossy(&c.bytes);
        total_outcome(&text, &mut o);
        o.class_if(c.name.starts_with("artifact:"), "libfuzzer-artifact");
        o.class_if(std::str::from_utf8(&c.bytes).is_err(), "invalid-utf8");
        o
    }
}

// ---- deep nesting, in a child process on a 2 MiB stack ----

#[derive(Clone, Debug, Serialize, Deserialize)]
struct NestCase {
    kind: String,
    n: usize,
}

fn nesting_input(kind: &str, n: usize) -> String {
    match kind {
        "group" => format!("SELECT * WHERE {}?s ?p ?o{}", "{".repeat(n), "}".repeat(n)),
        "quoted" => format!("SELECT * WHERE {{ {}<urn:s> <urn:p> <urn:o>{} <urn:p> <urn:o> }}", "<<".repeat(n), " >> <urn:p> <urn:o>".repeat(n.saturating_sub(1)) + " >>"),
        "filter_paren" => format!("SELECT * WHERE {{ ?s ?p ?o FILTER({}?o > 1{}) }}", "(".repeat(n), ")".repeat(n)),
        "group_open_only" => format!("SELECT * WHERE {}", "{".repeat(n)),
        "quoted_open_only" => format!("SELECT * WHERE {{ {}", "<<".repeat(n)),
        "filter_paren_open_only" => format!("SELECT * WHERE {{ ?s ?p ?o FILTER({}", "(".repeat(n)),
        // prefix operators and other constructs that a recursive-descent parser may recurse on without a bracket
        "filter_not" => format!("SELECT * WHERE {{ ?s ?p ?o FILTER({}?o = 1) }}", "!".repeat(n)),
        "filter_not_spaced" => format!("SELECT * WHERE {{ ?s ?p ?o FILTER({}(?o = 1)) }}", "! ".repeat(n)),
        "filter_minus" => format!("SELECT * WHERE {{ ?s ?p ?o FILTER(?o > {}1) }}", "-".repeat(n)),
        "union_chain" => format!("SELECT * WHERE {{ {}{{ ?s ?p ?o }} }}", "{ ?s ?p ?o } UNION ".repeat(n)),
        "subselect" => format!("SELECT * WHERE {{ {}?s ?p ?o{} }}", "{ SELECT * WHERE { ".repeat(n), " } }".repeat(n)),
        "bind_concat_args" => format!("SELECT * WHERE {{ ?s ?p ?o BIND(CONCAT({}?o) AS ?z) }}", "?o, ".repeat(n)),
        _ => String::new(),
    }
}

fn child_nesting(kind: &str, n: usize) -> i32 {
    install_panic_hook();
    let input = nesting_input(kind, n);
    let h = std::thread::Builder::new().stack_size(2 << 20).spawn(move || check_total_report(&input)).expect("spawn");
    match h.join() {
        Ok(r) => {
            println!("{}", json!({"failures": r.failures, "accepted": r.accepted}));
            if r.failures.is_empty() {
                0
            } else {
                3
            }
        }
        Err(_) => 4,
    }
}

struct Nesting;
impl Part for Nesting {
    type Case = NestCase;
    fn name(&self) -> &'static str {
        "deep-nesting"
    }
    fn cases(&self, _: Tier) -> u32 {
        0
    }
    fn strategy(&self, _: Tier) -> BoxedStrategy<NestCase> {
        Just(NestCase { kind: "group".into(), n: 1 }).boxed()
    }
    fn check(&self, c: &NestCase) -> Outcome {
        use std::os::unix::process::ExitStatusExt;
        let mut o = Outcome::new();
        let exe = match std::env::current_exe() {
            Ok(e) => e,
            Err(_) => {
                o.skipped.push("child-unavailable");
                return o;
            }
        };
        let child = std::process::Command::new(exe).arg("--child-nesting").arg(&c.kind).arg(c.n.to_string()).stdin(std::process::Stdio::null()).stdout(std::process::Stdio::piped()).stderr(std::process::Stdio::piped()).spawn();
        let mut child = match child {
            Ok(ch) => ch,
            Err(_) => {
                o.skipped.push("child-unavailable");
                return o;
            }
        };
        // bounded wait: a slow child is an infrastructure matter, never a violation
        let t0 = std::time::Instant::now();
        let status = loop {
            match child.try_wait() {
                Ok(Some(s)) => break Some(s),
                Ok(None) => {
                    if t0.elapsed().as_secs() > 240 {
                        let _ = child.kill();
                        let _ = child.wait();
                        break None;
                    }
                    std::thread::sleep(std::time::Duration::from_millis(20));
                }
                Err(_) => break None,
            }
        };
        let Some(status) = status else {
            o.skipped.push("child-timeout");
            return o;
        };
        let mut out = String::new();
        let mut err = String::new();
        use std::io::Read;
        if let Some(mut s) = child.stdout.take() {
            let _ = s.read_to_string(&mut out);
        }
        if let Some(mut s) = child.stderr.take() {
            let _ = s.read_to_string(&mut err);
        }
        o.inner_evals += 14;
        o.nontrivial = true;
        if let Some(sig) = status.signal() {
            let overflow = err.contains("overflowed its stack");
            let what = if overflow { "stack_overflow" } else { "killed_by_signal" };
            o.fail(
                // opener-only and balanced nesting exhaust the stack through the same recursion: one signature per recursion
                format!("c16.total.{what}.{}", c.kind.trim_end_matches("_open_only")),
                format!("parsing {} nesting levels of `{}` on a 2 MiB stack killed the process (signal {sig}): {} — input {:?}", c.n, c.kind, clip(err.trim(), 300), clip(&nesting_input(&c.kind, c.n), 120)),
            );
            return o;
        }
        match status.code() {
            Some(0) => {
                o.class_if(out.contains("parse_combined_query"), "accepted");
            }
            Some(3) => {
                let v: serde_json::Value = serde_json::from_str(out.trim()).unwrap_or(json!({}));
                for f in v.get("failures").and_then(|f| f.as_array()).cloned().unwrap_or_default() {
                    let sig = f.get(0).and_then(|s| s.as_str()).unwrap_or("c16.total.child_failure").to_string();
                    let d = f.get(1).and_then(|s| s.as_str()).unwrap_or("").to_string();
                    o.fail(sig, format!("[{} x {}] {}", c.kind, c.n, clip(&d, 600)));
                }
            }
            code => {
                o.fail(format!("c16.total.child_abnormal_exit.{}", c.kind), format!("child exit {:?}: {}", code, clip(err.trim(), 300)));
            }
        }
        o
    }
}

// ---- parsing history: the tree of a valid request must not depend on what the same thread parsed before ----

#[derive(Clone, Debug, Serialize, Deserialize)]
struct HistCase {
    q: Query,
    lex: Vec<u8>,
    lay: Vec<u8>,
    /// hostile inputs parsed between the parses of the valid request: (kind, size selector)
    hostile: Vec<(u8, u8)>,
}

fn hostile_input(kind: u8, size: u8, valid: &str) -> String {
    let n = [1usize, 40, 127, 128, 129, 130, 200, 600][size as usize % 8];
    match kind % 9 {
        0 => nesting_input("group", n),
        1 => nesting_input("quoted", n),
        2 => nesting_input("filter_paren", n),
        3 => nesting_input("group_open_only", n),
        4 => nesting_input("quoted_open_only", n),
        5 => nesting_input("filter_paren_open_only", n),
        // a valid request cut in the middle / with a stray tail (rejected after progress)
        6 => valid.chars().take(valid.chars().count() * (1 + size as usize % 7) / 8).collect(),
        7 => format!("{valid} }}"),
        _ => format!("SELECT * WHERE {{ ?s ?p \"{}", "x".repeat(n)),
    }
}

struct History;
impl Part for History {
    type Case = HistCase;
    fn name(&self) -> &'static str {
        "history"
    }
    fn cases(&self, tier: Tier) -> u32 {
        tier.pick(5_000, 40_000)
    }
    fn strategy(&self, _: Tier) -> BoxedStrategy<HistCase> {
        (query_strategy(), bytes(160), bytes(240), proptest::collection::vec((0u8..9, 0u8..8), 1..=12)).prop_map(|(q, lex, lay, hostile)| HistCase { q, lex, lay, hostile }).boxed()
    }
    fn describe(&self, c: &HistCase) -> serde_json::Value {
        let (req, _) = lexicalise(&c.q, &c.lex);
        let text = print_request(&req, &c.lay).text;
        json!({"valid_request": text, "hostile_inputs_between": c.hostile.iter().map(|(k, z)| clip(&hostile_input(*k, *z, &text), 60)).collect::<Vec<_>>()})
    }
    fn check(&self, c: &HistCase) -> Outcome {
        // one fresh thread per case: whatever state a parser keeps per thread starts clean, so a saved case replays alone
        let c2 = c.clone();
        let h = std::thread::Builder::new().stack_size(64 << 20).spawn(move || {
            install_panic_hook();
            let mut o = Outcome::new();
            let c = &c2;
            let (req, _) = lexicalise(&c.q, &c.lex);
            let exp = expected_body(&req);
            let text = print_request(&req, &c.lay).text;
            let first = match parse_mirror(&text, false) {
                Ok((_, b)) => b,
                Err(_) => {
                    // the roundtrip part judges valid requests parsed in isolation
                    o.skipped.push("valid-request-rejected-in-isolation");
                    return o;
                }
            };
            if diff_body(&exp, &first).is_some() {
                o.skipped.push("valid-request-differs-in-isolation");
                return o;
            }
            let mut deep = false;
            for (i, (k, z)) in c.hostile.iter().enumerate() {
                let bad = hostile_input(*k, *z, &text);
                deep |= *k % 9 < 6 && [129usize, 130, 200, 600].contains(&[1usize, 40, 127, 128, 129, 130, 200, 600][*z as usize % 8]);
                // every parser sees the hostile input (its own verdict belongs to the totality parts)
                let r = check_total_report(&bad);
                o.inner_evals += r.parsers_run as u64 + 1;
                match parse_mirror(&text, false) {
                    Ok((_, b)) if b == first => {}
                    Ok((_, b)) => {
                        o.fail("c16.faithful.tree_depends_on_earlier_inputs", format!("after {} other inputs on the same thread (last: {:?}) the same text parses to a different tree: {:?}\n--- text ---\n{}", i + 1, clip(&bad, 80), diff_body(&first, &b), text));
                        return o;
                    }
                    Err((what, d)) => {
                        let sig = if let Some(ps) = what.strip_prefix("panic:") { ps.to_string() } else { "c16.faithful.rejected_after_earlier_inputs".to_string() };
                        o.fail(sig, format!("a valid request that parsed on this thread before is rejected after {} other inputs (last: {:?}): {what}: {d}\n--- text ---\n{}", i + 1, clip(&bad, 80), text));
                        return o;
                    }
                }
            }
            o.class_if(deep, "over-deep-input-in-between");
            o.class_if(c.hostile.len() >= 4, "hostile>=4");
            o.nontrivial = deep && c.hostile.len() >= 4;
            o
        });
        match h.map(|h| h.join()) {
            Ok(Ok(o)) => o,
            _ => {
                let mut o = Outcome::new();
                o.fail("c16.total.history_thread_died", "the thread parsing a history of inputs died (panic outside the parser guards or stack overflow)");
                o
            }
        }
    }
}

// ---- libFuzzer campaign (thorough tier) ----

#[derive(Clone, Debug, Serialize, Deserialize)]
struct FuzzCase {
    runs_per_job: u64,
    jobs: u32,
    seed: u64,
}

fn copy_dir(from: &str, to: &str) -> std::io::Result<u32> {
    std::fs::create_dir_all(to)?;
    let mut n = 0;
    for (name, b) in load_dir(from) {
        std::fs::write(format!("{to}/{name}"), b)?;
        n += 1;
    }
    Ok(n)
}

struct LibFuzzer;
impl Part for LibFuzzer {
    type Case = FuzzCase;
    fn name(&self) -> &'static str {
        "libfuzzer"
    }
    fn cases(&self, _: Tier) -> u32 {
        0
    }
    fn serial(&self) -> bool {
        true
    }
    fn strategy(&self, _: Tier) -> BoxedStrategy<FuzzCase> {
        Just(FuzzCase { runs_per_job: 0, jobs: 0, seed: 1 }).boxed()
    }
    fn check(&self, c: &FuzzCase) -> Outcome {
        let mut o = Outcome::new();
        if c.jobs == 0 {
            return o;
        }
        let cargo = |args: &[String]| {
            let mut cmd = std::process::Command::new("sh");
            // deep recursion on fuzz inputs is the business of the deep-nesting part: give the fuzzer a large stack
            cmd.arg("-c").arg("ulimit -s 1048576 2>/dev/null || ulimit -s unlimited 2>/dev/null; exec cargo \"$@\"").arg("cargo");
            cmd.args(args).current_dir("/verif/harness").env("CARGO_NET_OFFLINE", "true").env_remove("RUSTFLAGS").env_remove("CARGO_TARGET_DIR");
            cmd.stdin(std::process::Stdio::null()).stdout(std::process::Stdio::piped()).stderr(std::process::Stdio::piped());
            cmd
        };
        let s = |x: &str| x.to_string();
        // build once (the parallel jobs then find an up-to-date binary)
        let b = cargo(&[s("+nightly"), s("fuzz"), s("build"), s("--fuzz-dir"), s("/verif/fuzz"), s("parse_total")]).output();
        match b {
            Ok(out) if out.status.success() => {}
            Ok(out) => {
                eprintln!("cargo fuzz build failed: {}", String::from_utf8_lossy(&out.stderr));
                o.skipped.push("libfuzzer-build-failed");
                return o;
            }
            Err(e) => {
                eprintln!("cargo fuzz not available: {e}");
                o.skipped.push("libfuzzer-unavailable");
                return o;
            }
        }
        let before: BTreeSet<String> = load_dir(ARTIFACT_DIR).into_iter().map(|(n, _)| n).collect();
        let work = "/verif/fuzz/corpus-work/parse_total";
        let _ = std::fs::remove_dir_all(work);
        let _ = std::fs::create_dir_all(ARTIFACT_DIR);
        let flags = |dir: &str, runs: u64, seed: u64| -> Vec<String> {
            vec![dir.to_string(), format!("-runs={runs}"), format!("-seed={seed}"), s("-max_len=4096"), s("-len_control=0"), s("-print_final_stats=1"), s("-dict=/verif/fuzz/sparql.dict"), s("-timeout=120"), s("-rss_limit_mb=4096")]
        };
        // `cargo fuzz run` keeps the build-directory lock while the target runs, so concurrent invocations would
        // serialise: one `cargo fuzz run ... -runs=0` pass (loads the seed corpus through the target, prints the
        // binary it runs), then the jobs execute that same binary with the same flags in parallel.
        let probe_dir = format!("{work}/probe");
        if copy_dir(CORPUS_DIR, &probe_dir).is_err() {
            o.skipped.push("libfuzzer-corpus-copy-failed");
            return o;
        }
        let mut args = vec![s("+nightly"), s("fuzz"), s("run"), s("--fuzz-dir"), s("/verif/fuzz"), s("parse_total")];
        let mut fl = flags(&probe_dir, 0, 1);
        args.push(fl.remove(0));
        args.push(s("--"));
        args.extend(fl);
        let probe = cargo(&args).output();
        let mut binary = None;
        if let Ok(out) = &probe {
            let err = String::from_utf8_lossy(&out.stderr);
            for l in err.lines() {
                if let Some(p) = l.trim_start().strip_prefix("Running `") {
                    binary = p.split_whitespace().next().map(|x| x.trim_end_matches('`').to_string());
                }
                if let Some(v) = l.strip_prefix("stat::number_of_executed_units:") {
                    o.inner_evals += v.trim().parse::<u64>().unwrap_or(0);
                }
            }
            if !out.status.success() {
                eprintln!("[libfuzzer] seed-corpus pass failed:\n{}", clip(&err, 3000));
            }
        }
        let Some(binary) = binary else {
            o.skipped.push("libfuzzer-binary-not-found");
            return o;
        };
        eprintln!("[libfuzzer] binary {binary}");
        let mut children = vec![];
        for j in 0..c.jobs {
            let dir = format!("{work}/job{j}");
            if copy_dir(CORPUS_DIR, &dir).is_err() {
                o.skipped.push("libfuzzer-corpus-copy-failed");
                return o;
            }
            let seed = if c.seed == 0 { 1 } else { c.seed } + j as u64 * 7919;
            let mut cmd = std::process::Command::new("sh");
            cmd.arg("-c").arg("ulimit -s 1048576 2>/dev/null || ulimit -s unlimited 2>/dev/null; exec \"$@\"").arg("sh").arg(&binary).arg(format!("-artifact_prefix={ARTIFACT_DIR}/"));
            cmd.args(flags(&dir, c.runs_per_job, seed)).current_dir("/verif/harness");
            // libFuzzer is chatty on stderr: a file per job (a pipe would fill up and stall the job)
            let Ok(logf) = std::fs::File::create(format!("{work}/job{j}.log")) else {
                o.skipped.push("libfuzzer-log-file-failed");
                return o;
            };
            cmd.stdin(std::process::Stdio::null()).stdout(std::process::Stdio::null()).stderr(logf);
            match cmd.spawn() {
                Ok(ch) => children.push((j, ch)),
                Err(e) => {
                    eprintln!("spawn fuzz job: {e}");
                    o.skipped.push("libfuzzer-unavailable");
                }
            }
        }
        let mut crashed = false;
        for (j, mut ch) in children {
            match ch.wait() {
                Ok(status) => {
                    let err = std::fs::read(format!("{work}/job{j}.log")).map(|b| String::from_utf8_lossy(&b).to_string()).unwrap_or_default();
                    let mut units = 0u64;
                    for l in err.lines() {
                        if let Some(v) = l.strip_prefix("stat::number_of_executed_units:") {
                            units = v.trim().parse().unwrap_or(0);
                        }
                        if l.starts_with("C16-VIOLATION") || l.contains("ERROR: libFuzzer") || l.starts_with("stat::") || l.starts_with("Done ") {
                            eprintln!("[libfuzzer job {j}] {}", clip(l, 1500));
                        }
                    }
                    if units == 0 {
                        // no final stats: the job died; count what the last status line reports
                        for l in err.lines().rev() {
                            if let Some(r) = l.strip_prefix('#') {
                                units = r.split_whitespace().next().and_then(|x| x.parse().ok()).unwrap_or(0);
                                break;
                            }
                        }
                    }
                    o.inner_evals += units;
                    if !status.success() {
                        crashed = true;
                    }
                }
                Err(_) => o.skipped.push("libfuzzer-wait-failed"),
            }
        }
        o.nontrivial = o.inner_evals > 0;
        // replay every new artifact on the stable build before calling it a violation
        for (name, bytes) in load_dir(ARTIFACT_DIR) {
            if before.contains(&name) {
                continue;
            }
            if name.starts_with("timeout-") || name.starts_with("slow-unit-") {
                o.skipped.push("libfuzzer-slow-unit-not-a-violation");
                continue;
            }
            if name.starts_with("oom-") {
                o.skipped.push("libfuzzer-oom-not-judged");
                continue;
            }
            let text = String::from_utf8_lossy(&bytes).to_string();
            let r = check_total_report(&text);
            if r.failures.is_empty() {
                o.fail("c16.fuzz.crash_not_reproduced_in_process", format!("artifact {ARTIFACT_DIR}/{name} crashed the fuzz target but passes check_total on the stable build; bytes={:?}", clip(&text, 400)));
            }
            for (sig, d) in r.failures {
                o.fail(sig, format!("libFuzzer artifact {name} (replay case: part fuzz-corpus, bytes {:?}): {d}", bytes));
            }
        }
        if crashed && o.failures.is_empty() {
            o.skipped.push("libfuzzer-job-ended-abnormally-without-new-artifact");
        }
        o
    }
}

// ------------------------------------------------------------------------------------------

fn main() {
    let args: Vec<String> = std::env::args().collect();
    if args.len() >= 4 && args[1] == "--child-nesting" {
        std::process::exit(child_nesting(&args[2], args[3].parse().unwrap_or(1)));
    }
    if args.len() >= 3 && args[1] == "--probe" {
        // debugging aid: run the totality oracle on a file and print the report
        install_panic_hook();
        let b = std::fs::read(&args[2]).expect("read");
        let r = check_total_report(&String::from_utf8_lossy(&b));
        println!("{r:#?}");
        std::process::exit(if r.failures.is_empty() { 0 } else { 1 });
    }
    let mut s = Session::start(
        "C16",
        "exploration",
        "TOTALITY (kvh::parse_oracle::check_total = 14 public parsers under catch_unwind; panic = violation; for parse_combined_query / \
         parse_combined_query_with_options(_,true) / parse_sparql_query Ok implies nothing but whitespace/comments is left): \
         part `sweep` (exhaustive): every request of /verif/corpus/parse_total (150 strings extracted from the repo's tests/examples + 16 hand-written clause samples: SELECT, six update forms, \
         RULE/PROB, REGISTER, RETRIEVE, MODEL / NEURAL RELATION / TRAIN declarations, ML.PREDICT, window specs) x every char-boundary offset x {insert é, €, 😀, U+0301, U+00A0, U+2028; delete the char; \
         duplicate the token starting there; truncate there}; part `mutations`: 1-4 token-level edits (delete/duplicate/swap/replace/insert dictionary token, multi-byte char inside a token, truncate, cut token, change case) \
         of generated valid requests printed with random layout; part `deep-nesting`: `{`xN, `<<`xN, `(`xN in FILTER (balanced and opener-only), N in 1e2..1e5, child process, 2 MiB stack; \
         part `history`: a valid generated request is parsed, then 1-12 hostile inputs (nesting of six kinds at 1..600 levels incl. 128/129, truncated / over-long variants of the request, unterminated literal) go through every parser ON THE SAME (fresh) THREAD, and after each of them the request must parse to the same tree again; part `fuzz-corpus`: replay of the corpus and of libFuzzer artifacts; part `libfuzzer` (thorough): 4 cargo-fuzz jobs on target parse_total (same oracle), new artifacts replayed in-process. \
         FAITHFULNESS part `roundtrip`: syntax trees from the C01/C03 generators (SELECT with GRAPH/UNION/sub-SELECT/FILTER/BIND/VALUES/modifiers/dataset clauses; six update forms) are given exact lexemes by a `lex` choice vector \
         ($x/?x, four quote forms, language tags, datatypes, prefixed names with dots/escapes/%XX/colons/non-ASCII, IRIs with \\u escapes, numeric forms, booleans, blank nodes, RDF-star quoted triples, `a`) and printed twice with independent `lay` choice vectors \
         (spaces/tabs/CR/LF/none where the token grammar allows, # comments ended by LF, CR or CRLF between any two tokens, keyword case, optional WHERE, optional dots, dangling `;`, `;`/`,` abbreviations, interleaved FROM/FROM NAMED, shared or split GRAPH blocks, redundant filter parentheses); \
         the borrowed AST is converted to an owned mirror and compared with the tree expected from the generated one (nesting, order, exact lexemes, filter operator trees, VALUES rows, modifiers, dataset clauses, templates, graph names, PREFIX map); both printings and all three entry points must agree. \
         Non-trivial: roundtrip = depth >= 3 with GRAPH/UNION/sub-SELECT and a comment / glued tokens / odd whitespace; totality = the input starts with a request keyword and is rejected. distinct = distinct case.",
    );
    s.assume("the expected AST is built from the documented normal form of shared::query (one member group = the member, empty group = Unit, `a` and every lexeme kept as written, BIND string arguments without their quotes, aggregate names upper-case); both sides are normalised only by merging adjacent BGP siblings of one group");
    s.assume("raw text slices kept by the AST (comparison operands, quoted triples) are compared token-wise with the harness' own tokeniser — whitespace/comments inside such a slice are layout; DELETE WHERE's implied pattern is compared as the flattened list of (graph, triple) pairs");
    s.assume("layout choices are limited to what the SPARQL token grammar / the repo's tests document: no dot after FILTER/BIND/VALUES, single-variable VALUES without parentheses, UNION operands braced");
    s.assume("a panic is observed through catch_unwind with the harness dev profile (overflow checks on, as in the project's own test profile); stack exhaustion is observed as the death of a child process whose parser thread has a 2 MiB stack");
    let tier = s.tier;

    let corpus: Vec<(String, String)> = load_dir(CORPUS_DIR).into_iter().map(|(n, b)| (n, String::from_utf8_lossy(&b).to_string())).collect();
    if corpus.is_empty() {
        eprintln!("corpus {CORPUS_DIR} is empty");
    }
    s.run_enum(&Sweep, sweep_cases(corpus), true);
    s.run(&Roundtrip);
    s.run(&Mutations);
    s.run(&History);
    let mut nest = vec![];
    for kind in ["group", "quoted", "filter_paren", "group_open_only", "quoted_open_only", "filter_paren_open_only", "filter_not", "filter_not_spaced", "filter_minus", "union_chain", "subselect", "bind_concat_args"] {
        for n in [100usize, 1_000, 10_000, 100_000] {
            nest.push(NestCase { kind: kind.into(), n });
        }
    }
    s.run_enum(&Nesting, nest.into_iter(), true);
    let mut files: Vec<BytesCase> = load_dir(CORPUS_DIR).into_iter().map(|(n, b)| BytesCase { name: format!("corpus:{n}"), bytes: b }).collect();
    files.extend(load_dir(ARTIFACT_DIR).into_iter().map(|(n, b)| BytesCase { name: format!("artifact:{n}"), bytes: b }));
    s.run_enum(&FuzzCorpus, files.into_iter(), true);
    if tier == Tier::Thorough {
        let seed = if s.seed == 0 { 1 } else { s.seed };
        s.run_enum(&LibFuzzer, vec![FuzzCase { runs_per_job: 1_250_000, jobs: 4, seed }].into_iter(), false);
    }
    std::process::exit(s.finish());
}
