//! C11 — multi-window results are joins of what each window itself reported.
//! Two (sometimes three) windows on distinct streams, per-window blocks that may share vocabulary,
//! optional static background data. Oracle (existential, sound for every synchronisation policy): every
//! emitted row, restricted to the variables of block k, must be an answer of block k over SOME content
//! that window k itself reported so far (probe windows with identical parameters); the static part must be
//! an answer of the static patterns over the static data alone.

use kolibrie::rsp::s2r::{CSPARQLWindow, ContentContainer, Report, ReportStrategy, Tick};
use kolibrie::rsp::simple_r2r::SimpleR2R;
use kolibrie::rsp_engine::{OperationMode, QueryExecutionMode, RSPBuilder, RSPEngine, ResultConsumer};
use kvh::engine::*;
use kvh::sparql::*;
use proptest::prelude::*;
use serde::{Deserialize, Serialize};
use serde_json::json;
use shared::query::{Fallback, SyncPolicy};
use shared::triple::Triple;
use std::collections::BTreeSet;
use std::sync::{Arc, Mutex};

const TYPE: &str = RDF_TYPE;
type Row = Vec<(String, String)>;

#[derive(Clone, Debug, Serialize, Deserialize)]
struct Win {
    width: usize,
    slide: usize,
    patterns: Vec<[PT; 3]>,
}

#[derive(Clone, Debug, Serialize, Deserialize)]
struct Case {
    windows: Vec<Win>,
    static_patterns: Vec<[PT; 3]>,
    static_data: Vec<[String; 3]>,
    policy: u8, // 0 Wait, 1 Steal, 2 Timeout/Steal, 3 Timeout/Drop
    multi_thread: bool,
    /// (stream index, gap to the previous event of ANY stream, triple); timestamps are global and non-decreasing
    events: Vec<(usize, usize, [String; 3])>,
}

fn iri(x: &str) -> String {
    format!("http://e/{x}")
}

fn term_txt(t: &PT) -> String {
    match t {
        PT::Var(v) => format!("?{v}"),
        PT::C(c) => format!("<{}>", c.lex()),
    }
}

/// Terms are kept in lexical form; an object that is not an absolute IRI travels as a plain literal
/// (the engine reports literal values bare, exactly as the reference evaluator sees them).
fn ntriple(t: &[String; 3]) -> String {
    if t[2].starts_with("http") {
        format!("<{}> <{}> <{}> .", t[0], t[1], t[2])
    } else {
        format!("<{}> <{}> \"{}\" .", t[0], t[1], t[2])
    }
}

fn norm_row(r: &Row) -> Row {
    let mut v: Row = r.iter().map(|(k, x)| (k.trim_start_matches('?').to_string(), x.trim_start_matches('<').trim_end_matches('>').to_string())).collect();
    v.sort();
    v
}

fn pt_strategy(pos: usize) -> BoxedStrategy<PT> {
    let vars = prop_oneof![Just("x"), Just("y"), Just("z")].prop_map(|v| PT::Var(v.to_string()));
    let c: BoxedStrategy<PT> = match pos {
        1 => prop_oneof![Just(iri("p0")), Just(iri("p1")), Just(TYPE.to_string())].prop_map(|i| PT::C(Tm::Iri(i))).boxed(),
        _ => (0usize..6).prop_map(|i| PT::C(Tm::Iri(if i < 4 { iri(&format!("s{i}")) } else { iri(&format!("C{}", i - 4)) }))).boxed(),
    };
    let w = if pos == 1 { 1 } else { 4 };
    prop_oneof![w => vars, 2 => c].boxed()
}

fn pattern() -> impl Strategy<Value = [PT; 3]> {
    (pt_strategy(0), pt_strategy(1), pt_strategy(2)).prop_map(|(s, p, o)| [s, p, o])
}

fn triple() -> impl Strategy<Value = [String; 3]> {
    (0usize..4, 0usize..3, 0usize..6).prop_map(|(s, p, o)| {
        let pred = [iri("p0"), iri("p1"), TYPE.to_string()][p].clone();
        let obj = if p == 2 { iri(&format!("C{}", o % 2)) } else { iri(&format!("s{}", o % 4)) };
        [iri(&format!("s{s}")), pred, obj]
    })
}


fn block_txt(p: &[[PT; 3]]) -> String {
    p.iter().map(|p| format!("{} {} {} .", term_txt(&p[0]), term_txt(&p[1]), term_txt(&p[2]))).collect::<Vec<_>>().join(" ")
}

fn query_text(c: &Case) -> String {
    let mut s = String::from("REGISTER RSTREAM <http://out/stream> AS SELECT * ");
    for (i, w) in c.windows.iter().enumerate() {
        s.push_str(&format!("FROM NAMED WINDOW :w{i} ON :stream{i} [RANGE {} STEP {}] ", w.width, w.slide));
    }
    s.push_str("WHERE { ");
    for (i, w) in c.windows.iter().enumerate() {
        s.push_str(&format!("WINDOW :w{i} {{ {} }} ", block_txt(&w.patterns)));
    }
    s.push_str(&block_txt(&c.static_patterns));
    s.push_str(" }");
    s
}

fn policy(c: &Case) -> SyncPolicy {
    match c.policy % 4 {
        0 => SyncPolicy::Wait,
        1 => SyncPolicy::Steal,
        2 => SyncPolicy::Timeout { duration: std::time::Duration::from_millis(2), fallback: Fallback::Steal },
        _ => SyncPolicy::Timeout { duration: std::time::Duration::from_millis(2), fallback: Fallback::Drop },
    }
}

fn vars_of(p: &[[PT; 3]]) -> BTreeSet<String> {
    let mut v = BTreeSet::new();
    for t in p {
        for x in t {
            if let PT::Var(n) = x {
                v.insert(n.clone());
            }
        }
    }
    v
}

fn answers(patterns: &[[PT; 3]], facts: &BTreeSet<[String; 3]>) -> BTreeSet<Row> {
    let lex = LexData { default: facts.clone(), named: Default::default() };
    let ctx = EvalCtx::new(&lex, &[], &[]);
    eval_group(&[Elem::Bgp(patterns.to_vec())], &ctx, &Active::Default).into_iter().map(|s| s.into_iter().collect::<Row>()).collect()
}

fn restrict(row: &Row, vars: &BTreeSet<String>) -> Row {
    let mut r: Row = row.iter().filter(|(k, _)| vars.contains(k)).cloned().collect();
    r.sort();
    r
}

struct Probe {
    w: CSPARQLWindow<usize>,
    fired: Arc<Mutex<Vec<Vec<usize>>>>,
}

fn mk_probe(width: usize, slide: usize) -> Probe {
    let mut report = Report::new();
    report.add(ReportStrategy::OnWindowClose);
    let mut w: CSPARQLWindow<usize> = CSPARQLWindow::new(width, slide, report, Tick::TimeDriven, "probe".to_string());
    let fired: Arc<Mutex<Vec<Vec<usize>>>> = Arc::new(Mutex::new(vec![]));
    let f2 = fired.clone();
    w.register_callback(Box::new(move |content: ContentContainer<usize>| {
        f2.lock().unwrap().push(content.iter().cloned().collect());
    }));
    Probe { w, fired }
}

fn check_case(c: &Case) -> Outcome {
    let mut o = Outcome::new();
    let nw = c.windows.len();
    let sink: Arc<Mutex<Vec<Row>>> = Arc::new(Mutex::new(vec![]));
    let s2 = sink.clone();
    let q = query_text(c);
    let mode = if c.multi_thread { OperationMode::MultiThread } else { OperationMode::SingleThread };
    // contents reported by each window so far (as sets of triples), via probes
    let mut probes: Vec<Probe> = c.windows.iter().map(|w| mk_probe(w.width, w.slide)).collect();
    let mut reported: Vec<Vec<BTreeSet<[String; 3]>>> = vec![vec![]; nw];
    let static_set: BTreeSet<[String; 3]> = c.static_data.iter().cloned().collect();
    let run = catch(|| -> Result<Vec<(usize, Row)>, String> {
        let consumer = ResultConsumer {
            function: Arc::new(move |r: Row| {
                s2.lock().unwrap().push(r);
            }),
        };
        let mut engine: RSPEngine<Triple, Row> = RSPBuilder::new()
            .add_rsp_ql_query(&q)
            .add_consumer(consumer)
            .add_r2r(Box::new(SimpleR2R::with_execution_mode(QueryExecutionMode::Volcano)))
            .set_operation_mode(mode)
            .set_sync_policy(policy(c))
            .build()?;
        if !c.static_data.is_empty() {
            let nt: String = c.static_data.iter().map(|t| format!("{}\n", ntriple(t))).collect();
            engine.add_static_ntriples(&nt);
        }
        // emitted rows tagged with the number of events fed before they were observed
        let mut out: Vec<(usize, Row)> = vec![];
        let mut seen = 0;
        let mut ts = 0usize;
        for (i, (stream, gap, t)) in c.events.iter().enumerate() {
            ts += gap;
            for tr in engine.parse_data(&ntriple(t)) {
                engine.add_to_stream(&format!("stream{stream}"), tr, ts);
            }
            if c.multi_thread {
                // give the worker and coordinator threads a chance; rows are attributed conservatively anyway
                std::thread::yield_now();
            }
            let all = sink.lock().unwrap();
            for r in all[seen..].iter() {
                out.push((i, norm_row(r)));
            }
            seen = all.len();
        }
        if !c.multi_thread {
            engine.process_single_thread_window_results();
        } else {
            // let in-flight firings drain: wait until the row count is stable for a few polls (bounded)
            let mut stable = 0;
            let mut last = sink.lock().unwrap().len();
            for _ in 0..400 {
                std::thread::sleep(std::time::Duration::from_micros(500));
                let n = sink.lock().unwrap().len();
                if n == last {
                    stable += 1;
                    if stable > 20 {
                        break;
                    }
                } else {
                    stable = 0;
                    last = n;
                }
            }
        }
        drop(engine);
        let all = sink.lock().unwrap();
        for r in all[seen..].iter() {
            out.push((c.events.len(), norm_row(r)));
        }
        Ok(out)
    });
    o.inner_evals += 1;
    let rows = match run {
        Err(site) => {
            o.panic(&format!("multi-window run of {q}"), &site);
            return o;
        }
        Ok(Err(e)) => {
            o.fail("c11.build_failed", format!("engine construction failed: {e}\n{q}"));
            return o;
        }
        Ok(Ok(r)) => r,
    };
    // probe contents per event index
    let mut reported_upto: Vec<Vec<usize>> = vec![]; // per event: number of contents reported per window after this event
    {
        let mut ts = 0usize;
        for (i, (stream, gap, _)) in c.events.iter().enumerate() {
            ts += gap;
            let p = &mut probes[*stream];
            p.w.add_to_window(i, ts);
            for content in std::mem::take(&mut *p.fired.lock().unwrap()) {
                reported[*stream].push(content.iter().map(|e| c.events[*e].2.clone()).collect());
            }
            reported_upto.push(reported.iter().map(|r| r.len()).collect());
        }
    }
    let block_vars: Vec<BTreeSet<String>> = c.windows.iter().map(|w| vars_of(&w.patterns)).collect();
    let static_vars = vars_of(&c.static_patterns);
    let static_answers = if c.static_patterns.is_empty() { BTreeSet::new() } else { answers(&c.static_patterns, &static_set) };
    // everything that ever travelled on any stream, plus static data (used only to classify a failure)
    let all_stream: BTreeSet<[String; 3]> = c.events.iter().map(|e| e.2.clone()).collect();
    let shared_vocab = {
        let preds = |p: &[[PT; 3]]| -> BTreeSet<String> { p.iter().map(|t| term_txt(&t[1])).collect() };
        let mut sh = false;
        for a in 0..nw {
            for b in a + 1..nw {
                if preds(&c.windows[a].patterns).intersection(&preds(&c.windows[b].patterns)).next().is_some() {
                    sh = true;
                }
            }
        }
        sh
    };
    o.class_if(shared_vocab, "shared-vocabulary");
    o.class_if(!c.static_patterns.is_empty(), "static-patterns");
    {
        let wv: BTreeSet<String> = c.windows.iter().flat_map(|w| vars_of(&w.patterns)).collect();
        o.class_if(c.static_patterns.iter().any(|p| !vars_of(std::slice::from_ref(p)).is_disjoint(&wv)), "static-pattern-joins-a-window-variable");
    }
    if c.static_patterns.len() >= 2 {
        let wv: BTreeSet<String> = c.windows.iter().flat_map(|w| vars_of(&w.patterns)).collect();
        let disconnected = c.static_patterns.iter().any(|p| vars_of(std::slice::from_ref(p)).is_disjoint(&wv));
        o.class_if(disconnected, "static-pattern-sharing-no-variable-with-any-window");
    }
    o.class_if(c.multi_thread, "multi-thread");
    o.class(["policy:wait", "policy:steal", "policy:timeout-steal", "policy:timeout-drop"][c.policy as usize % 4]);
    o.class_if(!rows.is_empty(), "rows-emitted");
    let all_fired = reported.iter().all(|r| !r.is_empty());
    o.class_if(all_fired, "all-windows-fired");
    o.nontrivial = all_fired && shared_vocab && !rows.is_empty();
    for (at, row) in &rows {
        for k in 0..nw {
            let upto = if *at >= c.events.len() { reported[k].len() } else { reported_upto[*at][k] };
            let r = restrict(row, &block_vars[k]);
            if r.len() != block_vars[k].len() {
                o.fail("c11.row.block_variable_unbound", format!("emitted row {:?} does not bind every variable of WINDOW :w{k} {:?}\n{q}", row, block_vars[k]));
                return o;
            }
            let explained = reported[k][..upto].iter().any(|content| answers(&c.windows[k].patterns, content).contains(&r));
            if !explained {
                // classification of the failure
                let own_stream: BTreeSet<[String; 3]> = c.events.iter().filter(|e| e.0 == k).map(|e| e.2.clone()).collect();
                // union of everything ANY window has reported so far: the shared-store leak (known finding C11-F1)
                let mut any_reported: BTreeSet<[String; 3]> = BTreeSet::new();
                for (w, contents) in reported.iter().enumerate() {
                    let n = if *at >= c.events.len() { contents.len() } else { reported_upto[*at][w] };
                    for content in &contents[..n] {
                        any_reported.extend(content.iter().cloned());
                    }
                }
                // what the OTHER windows have reported so far
                let mut others_reported: BTreeSet<[String; 3]> = BTreeSet::new();
                for (w, contents) in reported.iter().enumerate() {
                    if w == k {
                        continue;
                    }
                    let n = if *at >= c.events.len() { contents.len() } else { reported_upto[*at][w] };
                    for content in &contents[..n] {
                        others_reported.extend(content.iter().cloned());
                    }
                }
                // C11-F1 (one shared store) explains a row that is an answer over ONE report of window k plus items other
                // windows reported; a row that needs items of two different reports of window k itself is something else
                let shared_store_explains = reported[k][..upto].iter().any(|content| answers(&c.windows[k].patterns, &content.union(&others_reported).cloned().collect()).contains(&r))
                    || (upto == 0 && answers(&c.windows[k].patterns, &others_reported).contains(&r));
                let sig = if shared_store_explains {
                    "c11.block.answer_uses_other_windows_content"
                } else if answers(&c.windows[k].patterns, &any_reported).contains(&r) {
                    "c11.block.mixes_several_reports_of_its_own_window"
                } else if answers(&c.windows[k].patterns, &own_stream).contains(&r) {
                    "c11.block.answer_not_within_one_reported_content"
                } else if answers(&c.windows[k].patterns, &all_stream).contains(&r) {
                    "c11.block.matches_unreported_items_of_another_stream"
                } else if answers(&c.windows[k].patterns, &all_stream.union(&static_set).cloned().collect()).contains(&r) {
                    "c11.block.matches_static_data"
                } else {
                    "c11.block.invented_binding"
                };
                o.fail(
                    sig,
                    format!(
                        "emitted row {:?}: its restriction {:?} to WINDOW :w{k} is not an answer of that block over any content window {k} has reported ({} contents so far)\nquery: {q}\nstatic: {:?}\nevents (stream, gap, triple): {:?}\npolicy {} multi_thread {}",
                        row, r, upto, c.static_data, c.events, c.policy % 4, c.multi_thread
                    ),
                );
            }
        }
        if !c.static_patterns.is_empty() {
            let r = restrict(row, &static_vars);
            if !static_answers.contains(&r) {
                o.fail("c11.static.part_not_an_answer_over_static_data", format!("emitted row {:?}: its static part {:?} is not an answer of the static patterns over the static data {:?}\nquery: {q}\nevents: {:?}", row, r, c.static_data, c.events));
            }
        }
    }
    o
}

fn window() -> impl Strategy<Value = Win> {
    (1usize..=6, 1usize..=6, proptest::collection::vec(pattern(), 1..=2), proptest::bool::weighted(0.6)).prop_map(|(width, slide, mut patterns, single)| {
        if single {
            patterns.truncate(1);
        }
        if !patterns.iter().any(|p| p.iter().any(|t| matches!(t, PT::Var(_)))) {
            patterns[0][0] = PT::Var("x".into());
        }
        // constant predicates in window blocks keep the plans index-friendly; variable predicates stay allowed sometimes
        Win { width, slide, patterns }
    })
}

struct Multi;
impl Part for Multi {
    type Case = Case;
    fn name(&self) -> &'static str {
        "multi-window"
    }
    fn cases(&self, tier: Tier) -> u32 {
        tier.pick(40_000, 400_000)
    }
    fn strategy(&self, tier: Tier) -> BoxedStrategy<Case> {
        let max_ev = tier.pick(24usize, 40usize);
        (
            proptest::collection::vec(window(), 2..=3),
            proptest::collection::vec(pattern(), 0..=2),
            proptest::collection::vec(triple(), 0..=4),
            0u8..4,
            proptest::bool::weighted(0.15),
            proptest::collection::vec((0usize..3, prop_oneof![3 => 0usize..=1, 2 => 1usize..=2, 1 => 3usize..=8], triple()), 4..=max_ev),
            proptest::bool::weighted(0.5),
        )
            .prop_map(|(mut windows, mut static_patterns, static_data, policy, multi_thread, events, use_static)| {
                let nw = windows.len();
                let events: Vec<(usize, usize, [String; 3])> = events.into_iter().map(|(s, g, t)| (s % nw, g, t)).collect();
                // Patterns are derived from items that really travel (on ANY stream: shared vocabulary), and each block
                // gets its own variable names unless its first pattern is chosen to join with the previous block.
                let lift = |p: &mut [PT; 3], t: &[String; 3], suffix: &str| {
                    for i in 0..3 {
                        match &p[i] {
                            PT::Var(v) => p[i] = PT::Var(format!("{}{}", v.trim_end_matches(char::is_numeric), suffix)),
                            // keep constants mostly in predicate position so that blocks match whole classes of items
                            PT::C(_) if i != 1 && (t[0].len() + t[2].len() + i) % 4 != 0 => p[i] = PT::Var(format!("{}{}", ["s", "p", "o"][i], suffix)),
                            PT::C(_) => p[i] = PT::C(Tm::Iri(t[i].clone())),
                        }
                    }
                };
                for (k, w) in windows.iter_mut().enumerate() {
                    let share = k > 0 && w.width % 3 == 0; // ~1/3 of the later blocks join with block 0 on ?x0
                    for (j, p) in w.patterns.iter_mut().enumerate() {
                        let src = &events[(k * 7 + j * 3 + w.slide) % events.len()].2;
                        lift(p, src, &k.to_string());
                    }
                    if share {
                        if let PT::Var(_) = w.patterns[0][0] {
                            w.patterns[0][0] = PT::Var("x0".into());
                        }
                    }
                }
                for (j, p) in static_patterns.iter_mut().enumerate() {
                    if !static_data.is_empty() {
                        let src = &static_data[j % static_data.len()];
                        // a second static pattern has its own variables: it is connected to the rest of the query only if it is
                        // made to join below (a static pattern that shares nothing with any window still constrains the answer)
                        lift(p, src, ["s", "t"][j % 2]);
                        if let PT::Var(_) = p[0] {
                            // join the static part with block 0 half of the time
                            // (every subject IRI of the universe has the same length, so the choice is taken from the case's size)
                            if (events.len() + j) % 2 == 0 {
                                p[0] = PT::Var("x0".into());
                            }
                        }
                    }
                }
                let (static_patterns, static_data) = if use_static && !static_data.is_empty() { (static_patterns, static_data) } else { (vec![], vec![]) };
                Case { windows, static_patterns, static_data, policy, multi_thread, events }
            })
            .boxed()
    }
    fn check(&self, c: &Case) -> Outcome {
        check_case(c)
    }
    fn serial(&self) -> bool {
        false
    }
    fn describe(&self, c: &Case) -> serde_json::Value {
        json!({"query": query_text(c), "static": c.static_data.len(), "policy": c.policy % 4, "multi_thread": c.multi_thread,
               "events": c.events.iter().map(|(s, g, t)| format!("stream{s} +{g} {}", ntriple(t))).collect::<Vec<_>>()})
    }
}

/// Blocks that join on TWO OR THREE shared variables over a value universe in which different value tuples are
/// easy to confuse (IRIs that are prefixes of one another, short numeric literals whose concatenations coincide:
/// (s1,23) vs (s12,3), (1,12) vs (11,2)); the same oracle as the main part. Reaches the join of the per-window
/// answer sets (and of the static part) where the main part mostly joins on zero or one variable.
struct JoinKeys;

fn jk_iri(i: usize) -> String {
    iri(["s1", "s12", "s2", "s23"][i % 4])
}
fn jk_obj(i: usize) -> String {
    if i < 5 {
        ["1", "12", "2", "23", "3"][i].to_string()
    } else {
        jk_iri(i - 5)
    }
}

#[derive(Clone, Debug)]
struct JkBlock {
    shape: u8,      // 0: ?x P ?y   1: ?r Pa ?x . ?r Pb ?y   2: ?x Pa ?y . ?x Pb ?z   3: ?r Pa ?x . ?r Pb ?y . (z := r)
    own_vocab: bool, // predicates private to the block or shared with the others
}

impl Part for JoinKeys {
    type Case = Case;
    fn name(&self) -> &'static str {
        "join-keys"
    }
    fn cases(&self, tier: Tier) -> u32 {
        tier.pick(15_000, 150_000)
    }
    fn strategy(&self, tier: Tier) -> BoxedStrategy<Case> {
        let max_ev = tier.pick(24usize, 40usize);
        let block = (0u8..3, proptest::bool::weighted(0.5)).prop_map(|(shape, own_vocab)| JkBlock { shape, own_vocab });
        (
            proptest::collection::vec((1usize..=6, 1usize..=6, block.clone()), 2..=3),
            proptest::option::weighted(0.4, block),
            proptest::collection::vec((0usize..4, 0usize..2, 0usize..7), 1..=8),
            0u8..4,
            proptest::bool::weighted(0.1),
            proptest::collection::vec((0usize..3, prop_oneof![4 => 0usize..=1, 2 => 1usize..=2, 1 => 3usize..=8], (0usize..4, 0usize..2, 0usize..7), proptest::bool::weighted(0.25)), 8..=max_ev),
        )
            .prop_map(|(wins, stat, static_raw, policy, multi_thread, events_raw)| {
                let nw = wins.len();
                let pred = |k: usize, own: bool, which: usize| -> String {
                    if own {
                        iri(&format!("q{k}{}", ["a", "b"][which]))
                    } else {
                        iri(["pa", "pb"][which])
                    }
                };
                let mk_patterns = |k: usize, b: &JkBlock| -> Vec<[PT; 3]> {
                    let v = |n: &str| PT::Var(n.to_string());
                    let c = |s: String| PT::C(Tm::Iri(s));
                    match b.shape {
                        0 => vec![[v("x"), c(pred(k, b.own_vocab, 0)), v("y")]],
                        1 => vec![[v(&format!("r{k}")), c(pred(k, b.own_vocab, 0)), v("x")], [v(&format!("r{k}")), c(pred(k, b.own_vocab, 1)), v("y")]],
                        _ => vec![[v("x"), c(pred(k, b.own_vocab, 0)), v("y")], [v("x"), c(pred(k, b.own_vocab, 1)), v("z")]],
                    }
                };
                // the (x, y) pairs the parts are meant to join on; (s1,23) / (s12,3) are different pairs with the same concatenation
                let pair = |i: usize| -> (String, String) {
                    let (x, y) = [("s1", "23"), ("s12", "3"), ("s1", "3"), ("s2", "23")][i % 4];
                    (iri(x), y.to_string())
                };
                // one complete instance of a block's shape for pair i: its answers then contain (x, y) of that pair
                let instance = |k: usize, b: &JkBlock, i: usize, which: usize, o: usize| -> Vec<[String; 3]> {
                    let (x, y) = pair(i);
                    match b.shape {
                        0 => vec![[x, pred(k, b.own_vocab, 0), y]],
                        1 => {
                            let r = jk_iri(o);
                            vec![[r.clone(), pred(k, b.own_vocab, 0), x], [r, pred(k, b.own_vocab, 1), y]]
                        }
                        _ => {
                            let mut v = vec![[x.clone(), pred(k, b.own_vocab, 0), y], [x, pred(k, b.own_vocab, 1), jk_obj(o)]];
                            if which == 1 {
                                v.swap(0, 1);
                            }
                            v
                        }
                    }
                };
                let windows: Vec<Win> = wins.iter().enumerate().map(|(k, (w, s, b))| Win { width: *w, slide: *s, patterns: mk_patterns(k, b) }).collect();
                let mut events: Vec<(usize, usize, [String; 3])> = vec![];
                for (st, gap, (s, which, o), noise) in events_raw {
                    let k = st % nw;
                    let b = &wins[k].2;
                    if noise {
                        // a single arbitrary triple over the block's predicates
                        events.push((k, gap, [jk_iri(s), pred(k, b.own_vocab, which), jk_obj(o)]));
                    } else {
                        for (j, t) in instance(k, b, s, which, o).into_iter().enumerate() {
                            events.push((k, if j == 0 { gap } else { 0 }, t));
                        }
                    }
                }
                let (static_patterns, static_data) = match stat {
                    Some(b) => {
                        let pats = mk_patterns(9, &JkBlock { shape: b.shape, own_vocab: true });
                        let sb = JkBlock { shape: b.shape, own_vocab: true };
                        let data: Vec<[String; 3]> = static_raw.into_iter().flat_map(|(s, which, o)| instance(9, &sb, s, which, o)).collect();
                        (pats, data)
                    }
                    None => (vec![], vec![]),
                };
                Case { windows, static_patterns, static_data, policy, multi_thread, events }
            })
            .boxed()
    }
    fn check(&self, c: &Case) -> Outcome {
        let mut o = check_case(c);
        // how many variables two parts of the query share (the join keys)
        let mut parts: Vec<BTreeSet<String>> = c.windows.iter().map(|w| vars_of(&w.patterns)).collect();
        if !c.static_patterns.is_empty() {
            parts.push(vars_of(&c.static_patterns));
        }
        let mut max_shared = 0;
        for a in 0..parts.len() {
            for b in a + 1..parts.len() {
                max_shared = max_shared.max(parts[a].intersection(&parts[b]).count());
            }
        }
        o.class_if(max_shared >= 2, "join-on>=2-variables");
        o.class_if(max_shared >= 3, "join-on-3-variables");
        o.nontrivial = o.classes.contains(&"rows-emitted") && o.classes.contains(&"all-windows-fired") && max_shared >= 2;
        o
    }
    fn describe(&self, c: &Case) -> serde_json::Value {
        json!({"query": query_text(c), "static": c.static_data.iter().map(ntriple).collect::<Vec<_>>(), "policy": c.policy % 4, "multi_thread": c.multi_thread,
               "events": c.events.iter().map(|(s, g, t)| format!("stream{s} +{g} {}", ntriple(t))).collect::<Vec<_>>()})
    }
}

/// Histories in which one window's block could be answered by MIXING two of its own reports: a triple that opens a
/// report is sent again after a pause longer than the window, next to the second half of a two-pattern block whose
/// first half travelled (and expired) with the earlier report. The second window is fed at the same instants so that
/// both fire in the same cycles. Same oracle: the row for the block must be an answer over ONE content the window reported.
struct StaleMix;

impl Part for StaleMix {
    type Case = Case;
    fn name(&self) -> &'static str {
        "stale-mix"
    }
    fn cases(&self, tier: Tier) -> u32 {
        tier.pick(10_000, 100_000)
    }
    fn strategy(&self, _tier: Tier) -> BoxedStrategy<Case> {
        (
            (2usize..=6, 1usize..=6, 1usize..=6, 1usize..=6),
            0u8..4,                                         // block shape of window 0
            (0usize..3, 0usize..3, 0usize..2, 0usize..2),    // which filler, subject, small offsets
            (0usize..4, 0usize..4),                          // extra pause beyond the width (both pauses)
            proptest::collection::vec((0usize..6, 0usize..5, 0usize..3), 0..=3), // optional extra events (position, kind, value)
            0u8..4,
            proptest::bool::weighted(0.1),
            proptest::bool::weighted(0.85),                 // filler really re-sent (else control)
        )
            .prop_map(|((w0, s0, w1, s1), shape, (fill, subj, d1, d2), (p1, p2), extras, policy, multi_thread, resend)| {
                let s0 = s0.min(w0); // overlapping or tumbling window 0
                let v = |n: &str| PT::Var(n.to_string());
                let c = |x: &str| PT::C(Tm::Iri(iri(x)));
                // window 0: a block of two patterns joined on one variable
                let pats0: Vec<[PT; 3]> = match shape {
                    0 => vec![[v("r"), c("pa"), v("x")], [v("r"), c("pb"), v("y")]],
                    1 => vec![[v("r"), c("pa"), v("x")], [v("x"), c("pb"), v("y")]],
                    2 => vec![[v("x"), c("pa"), v("r")], [v("y"), c("pb"), v("r")]],
                    _ => vec![[v("r"), c("pa"), v("x")], [v("r"), c("pb"), v("y")], [v("r"), c("pc"), v("z")]],
                };
                let r = iri(["s1", "s2", "s3"][subj]);
                let (half_a, half_b): ([String; 3], [String; 3]) = match shape {
                    0 | 3 => ([r.clone(), iri("pa"), iri("o1")], [r.clone(), iri("pb"), iri("o2")]),
                    1 => ([iri("o0"), iri("pa"), r.clone()], [r.clone(), iri("pb"), iri("o2")]),
                    _ => ([iri("o1"), iri("pa"), r.clone()], [iri("o2"), iri("pb"), r.clone()]),
                };
                let third: [String; 3] = [r.clone(), iri("pc"), iri("o3")];
                // the triple that opens the first report and is sent again: unrelated to the block, or part of it
                let filler: [String; 3] = match fill {
                    0 => [iri("f0"), iri("pz"), iri("f1")],
                    1 => [iri("s9"), iri("pa"), iri("o9")],
                    _ => if shape == 3 { third.clone() } else { [iri("f0"), iri("pz"), iri("f1")] },
                };
                // absolute times on stream 0
                let t1 = 1usize;
                let t_half_b = t1 + d1;
                let t2 = t_half_b + w0 + p1; // pause at least as long as the window: half_b has expired from every later report
                let t_half_a = t2 + d2.min(w0.saturating_sub(1));
                let t3 = t_half_a + w0 + s0 + p2;
                let mut ev0: Vec<(usize, [String; 3])> = vec![(t1, filler.clone()), (t_half_b, half_b.clone())];
                if shape == 3 {
                    ev0.push((t_half_b, third.clone()));
                }
                if resend {
                    ev0.push((t2, filler.clone()));
                }
                ev0.push((t_half_a, half_a.clone()));
                if shape == 3 && fill != 2 {
                    ev0.push((t_half_a, third.clone()));
                }
                ev0.push((t3, [iri("f2"), iri("pz"), iri("f3")]));
                ev0.push((t3 + w0 + s0, [iri("f4"), iri("pz"), iri("f5")]));
                for (pos, kind, val) in extras {
                    let at = [t1, t_half_b, t2, t_half_a, t3, t3 + 1][pos];
                    let t: [String; 3] = match kind {
                        0 => [iri(["s1", "s2", "s3"][val]), iri("pa"), iri("o1")],
                        1 => [iri(["s1", "s2", "s3"][val]), iri("pb"), iri("o2")],
                        2 => half_a.clone(),
                        3 => half_b.clone(),
                        _ => filler.clone(),
                    };
                    ev0.push((at, t));
                }
                ev0.sort_by_key(|e| e.0);
                // stream 1 is fed at the same instants
                let mut all: Vec<(usize, usize, [String; 3])> = vec![];
                for (i, (t, tr)) in ev0.iter().enumerate() {
                    all.push((*t, 0, tr.clone()));
                    all.push((*t, 1, [iri(&format!("u{}", i % 3)), iri("qb"), iri(&format!("w{}", i % 2))]));
                }
                all.sort_by_key(|e| (e.0, e.1));
                let mut events = vec![];
                let mut last = 0usize;
                for (t, st, tr) in all {
                    events.push((st, t - last, tr));
                    last = t;
                }
                let windows = vec![Win { width: w0, slide: s0, patterns: pats0 }, Win { width: w1, slide: s1, patterns: vec![[v("u"), c("qb"), v("w")]] }];
                Case { windows, static_patterns: vec![], static_data: vec![], policy, multi_thread, events }
            })
            .boxed()
    }
    fn check(&self, c: &Case) -> Outcome {
        let mut o = check_case(c);
        o.nontrivial = o.classes.contains(&"rows-emitted") && o.classes.contains(&"all-windows-fired");
        o
    }
    fn describe(&self, c: &Case) -> serde_json::Value {
        json!({"query": query_text(c), "policy": c.policy % 4, "multi_thread": c.multi_thread,
               "events": c.events.iter().map(|(s, g, t)| format!("stream{s} +{g} {}", ntriple(t))).collect::<Vec<_>>()})
    }
}

fn main() {
    let mut s = Session::start(
        "C11",
        "exploration",
        "engines built through RSPBuilder from generated RSP-QL text with 2-3 windows on distinct streams (independent RANGE/STEP in 1..6), per-window blocks of 1-2 patterns over a small shared vocabulary (the same predicate/class IRIs appear in several blocks and on several streams), \
         optional static patterns with add_static_ntriples data sharing that vocabulary, policies Wait/Steal/Timeout(steal|drop), single-thread (85%) and multi-thread mode, interleaved in-order streams of 4-24/40 events. Oracle: one probe window per configured window records every content that window reported; \
         every emitted row restricted to the variables of block k must be a reference-BGP answer of block k over SOME content window k has reported so far, and its static part an answer of the static patterns over the static data alone. \
         Non-trivial = every window fired, two blocks share a predicate, and at least one row was emitted. \
         Part join-keys: blocks (and the static part) of shapes {?x P ?y | ?r Pa ?x . ?r Pb ?y | ?x Pa ?y . ?x Pb ?z} that join on 2-3 shared variables over a value universe whose tuples are easy to confuse \
         (IRIs that are prefixes of one another, plain literals 1/12/2/23/3); same oracle; non-trivial there = every window fired, rows emitted, and two parts share >= 2 variables. \
         Part stale-mix: histories built so that a two-pattern block could be answered by mixing two reports of its own window (the triple opening one report is sent again after a pause longer than the window, next to the second half of the block whose first half expired with the earlier report; second window fed at the same instants); same oracle.",
    );
    s.assume("existential over past firings of the same window: sound for every synchronisation policy including Steal and for accumulated single-thread buffers");
    s.assume("rows observed after feeding event i are attributed to contents reported up to event i (conservative); stop()/flush() not called");
    s.run(&Multi);
    s.run(&JoinKeys);
    s.run(&StaleMix);
    std::process::exit(s.finish());
}
