//! C07 — decision-diagram (SDD) operations are exact, canonical and interruption-safe.
//!
//! Oracle: truth tables. Every handle has a shadow bitset computed from the formula by plain
//! bit operations; `enumerate_models` expanded to full assignments must equal it, equal bitsets
//! must have equal handles (and vice versa), `wmc` / `wmc_gradient` must equal explicit sums
//! over the satisfying assignments. Budgeted twins (`try_*`) must return the unbudgeted result
//! or `Err`, and after an `Err` at any checkpoint / node budget the manager must keep answering
//! correctly.
//!
//! Parts: `exhaustive3` (all 256 functions of 3 variables, all operand pairs, both operators,
//! plain and budgeted entry point), `histories` (generated operation sequences with variables
//! introduced at any time), `interruption` (every deadline checkpoint and every node budget of
//! one budgeted operation inside a generated history).

use kvh::engine::*;
use proptest::prelude::*;
use serde::{Deserialize, Serialize};
use shared::diff_sdd::wmc_gradient;
use shared::sdd::{BoolOp, SddBudgetError, SddId, SddManager, SddOperationBudget, VarKind};
use std::collections::{BTreeMap, BTreeSet};

// ------------------------------------------------------------------------------------------
// truth-table oracle (256-bit tables over 8 slots; slot i = i-th introduced variable;
// bit i of the assignment index m is the value of slot i)
// ------------------------------------------------------------------------------------------

type TT = [u64; 4];
const TT_FALSE: TT = [0; 4];
const TT_TRUE: TT = [u64::MAX; 4];

fn tt_lit(slot: usize, pol: bool) -> TT {
    let mut t = TT_FALSE;
    for m in 0..256usize {
        if ((m >> slot) & 1 == 1) == pol {
            t[m >> 6] |= 1u64 << (m & 63);
        }
    }
    t
}
fn tt_and(a: &TT, b: &TT) -> TT {
    [a[0] & b[0], a[1] & b[1], a[2] & b[2], a[3] & b[3]]
}
fn tt_or(a: &TT, b: &TT) -> TT {
    [a[0] | b[0], a[1] | b[1], a[2] | b[2], a[3] | b[3]]
}
fn tt_not(a: &TT) -> TT {
    [!a[0], !a[1], !a[2], !a[3]]
}
fn tt_get(a: &TT, m: usize) -> bool {
    (a[m >> 6] >> (m & 63)) & 1 == 1
}
fn tt_eo(slots: &[usize]) -> TT {
    let mut t = TT_FALSE;
    for m in 0..256usize {
        if slots.iter().filter(|s| (m >> **s) & 1 == 1).count() == 1 {
            t[m >> 6] |= 1u64 << (m & 63);
        }
    }
    t
}
const SLOT_MASK: [u64; 6] = [0xAAAA_AAAA_AAAA_AAAA, 0xCCCC_CCCC_CCCC_CCCC, 0xF0F0_F0F0_F0F0_F0F0, 0xFF00_FF00_FF00_FF00, 0xFFFF_0000_FFFF_0000, 0xFFFF_FFFF_0000_0000];
/// cofactor of the function for slot := val, as a table that no longer depends on `slot`
fn tt_cof(a: &TT, slot: usize, val: bool) -> TT {
    if slot < 6 {
        let sh = 1u32 << slot;
        let mut r = [0u64; 4];
        for i in 0..4 {
            r[i] = if val {
                let p = a[i] & SLOT_MASK[slot];
                p | (p >> sh)
            } else {
                let p = a[i] & !SLOT_MASK[slot];
                p | (p << sh)
            };
        }
        r
    } else if slot == 6 {
        if val {
            [a[1], a[1], a[3], a[3]]
        } else {
            [a[0], a[0], a[2], a[2]]
        }
    } else if val {
        [a[2], a[3], a[2], a[3]]
    } else {
        [a[0], a[1], a[0], a[1]]
    }
}
/// does the function depend on `slot`?
fn tt_depends(a: &TT, slot: usize) -> bool {
    tt_cof(a, slot, true) != tt_cof(a, slot, false)
}
fn tt_support(a: &TT) -> u8 {
    let mut s = 0u8;
    for slot in 0..8 {
        if tt_depends(a, slot) {
            s |= 1 << slot;
        }
    }
    s
}
/// Classification only (not an oracle): would the recursive cross product of apply(a, b) on the
/// right-linear vtree (latest variable on top) meet two elements with equal subs somewhere?
fn apply_compresses(a: &TT, b: &TT, or: bool, depth: u32) -> bool {
    if *a == TT_FALSE || *a == TT_TRUE || *b == TT_FALSE || *b == TT_TRUE || a == b || *a == tt_not(b) && tt_support(a).count_ones() == 1 {
        return false;
    }
    let x = match top_slot(tt_support(a) | tt_support(b)) {
        Some(x) => x,
        None => return false,
    };
    let (a1, a0, b1, b0) = (tt_cof(a, x, true), tt_cof(a, x, false), tt_cof(b, x, true), tt_cof(b, x, false));
    let f = |p: &TT, q: &TT| if or { tt_or(p, q) } else { tt_and(p, q) };
    if f(&a1, &b1) == f(&a0, &b0) {
        return true;
    }
    depth < 8 && (apply_compresses(&a1, &b1, or, depth + 1) || apply_compresses(&a0, &b0, or, depth + 1))
}
fn tt_hex(a: &TT) -> String {
    format!("{:016x}{:016x}{:016x}{:016x}", a[3], a[2], a[1], a[0])
}

fn close(a: f64, b: f64) -> bool {
    (a - b).abs() <= 1e-9 * 1f64.max(a.abs()).max(b.abs())
}

/// Variable description: engine id, exclusive group (None = Independent), probability in 1/1000.
#[derive(Clone, Debug, Serialize, Deserialize, PartialEq)]
struct VarSpec {
    id: u32,
    group: Option<u32>,
    prob_m: u16,
}

fn prob_of(m: u16) -> f64 {
    (m.min(1000)) as f64 / 1000.0
}

/// literal weights of the oracle: (pos, neg)
fn weights(group: Option<u32>, p: f64) -> (f64, f64) {
    match group {
        None => (p, 1.0 - p),
        Some(_) => (p, 1.0),
    }
}

/// Σ over the satisfying assignments of the first `n` slots of Π literal weights.
fn wmc_explicit(t: &TT, w: &[(f64, f64)]) -> f64 {
    let n = w.len();
    let mut sum = 0.0;
    for m in 0..(1usize << n) {
        if tt_get(t, m) {
            let mut p = 1.0;
            for (i, (pos, neg)) in w.iter().enumerate() {
                p *= if (m >> i) & 1 == 1 { *pos } else { *neg };
            }
            sum += p;
        }
    }
    sum
}

/// ∂/∂p_v of the explicit sum, where w(v,1)=p_v and w(v,0)=1-p_v (Independent) or the constant 1 (group).
fn grad_explicit(t: &TT, w: &[(f64, f64)], v: usize, independent: bool) -> f64 {
    let n = w.len();
    let mut sum = 0.0;
    for m in 0..(1usize << n) {
        if tt_get(t, m) {
            let mut p = 1.0;
            for (i, (pos, neg)) in w.iter().enumerate() {
                if i != v {
                    p *= if (m >> i) & 1 == 1 { *pos } else { *neg };
                }
            }
            if (m >> v) & 1 == 1 {
                sum += p;
            } else if independent {
                sum -= p;
            }
        }
    }
    sum
}

/// Expand the engine's partial models to the set of full assignments (as a table).
/// `slot_of`: engine variable id -> slot, for the registered variables only.
fn models_tt(models: &[BTreeSet<(u32, bool)>], slot_of: &BTreeMap<u32, usize>) -> Result<TT, String> {
    let mut t = TT_FALSE;
    for model in models {
        let mut m = TT_TRUE;
        let mut seen: BTreeMap<u32, bool> = BTreeMap::new();
        for (var, pol) in model {
            let slot = match slot_of.get(var) {
                Some(s) => *s,
                None => return Err(format!("model {:?} mentions unregistered variable {}", model, var)),
            };
            if let Some(prev) = seen.insert(*var, *pol) {
                if prev != *pol {
                    return Err(format!("model {:?} contains both polarities of variable {}", model, var));
                }
            }
            m = tt_and(&m, &tt_lit(slot, *pol));
        }
        t = tt_or(&t, &m);
    }
    Ok(t)
}

fn sorted_models(mgr: &SddManager, h: SddId) -> Vec<Vec<(u32, bool)>> {
    let mut v: Vec<Vec<(u32, bool)>> = mgr.enumerate_models(h).into_iter().map(|m| m.into_iter().collect()).collect();
    v.sort();
    v
}

fn bop(or: bool) -> BoolOp {
    if or {
        BoolOp::Or
    } else {
        BoolOp::And
    }
}

// ------------------------------------------------------------------------------------------
// part exhaustive3
// ------------------------------------------------------------------------------------------

#[derive(Clone, Debug, Serialize, Deserialize)]
struct ECase {
    /// order[i] = slot (0..3) introduced i-th
    order: [u8; 3],
    left: u8,
    or: bool,
    /// use try_apply / try_negate with an unlimited budget instead of apply / negate
    budgeted: bool,
}

const E3_IDS: [u32; 3] = [4, 0, 2]; // engine ids of slots 0,1,2 (not monotone, with gaps)
const E3_PROB: [f64; 3] = [0.3, 0.625, 0.8];
const E3_MASK: [u8; 3] = [0xAA, 0xCC, 0xF0];

fn e3_models(mgr: &SddManager, h: SddId) -> Result<u8, String> {
    let mut t = 0u8;
    for model in mgr.enumerate_models(h) {
        let mut m = 0xFFu8;
        let mut seen: BTreeMap<u32, bool> = BTreeMap::new();
        for (var, pol) in &model {
            let slot = match E3_IDS.iter().position(|x| x == var) {
                Some(s) => s,
                None => return Err(format!("model {:?} mentions unregistered variable {}", model, var)),
            };
            if let Some(prev) = seen.insert(*var, *pol) {
                if prev != *pol {
                    return Err(format!("model {:?} contains both polarities of {}", model, var));
                }
            }
            m &= if *pol { E3_MASK[slot] } else { !E3_MASK[slot] };
        }
        t |= m;
    }
    Ok(t)
}

fn e3_wmc(f: u8) -> f64 {
    let mut s = 0.0;
    for m in 0..8usize {
        if (f >> m) & 1 == 1 {
            let mut p = 1.0;
            for i in 0..3 {
                p *= if (m >> i) & 1 == 1 { E3_PROB[i] } else { 1.0 - E3_PROB[i] };
            }
            s += p;
        }
    }
    s
}

fn e3_check(c: &ECase, o: &mut Outcome) {
    let mut mgr = SddManager::new();
    for i in 0..3 {
        let s = c.order[i] as usize;
        mgr.ensure_variable(E3_IDS[s], E3_PROB[s]);
    }
    // all 256 functions from minterms
    let mut minterm = [SddId::FALSE; 8];
    for m in 0..8usize {
        let mut acc = SddId::TRUE;
        for s in 0..3 {
            let l = mgr.literal(E3_IDS[s], (m >> s) & 1 == 1);
            acc = mgr.apply(acc, l, BoolOp::And);
        }
        minterm[m] = acc;
    }
    let mut h = vec![SddId::FALSE; 256];
    for f in 0..256usize {
        let mut acc = SddId::FALSE;
        for m in 0..8 {
            if (f >> m) & 1 == 1 {
                acc = mgr.apply(acc, minterm[m], BoolOp::Or);
            }
        }
        h[f] = acc;
    }
    let mut by_handle: BTreeMap<SddId, usize> = BTreeMap::new();
    for f in 0..256usize {
        if let Some(g) = by_handle.insert(h[f], f) {
            o.fail("c07.ex3.canon_alias", format!("order {:?}: functions {:#04x} and {:#04x} (different) got the same handle {:?}", c.order, g, f, h[f]));
            return;
        }
    }
    if h[0] != SddId::FALSE || h[255] != SddId::TRUE {
        o.fail("c07.ex3.canon_const", format!("order {:?}: constant functions are not the reserved handles: {:?} {:?}", c.order, h[0], h[255]));
        return;
    }
    let verify_all = |mgr: &SddManager, o: &mut Outcome, when: &str| -> bool {
        for f in 0..256usize {
            match e3_models(mgr, h[f]) {
                Ok(t) if t as usize == f => {}
                Ok(t) => {
                    o.fail("c07.ex3.exact", format!("order {:?} {when}: handle of function {:#04x} enumerates {:#04x}", c.order, f, t));
                    return false;
                }
                Err(e) => {
                    o.fail("c07.ex3.models_malformed", format!("order {:?} {when}: function {:#04x}: {e}", c.order, f));
                    return false;
                }
            }
            let (got, exp) = (mgr.wmc(h[f]), e3_wmc(f as u8));
            if !close(got, exp) {
                o.fail("c07.ex3.wmc", format!("order {:?} {when}: wmc of function {:#04x} = {got}, explicit sum {exp}", c.order, f));
                return false;
            }
        }
        true
    };
    if !verify_all(&mgr, o, "after build") {
        return;
    }
    o.inner_evals += 256;
    // negation of all 256
    for f in 0..256usize {
        let r = if c.budgeted {
            let mut cb = || true;
            let mut b = SddOperationBudget::new(usize::MAX, &mut cb);
            match mgr.try_negate(h[f], &mut b) {
                Ok(r) => r,
                Err(e) => {
                    o.fail("c07.ex3.spurious_err", format!("try_negate with unlimited budget returned {:?}", e));
                    return;
                }
            }
        } else {
            mgr.negate(h[f])
        };
        if r != h[255 - f] {
            let t = e3_models(&mgr, r);
            o.fail(
                if t == Ok((255 - f) as u8) { "c07.ex3.negate_not_canonical" } else { "c07.ex3.negate_wrong" },
                format!("order {:?}: negate({:#04x}) = {:?} (enumerates {:?}), expected handle {:?} of {:#04x}", c.order, f, r, t, h[255 - f], 255 - f),
            );
            return;
        }
    }
    o.inner_evals += 256;
    // the left operand against all right operands
    let a = c.left as usize;
    for b in 0..256usize {
        let exp = if c.or { a | b } else { a & b };
        let r = if c.budgeted {
            let mut cb = || true;
            let mut bd = SddOperationBudget::new(usize::MAX, &mut cb);
            match mgr.try_apply(h[a], h[b], bop(c.or), &mut bd) {
                Ok(r) => r,
                Err(e) => {
                    o.fail("c07.ex3.spurious_err", format!("try_apply with unlimited budget returned {:?}", e));
                    return;
                }
            }
        } else {
            mgr.apply(h[a], h[b], bop(c.or))
        };
        if r != h[exp] {
            let t = e3_models(&mgr, r);
            o.fail(
                if t == Ok(exp as u8) { "c07.ex3.apply_not_canonical" } else { "c07.ex3.apply_wrong" },
                format!(
                    "order {:?}: {}({:#04x},{:#04x}) {} = {:?} (enumerates {:?}), expected handle {:?} of {:#04x}",
                    c.order,
                    if c.budgeted { "try_apply" } else { "apply" },
                    a,
                    b,
                    if c.or { "Or" } else { "And" },
                    r,
                    t,
                    h[exp],
                    exp
                ),
            );
            return;
        }
        o.inner_evals += 1;
    }
    if !verify_all(&mgr, o, "after the applies") {
        return;
    }
    // gradient of the left operand
    let before: (Vec<f64>, Vec<f64>) = (mgr.pos_weight().to_vec(), mgr.neg_weight().to_vec());
    let g = wmc_gradient(&mut mgr, h[a]);
    if (mgr.pos_weight().to_vec(), mgr.neg_weight().to_vec()) != before {
        o.fail("c07.ex3.grad_restore", format!("weights changed by wmc_gradient: before {:?} after {:?} {:?}", before, mgr.pos_weight(), mgr.neg_weight()));
        return;
    }
    for s in 0..3 {
        let mut exp = 0.0;
        for m in 0..8usize {
            if (a >> m) & 1 == 1 {
                let mut p = 1.0;
                for i in 0..3 {
                    if i != s {
                        p *= if (m >> i) & 1 == 1 { E3_PROB[i] } else { 1.0 - E3_PROB[i] };
                    }
                }
                exp += if (m >> s) & 1 == 1 { p } else { -p };
            }
        }
        let got = g.get(&E3_IDS[s]).copied().unwrap_or(0.0);
        if !close(got, exp) {
            o.fail("c07.ex3.grad", format!("order {:?}: d wmc({:#04x}) / d p[{}] = {got}, analytic {exp}", c.order, a, E3_IDS[s]));
            return;
        }
    }
    o.nontrivial = a != 0 && a != 255;
    o.class_if(c.budgeted, "budgeted-entry-point");
    o.class_if(c.or, "or");
    // right operands for which the two cross-product elements get equal subs (compression)
    let top = *c.order.last().unwrap() as usize; // last introduced = vtree root's left leaf
    let dep = |f: usize| -> bool { (0..8usize).any(|m| ((f >> m) & 1) != ((f >> (m ^ (1 << top))) & 1)) };
    o.class_if(dep(a) && (0..256usize).any(|b| !dep(if c.or { a | b } else { a & b }) && b != a && b != 255 - a && b != 0 && b != 255), "compression-on-top-variable");
}

struct Exhaustive3;
impl Part for Exhaustive3 {
    type Case = ECase;
    fn name(&self) -> &'static str {
        "exhaustive3"
    }
    fn cases(&self, _: Tier) -> u32 {
        0
    }
    fn strategy(&self, _: Tier) -> BoxedStrategy<ECase> {
        Just(ECase { order: [0, 1, 2], left: 0, or: false, budgeted: false }).boxed()
    }
    fn check(&self, c: &ECase) -> Outcome {
        let mut o = Outcome::new();
        if let Err(site) = catch(|| e3_check(c, &mut o)) {
            o.panic("exhaustive3", &site);
        }
        o
    }
}

// ------------------------------------------------------------------------------------------
// histories: case type, resolved plan (the model side, engine-independent)
// ------------------------------------------------------------------------------------------

#[derive(Clone, Copy, Debug, Serialize, Deserialize, PartialEq)]
enum Bud {
    /// unbudgeted entry point
    Plain,
    /// try_* with a never-expiring deadline and no node limit
    Unlimited,
    /// try_* with max_nodes = node_count() + extra
    Nodes(u8),
    /// try_* whose deadline callback answers `false` from its k-th invocation on
    Deadline(u16),
}

#[derive(Clone, Copy, Debug, Serialize, Deserialize, PartialEq)]
struct Pick {
    sel: u16,
    /// 0: any handle; 1: one of the 6 most recent; 2: any handle except the two constants
    mode: u8,
}

#[derive(Clone, Debug, Serialize, Deserialize, PartialEq)]
enum Op {
    NewVar,
    Reweight { var: u16, prob_m: u16 },
    Lit { var: u16, pol: bool, bud: Bud },
    Apply { a: Pick, b: Pick, or: bool, bud: Bud },
    Neg { a: Pick, bud: Bud },
    Eo { slots: Vec<u8>, bud: Bud },
    /// macro: (x AND a) OR (NOT x AND b) — five operations, the last one under `bud`
    Mux { var: u16, a: Pick, b: Pick, bud: Bud },
    /// macro: (a AND NOT b) OR (NOT a AND b) — five operations, one negation and the last one under `bud`
    Xor { a: Pick, b: Pick, bud: Bud },
}

#[derive(Clone, Debug, Serialize, Deserialize)]
struct HCase {
    /// variables in introduction order (slot i = vars[i])
    vars: Vec<VarSpec>,
    ops: Vec<Op>,
    /// interruption part only: which budgeted operation is swept
    #[serde(default)]
    target: u16,
}

#[derive(Clone, Debug)]
enum ROp {
    NewVar(usize),
    Reweight(usize, u16),
    Lit(usize, bool),
    Apply(usize, usize, bool),
    Neg(usize),
    Eo(Vec<usize>),
}

#[derive(Clone, Debug)]
struct Step {
    op: ROp,
    bud: Bud,
    /// index of the handle this step produces (None for NewVar / Reweight)
    out: Option<usize>,
}

struct Plan {
    vars: Vec<VarSpec>,
    steps: Vec<Step>,
    /// shadow table per handle index (0 = FALSE, 1 = TRUE)
    tts: Vec<TT>,
    cross_level: bool,
    compression: bool,
    late_var: bool,
    reweight: bool,
    eo3: bool,
}

fn resolve_pick(p: Pick, len: usize) -> usize {
    match p.mode {
        1 => len - 1 - pick_idx(p.sel, len.min(6)),
        2 if len > 2 => 2 + pick_idx(p.sel, len - 2),
        _ => pick_idx(p.sel, len),
    }
}

fn top_slot(support: u8) -> Option<usize> {
    if support == 0 {
        None
    } else {
        Some(7 - support.leading_zeros() as usize)
    }
}

struct Builder {
    p: Plan,
    n: usize,
    /// step index at which the function of a handle first appeared (= creation of its node)
    created: Vec<usize>,
    first_seen: BTreeMap<TT, usize>,
    /// step index at which a slot was introduced
    intro: Vec<usize>,
}

impl Builder {
    fn push_handle(&mut self, t: TT, op: ROp, bud: Bud) -> usize {
        let si = self.p.steps.len();
        let out = self.p.tts.len();
        let first = *self.first_seen.entry(t).or_insert(si);
        self.p.tts.push(t);
        self.created.push(first);
        self.p.steps.push(Step { op, bud, out: Some(out) });
        out
    }
    fn new_var(&mut self) {
        if self.n < self.p.vars.len() {
            if self.p.tts.len() >= 7 {
                self.p.late_var = true;
            }
            self.intro.push(self.p.steps.len());
            self.p.steps.push(Step { op: ROp::NewVar(self.n), bud: Bud::Plain, out: None });
            self.n += 1;
            // like SddProvenance::tag_from_probability: the new variable's positive literal
            self.lit(self.n - 1, true, Bud::Plain);
        }
    }
    fn lit(&mut self, s: usize, pol: bool, bud: Bud) -> usize {
        self.push_handle(tt_lit(s, pol), ROp::Lit(s, pol), bud)
    }
    fn neg(&mut self, ia: usize, bud: Bud) -> usize {
        let t = tt_not(&self.p.tts[ia]);
        self.push_handle(t, ROp::Neg(ia), bud)
    }
    fn apply(&mut self, ia: usize, ib: usize, or: bool, bud: Bud) -> usize {
        let (ta, tb) = (self.p.tts[ia], self.p.tts[ib]);
        let t = if or { tt_or(&ta, &tb) } else { tt_and(&ta, &tb) };
        if let (Some(xa), Some(xb)) = (top_slot(tt_support(&ta)), top_slot(tt_support(&tb))) {
            if xa != xb && (self.created[ia] < self.intro[xb] || self.created[ib] < self.intro[xa]) {
                self.p.cross_level = true;
            }
        }
        if apply_compresses(&ta, &tb, or, 0) {
            self.p.compression = true;
        }
        self.push_handle(t, ROp::Apply(ia, ib, or), bud)
    }
}

const MAX_STEPS: usize = 80;

fn make_plan(c: &HCase) -> Plan {
    let mut b = Builder {
        p: Plan { vars: c.vars.clone(), steps: vec![], tts: vec![TT_FALSE, TT_TRUE], cross_level: false, compression: false, late_var: false, reweight: false, eo3: false },
        n: 0,
        created: vec![0, 0],
        first_seen: BTreeMap::new(),
        intro: vec![],
    };
    b.first_seen.insert(TT_FALSE, 0);
    b.first_seen.insert(TT_TRUE, 0);
    for op in &c.ops {
        if b.p.steps.len() + 5 > MAX_STEPS {
            break;
        }
        let needs_var = matches!(op, Op::Lit { .. } | Op::Eo { .. } | Op::Mux { .. });
        if needs_var && b.n == 0 {
            b.new_var();
            continue;
        }
        // constructive generation: operand-taking operations wait until two non-constant functions exist
        let nonconst = b.p.tts.iter().filter(|t| **t != TT_FALSE && **t != TT_TRUE).count();
        if matches!(op, Op::Apply { .. } | Op::Neg { .. } | Op::Mux { .. } | Op::Xor { .. }) && nonconst < 2 && b.n < b.p.vars.len() {
            b.new_var();
            continue;
        }
        let len = b.p.tts.len();
        match op {
            Op::NewVar => b.new_var(),
            Op::Reweight { var, prob_m } => {
                if b.n > 0 {
                    b.p.reweight = true;
                    let s = pick_idx(*var, b.n);
                    b.p.steps.push(Step { op: ROp::Reweight(s, *prob_m), bud: Bud::Plain, out: None });
                }
            }
            Op::Lit { var, pol, bud } => {
                b.lit(pick_idx(*var, b.n), *pol, *bud);
            }
            Op::Apply { a, b: bb, or, bud } => {
                b.apply(resolve_pick(*a, len), resolve_pick(*bb, len), *or, *bud);
            }
            Op::Neg { a, bud } => {
                b.neg(resolve_pick(*a, len), *bud);
            }
            Op::Eo { slots, bud } => {
                let mut ss: Vec<usize> = vec![];
                for s in slots {
                    let s = *s as usize;
                    if s < b.n && !ss.contains(&s) {
                        ss.push(s);
                    }
                }
                if ss.len() >= 3 {
                    b.p.eo3 = true;
                }
                b.push_handle(tt_eo(&ss), ROp::Eo(ss), *bud);
            }
            Op::Mux { var, a, b: bb, bud } => {
                // (x AND a) OR (NOT x AND b)
                let (ia, ib) = (resolve_pick(*a, len), resolve_pick(*bb, len));
                let s = pick_idx(*var, b.n);
                let x = b.lit(s, true, Bud::Plain);
                let l = b.apply(x, ia, false, Bud::Plain);
                let nx = b.lit(s, false, Bud::Plain);
                let r = b.apply(nx, ib, false, Bud::Plain);
                b.apply(l, r, true, *bud);
            }
            Op::Xor { a, b: bb, bud } => {
                // (a AND NOT b) OR (NOT a AND b)
                let (ia, ib) = (resolve_pick(*a, len), resolve_pick(*bb, len));
                let nb = b.neg(ib, Bud::Plain);
                let l = b.apply(ia, nb, false, Bud::Plain);
                let na = b.neg(ia, *bud);
                let r = b.apply(na, ib, false, Bud::Plain);
                b.apply(l, r, true, *bud);
            }
        }
    }
    b.p
}

// ------------------------------------------------------------------------------------------
// engine side: one manager executing a plan
// ------------------------------------------------------------------------------------------

struct Eng {
    mgr: SddManager,
    handles: Vec<SddId>,
    /// current probability (1/1000) per registered slot
    probs: Vec<u16>,
    slot_of: BTreeMap<u32, usize>,
}

enum Mode<'a> {
    Plain,
    Try { max_nodes: usize, cb: &'a mut dyn FnMut() -> bool },
}

impl Eng {
    fn new() -> Eng {
        Eng { mgr: SddManager::new(), handles: vec![SddId::FALSE, SddId::TRUE], probs: vec![], slot_of: BTreeMap::new() }
    }

    fn n(&self) -> usize {
        self.probs.len()
    }

    fn set_var(&mut self, plan: &Plan, slot: usize, prob_m: u16) {
        let v = &plan.vars[slot];
        let p = prob_of(prob_m);
        match v.group {
            None => self.mgr.ensure_variable(v.id, p),
            Some(g) => self.mgr.ensure_variable_weights(v.id, p, 1.0, VarKind::ExclusiveGroup(g)),
        }
        if slot == self.probs.len() {
            self.probs.push(prob_m);
            self.slot_of.insert(v.id, slot);
        } else {
            self.probs[slot] = prob_m;
        }
    }

    /// Execute the handle-producing operation of a step (not NewVar/Reweight).
    fn exec(&mut self, plan: &Plan, op: &ROp, mode: Mode<'_>) -> Result<SddId, SddBudgetError> {
        let id = |s: usize| plan.vars[s].id;
        match mode {
            Mode::Plain => Ok(match op {
                ROp::Lit(s, pol) => self.mgr.literal(id(*s), *pol),
                ROp::Apply(a, b, or) => self.mgr.apply(self.handles[*a], self.handles[*b], bop(*or)),
                ROp::Neg(a) => self.mgr.negate(self.handles[*a]),
                ROp::Eo(ss) => {
                    let vars: Vec<u32> = ss.iter().map(|s| id(*s)).collect();
                    self.mgr.exactly_one(&vars)
                }
                ROp::NewVar(_) | ROp::Reweight(..) => unreachable!(),
            }),
            Mode::Try { max_nodes, cb } => {
                let mut b = SddOperationBudget::new(max_nodes, cb);
                match op {
                    ROp::Lit(s, pol) => self.mgr.try_literal(id(*s), *pol, &mut b),
                    ROp::Apply(x, y, or) => self.mgr.try_apply(self.handles[*x], self.handles[*y], bop(*or), &mut b),
                    ROp::Neg(a) => self.mgr.try_negate(self.handles[*a], &mut b),
                    ROp::Eo(ss) => {
                        let vars: Vec<u32> = ss.iter().map(|s| id(*s)).collect();
                        self.mgr.try_exactly_one(&vars, &mut b)
                    }
                    ROp::NewVar(_) | ROp::Reweight(..) => unreachable!(),
                }
            }
        }
    }

    fn weights(&self, plan: &Plan) -> Vec<(f64, f64)> {
        (0..self.n()).map(|s| weights(plan.vars[s].group, prob_of(self.probs[s]))).collect()
    }

    /// (1) exactness of one handle
    fn check_exact(&self, h: SddId, t: &TT, ctx: &str, what: &str, o: &mut Outcome) -> bool {
        let models = self.mgr.enumerate_models(h);
        match models_tt(&models, &self.slot_of) {
            Ok(got) if got == *t => true,
            Ok(got) => {
                o.fail(format!("c07.{ctx}.exact"), format!("{what}: handle {:?} enumerates table {} but the formula's table is {} (vars registered: {})", h, tt_hex(&got), tt_hex(t), self.n()));
                false
            }
            Err(e) => {
                o.fail(format!("c07.{ctx}.models_malformed"), format!("{what}: handle {:?}: {e}", h));
                false
            }
        }
    }

    /// (1)+(2) over the first `upto` handles: exactness of each and canonicity both ways.
    fn check_all(&self, plan: &Plan, upto: usize, ctx: &str, what: &str, o: &mut Outcome) -> bool {
        let mut by_tt: BTreeMap<TT, (SddId, usize)> = BTreeMap::new();
        let mut by_h: BTreeMap<SddId, (TT, usize)> = BTreeMap::new();
        for i in 0..upto {
            let (h, t) = (self.handles[i], plan.tts[i]);
            if let Some((t0, j)) = by_h.get(&h) {
                if *t0 != t {
                    o.fail(format!("c07.{ctx}.canon_alias"), format!("{what}: handles #{j} and #{i} are both {:?} but denote different functions {} / {}", h, tt_hex(t0), tt_hex(&t)));
                    return false;
                }
                continue; // already verified
            }
            if let Some((h0, j)) = by_tt.get(&t) {
                if *h0 != h {
                    o.fail(format!("c07.{ctx}.canon_dup"), format!("{what}: handles #{j} = {:?} and #{i} = {:?} denote the same function {} but differ", h0, h, tt_hex(&t)));
                    return false;
                }
            }
            if !self.check_exact(h, &t, ctx, &format!("{what}, handle #{i}"), o) {
                return false;
            }
            by_tt.insert(t, (h, i));
            by_h.insert(h, (t, i));
        }
        if by_tt.get(&TT_FALSE).map(|x| x.0) != Some(SddId::FALSE) || by_tt.get(&TT_TRUE).map(|x| x.0) != Some(SddId::TRUE) {
            o.fail(format!("c07.{ctx}.canon_const"), format!("{what}: a constant function is not the reserved constant handle"));
            return false;
        }
        true
    }

    /// (3) wmc and optionally (4) gradient for every distinct handle among the first `upto`.
    /// With exclusive-group variables the compared formula is h AND exactly_one(G) for every
    /// registered group G (the manager is extended by these conjunctions).
    fn check_wmc(&mut self, plan: &Plan, upto: usize, with_grad: bool, ctx: &str, what: &str, o: &mut Outcome) -> bool {
        let n = self.n();
        if n == 0 {
            return true;
        }
        let w = self.weights(plan);
        let mut groups: BTreeMap<u32, Vec<usize>> = BTreeMap::new();
        for s in 0..n {
            if let Some(g) = plan.vars[s].group {
                groups.entry(g).or_default().push(s);
            }
        }
        // constraint c = AND_G exactly_one(G)
        let mut c = SddId::TRUE;
        let mut ct = TT_TRUE;
        for (_, slots) in &groups {
            let vars: Vec<u32> = slots.iter().map(|s| plan.vars[*s].id).collect();
            let eo = self.mgr.exactly_one(&vars);
            let eot = tt_eo(slots);
            if !self.check_exact(eo, &eot, ctx, &format!("{what}, exactly_one({:?})", vars), o) {
                return false;
            }
            c = self.mgr.apply(c, eo, BoolOp::And);
            ct = tt_and(&ct, &eot);
        }
        let mut seen: BTreeSet<SddId> = BTreeSet::new();
        let mut canon: BTreeMap<TT, SddId> = BTreeMap::new();
        for i in 0..upto {
            let h = self.handles[i];
            if !seen.insert(h) {
                continue;
            }
            let (g, gt) = if groups.is_empty() {
                (h, plan.tts[i])
            } else {
                let g = self.mgr.apply(h, c, BoolOp::And);
                let gt = tt_and(&plan.tts[i], &ct);
                if !self.check_exact(g, &gt, ctx, &format!("{what}, handle #{i} AND exactly-one constraints"), o) {
                    return false;
                }
                if let Some(g0) = canon.insert(gt, g) {
                    if g0 != g {
                        o.fail(format!("c07.{ctx}.canon_dup"), format!("{what}: handle #{i} AND constraints = {:?} but an equal function already has handle {:?}", g, g0));
                        return false;
                    }
                }
                (g, gt)
            };
            let (got, exp) = (self.mgr.wmc(g), wmc_explicit(&gt, &w));
            if !close(got, exp) {
                o.fail(
                    format!("c07.{ctx}.wmc{}", if groups.is_empty() { "" } else { "_groups" }),
                    format!("{what}: wmc of handle #{i}{} = {got}, explicit sum over the table {} with weights {:?} = {exp}", if groups.is_empty() { "" } else { " AND constraints" }, tt_hex(&gt), w),
                );
                return false;
            }
            if with_grad {
                let before = (self.mgr.pos_weight().to_vec(), self.mgr.neg_weight().to_vec());
                let kinds: Vec<VarKind> = plan.vars[..n].iter().map(|v| self.mgr.var_kind(v.id)).collect();
                let grads = wmc_gradient(&mut self.mgr, g);
                let after = (self.mgr.pos_weight().to_vec(), self.mgr.neg_weight().to_vec());
                let kinds_after: Vec<VarKind> = plan.vars[..n].iter().map(|v| self.mgr.var_kind(v.id)).collect();
                if before.0.iter().map(|x| x.to_bits()).ne(after.0.iter().map(|x| x.to_bits())) || before.1.iter().map(|x| x.to_bits()).ne(after.1.iter().map(|x| x.to_bits())) || kinds != kinds_after {
                    o.fail(format!("c07.{ctx}.grad_restore"), format!("{what}: wmc_gradient left the weights changed: before {:?}, after {:?}", before, after));
                    return false;
                }
                for key in grads.keys() {
                    if !self.slot_of.contains_key(key) {
                        o.fail(format!("c07.{ctx}.grad_unknown_var"), format!("{what}: gradient has an entry for unregistered variable {key}"));
                        return false;
                    }
                }
                for s in 0..n {
                    let exp = grad_explicit(&gt, &w, s, plan.vars[s].group.is_none());
                    let got = grads.get(&plan.vars[s].id).copied().unwrap_or(0.0);
                    if !close(got, exp) {
                        o.fail(
                            format!("c07.{ctx}.grad{}", if plan.vars[s].group.is_none() { "" } else { "_group_var" }),
                            format!("{what}: d wmc(handle #{i}{}) / d p[var {}] = {got}, analytic {exp} (table {}, weights {:?})", if groups.is_empty() { "" } else { " AND constraints" }, plan.vars[s].id, tt_hex(&gt), w),
                        );
                        return false;
                    }
                }
            }
        }
        true
    }
}

// ------------------------------------------------------------------------------------------
// one budgeted operation: run it, classify the answer, continue unbudgeted after an Err
// ------------------------------------------------------------------------------------------

#[derive(Clone, Copy, Debug, PartialEq)]
enum Limit {
    Unlimited,
    /// absolute max_nodes
    Nodes(usize),
    /// deadline callback answers false from its k-th invocation on
    Deadline(usize),
}

struct BudgetedResult {
    handle: SddId,
    /// the budgeted call itself answered Ok
    ok: bool,
    err: Option<SddBudgetError>,
    /// number of deadline callback invocations
    calls: usize,
    fired: bool,
    nodes_before: usize,
    nodes_after_try: usize,
}

/// Runs `op` through the try_* entry point under `limit`. On Ok the unbudgeted entry point is
/// called too and must return the same handle. On Err, `after_err` is called (old handles can be
/// inspected) and then the operation is repeated without budget (`retry_with_try`: through try_*
/// with an unlimited budget instead of the plain entry point). None = a failure was recorded.
fn budgeted_op(eng: &mut Eng, plan: &Plan, op: &ROp, limit: Limit, retry_with_try: bool, ctx: &str, what: &str, o: &mut Outcome, after_err: &mut dyn FnMut(&mut Eng, &mut Outcome) -> bool) -> Option<BudgetedResult> {
    let before = eng.mgr.node_count();
    let (max_nodes, k) = match limit {
        Limit::Unlimited => (usize::MAX, usize::MAX),
        Limit::Nodes(n) => (n, usize::MAX),
        Limit::Deadline(k) => (usize::MAX, k),
    };
    let calls = std::cell::Cell::new(0usize);
    let fired = std::cell::Cell::new(false);
    let mut cb = || {
        let ok = calls.get() < k;
        calls.set(calls.get() + 1);
        if !ok {
            fired.set(true);
        }
        ok
    };
    let r = eng.exec(plan, op, Mode::Try { max_nodes, cb: &mut cb });
    let after = eng.mgr.node_count();
    let (calls, fired) = (calls.get(), fired.get());
    if max_nodes != usize::MAX && after > max_nodes.max(before) {
        o.fail(format!("c07.{ctx}.node_limit_crossed"), format!("{what}: node count went from {before} to {after} under max_nodes = {max_nodes} (result {:?})", r));
        return None;
    }
    match r {
        Ok(h) => {
            if fired {
                o.class("ok-although-deadline-fired");
            }
            let h2 = eng.exec(plan, op, Mode::Plain).unwrap();
            if h2 != h {
                o.fail(format!("c07.{ctx}.budget_rerun_differs"), format!("{what}: try_* under {:?} returned {:?}, the unbudgeted operation on the same manager returns {:?}", limit, h, h2));
                return None;
            }
            Some(BudgetedResult { handle: h, ok: true, err: None, calls, fired, nodes_before: before, nodes_after_try: after })
        }
        Err(e) => {
            let legit = match e {
                SddBudgetError::DeadlineExceeded => fired,
                SddBudgetError::NodeBudgetExceeded => max_nodes != usize::MAX && after >= max_nodes,
            };
            if !legit {
                o.fail(format!("c07.{ctx}.spurious_err"), format!("{what}: try_* under {:?} reported {:?} although that budget was not exhausted (deadline fired: {fired}, nodes {before}->{after})", limit, e));
                return None;
            }
            if !after_err(eng, o) {
                return None;
            }
            let h = if retry_with_try {
                let mut yes = || true;
                match eng.exec(plan, op, Mode::Try { max_nodes: usize::MAX, cb: &mut yes }) {
                    Ok(h) => h,
                    Err(e2) => {
                        o.fail(format!("c07.{ctx}.spurious_err_after_err"), format!("{what}: after {:?}, the same operation with an unlimited budget reported {:?}", e, e2));
                        return None;
                    }
                }
            } else {
                eng.exec(plan, op, Mode::Plain).unwrap()
            };
            Some(BudgetedResult { handle: h, ok: false, err: Some(e), calls, fired, nodes_before: before, nodes_after_try: after })
        }
    }
}

// ------------------------------------------------------------------------------------------
// part histories
// ------------------------------------------------------------------------------------------

fn run_history(c: &HCase, o: &mut Outcome) {
    let plan = make_plan(c);
    let mut b = Eng::new(); // manager under test (budgeted twins where the case says so)
    let mut u = Eng::new(); // unbudgeted twin manager
    let mut by_tt: BTreeMap<TT, (SddId, usize)> = BTreeMap::new();
    let mut by_h: BTreeMap<SddId, (TT, usize)> = BTreeMap::new();
    by_tt.insert(TT_FALSE, (SddId::FALSE, 0));
    by_tt.insert(TT_TRUE, (SddId::TRUE, 1));
    by_h.insert(SddId::FALSE, (TT_FALSE, 0));
    by_h.insert(SddId::TRUE, (TT_TRUE, 1));
    let mut budgeted_seen = false;
    for (si, step) in plan.steps.iter().enumerate() {
        match &step.op {
            ROp::NewVar(s) => {
                b.set_var(&plan, *s, plan.vars[*s].prob_m);
                u.set_var(&plan, *s, plan.vars[*s].prob_m);
                // vtree grew above every existing node: all old handles must be unaffected
                let upto = b.handles.len();
                if !b.check_all(&plan, upto, "hist", &format!("after step {si} (introduce variable {})", plan.vars[*s].id), o) {
                    return;
                }
                o.inner_evals += upto as u64;
            }
            ROp::Reweight(s, p) => {
                // counts are asked for before AND after a variable is registered again with another weight: whatever a
                // manager remembers between wmc calls must follow the weights in force (re-registration goes through
                // ensure_variable / ensure_variable_weights, not through the weight setters)
                let upto = b.handles.len();
                let before = format!("before step {si} (re-register variable {} with another weight)", plan.vars[*s].id);
                if !b.check_wmc(&plan, upto, false, "hist", &before, o) || !u.check_wmc(&plan, upto, false, "hist", &before, o) {
                    return;
                }
                b.set_var(&plan, *s, *p);
                u.set_var(&plan, *s, *p);
                let after = format!("after step {si} (variable {} re-registered with another weight)", plan.vars[*s].id);
                if !b.check_wmc(&plan, upto, false, "hist", &after, o) || !u.check_wmc(&plan, upto, false, "hist", &after, o) {
                    return;
                }
                o.class("wmc-before-and-after-reweight");
                o.inner_evals += 4 * upto as u64;
            }
            op => {
                let out = step.out.unwrap();
                let t = plan.tts[out];
                let hu = u.exec(&plan, op, Mode::Plain).unwrap();
                u.handles.push(hu);
                let what = format!("step {si} {:?} [{:?}]", op, step.bud);
                let hb = if step.bud == Bud::Plain {
                    b.exec(&plan, op, Mode::Plain).unwrap()
                } else {
                    budgeted_seen = true;
                    let limit = match step.bud {
                        Bud::Unlimited => Limit::Unlimited,
                        Bud::Nodes(e) => Limit::Nodes(b.mgr.node_count() + e as usize),
                        Bud::Deadline(k) => Limit::Deadline(k as usize),
                        Bud::Plain => unreachable!(),
                    };
                    let r = match budgeted_op(&mut b, &plan, op, limit, false, "hist", &what, o, &mut |_, _| true) {
                        Some(r) => r,
                        None => return,
                    };
                    if step.bud == Bud::Unlimited && !r.ok {
                        unreachable!("spurious_err covers this");
                    }
                    o.class_if(r.ok && step.bud != Bud::Unlimited, "limited-budget-ok");
                    o.class_if(r.err == Some(SddBudgetError::DeadlineExceeded), "deadline-err-then-continue");
                    o.class_if(r.err == Some(SddBudgetError::NodeBudgetExceeded), "node-err-then-continue");
                    o.class_if(r.err.is_some() && r.nodes_after_try > r.nodes_before, "err-left-partial-nodes");
                    let _ = (r.calls, r.fired);
                    r.handle
                };
                b.handles.push(hb);
                o.inner_evals += 1;
                // (2) canonicity against every earlier handle, (1) exactness of the new one
                if let Some((t0, j)) = by_h.get(&hb) {
                    if *t0 != t {
                        o.fail("c07.hist.canon_alias", format!("{what}: returned {:?}, which is also handle #{j} of a different function ({} vs {})", hb, tt_hex(t0), tt_hex(&t)));
                        return;
                    }
                } else {
                    if let Some((h0, j)) = by_tt.get(&t) {
                        let exact = models_tt(&b.mgr.enumerate_models(hb), &b.slot_of) == Ok(t);
                        o.fail(
                            if exact { "c07.hist.canon_dup" } else { "c07.hist.exact" },
                            format!("{what}: returned {:?} for function {} but handle #{j} = {:?} already denotes it (new handle enumerates the right table: {exact})", hb, tt_hex(&t), h0),
                        );
                        return;
                    }
                    if !b.check_exact(hb, &t, "hist", &what, o) {
                        return;
                    }
                    by_tt.insert(t, (hb, out));
                    by_h.insert(hb, (t, out));
                }
                // (5) same diagram as the unbudgeted twin on the twin manager
                if step.bud != Bud::Plain {
                    let (mb, mu) = (sorted_models(&b.mgr, hb), sorted_models(&u.mgr, hu));
                    if mb != mu {
                        o.fail("c07.hist.twin_structure", format!("{what}: budgeted manager's diagram has elements {:?}, the unbudgeted twin manager's {:?}", mb, mu));
                        return;
                    }
                    o.class_if(hb == hu, "twin-same-handle-number");
                }
            }
        }
    }
    let upto = b.handles.len();
    if !b.check_all(&plan, upto, "hist", "end of history", o) {
        return;
    }
    if !u.check_all(&plan, upto, "hist", "end of history (unbudgeted twin manager)", o) {
        return;
    }
    if !b.check_wmc(&plan, upto, true, "hist", "end of history", o) {
        return;
    }
    if !u.check_wmc(&plan, upto, false, "hist", "end of history (unbudgeted twin manager)", o) {
        return;
    }
    o.inner_evals += 3 * upto as u64;
    o.nontrivial = plan.cross_level && plan.compression;
    o.class_if(plan.cross_level, "cross-level-apply-across-var-introduction");
    o.class_if(plan.compression, "compression");
    o.class_if(plan.late_var, "variable-introduced-under-5+-handles");
    o.class_if(plan.reweight, "reweight");
    o.class_if(plan.eo3, "exactly_one>=3");
    o.class_if(plan.vars[..b.n()].iter().any(|v| v.group.is_some()), "exclusive-groups");
    o.class_if(budgeted_seen, "budgeted-steps");
    o.class_if(b.n() >= 6, "vars>=6");
    o.class_if(by_tt.len() >= 20, "distinct-functions>=20");
}

fn prob_strategy() -> BoxedStrategy<u16> {
    prop_oneof![1 => Just(0u16), 1 => Just(1000u16), 2 => Just(500u16), 10 => 1u16..1000].boxed()
}

fn vars_strategy(heavy: bool) -> BoxedStrategy<Vec<VarSpec>> {
    let n = if heavy { (5..=8usize).boxed() } else { prop_oneof![1 => 1..=3usize, 4 => 4..=8usize].boxed() };
    (n, any::<bool>())
        .prop_flat_map(|(n, grouped)| {
            let ids = proptest::sample::subsequence((0u32..12).collect::<Vec<u32>>(), n).prop_shuffle();
            let kind: BoxedStrategy<Option<u32>> = if grouped { prop_oneof![2 => Just(None), 3 => Just(Some(0u32)), 2 => Just(Some(7u32))].boxed() } else { Just(None).boxed() };
            (ids, proptest::collection::vec(kind, n), proptest::collection::vec(prob_strategy(), n))
        })
        .prop_map(|(ids, kinds, probs)| ids.into_iter().zip(kinds).zip(probs).map(|((id, group), prob_m)| VarSpec { id, group, prob_m }).collect())
        .boxed()
}

fn bud_strategy() -> BoxedStrategy<Bud> {
    prop_oneof![5 => Just(Bud::Plain), 2 => Just(Bud::Unlimited), 2 => (0u8..8).prop_map(Bud::Nodes), 2 => (0u16..60).prop_map(Bud::Deadline)].boxed()
}

fn pick_strategy() -> impl Strategy<Value = Pick> {
    (sel(), prop_oneof![1 => Just(0u8), 3 => Just(1u8), 3 => Just(2u8)]).prop_map(|(sel, mode)| Pick { sel, mode })
}

/// `heavy`: more macros / fewer plain literals, so that single operations get large (interruption part)
fn op_strategy(heavy: bool) -> BoxedStrategy<Op> {
    let w = if heavy { [5u32, 1, 2, 9, 2, 2, 5, 6] } else { [5u32, 1, 4, 10, 3, 2, 3, 3] };
    prop_oneof![
        w[0] => Just(Op::NewVar),
        w[1] => (sel(), prob_strategy()).prop_map(|(var, prob_m)| Op::Reweight { var, prob_m }),
        w[2] => (sel(), any::<bool>(), bud_strategy()).prop_map(|(var, pol, bud)| Op::Lit { var, pol, bud }),
        w[3] => (pick_strategy(), pick_strategy(), any::<bool>(), bud_strategy()).prop_map(|(a, b, or, bud)| Op::Apply { a, b, or, bud }),
        w[4] => (pick_strategy(), bud_strategy()).prop_map(|(a, bud)| Op::Neg { a, bud }),
        w[5] => (proptest::collection::vec(0u8..8, 1..=5), bud_strategy()).prop_map(|(slots, bud)| Op::Eo { slots, bud }),
        w[6] => (sel(), pick_strategy(), pick_strategy(), bud_strategy()).prop_map(|(var, a, b, bud)| Op::Mux { var, a, b, bud }),
        w[7] => (pick_strategy(), pick_strategy(), bud_strategy()).prop_map(|(a, b, bud)| Op::Xor { a, b, bud }),
    ]
    .boxed()
}

struct Histories;
impl Part for Histories {
    type Case = HCase;
    fn name(&self) -> &'static str {
        "histories"
    }
    fn cases(&self, tier: Tier) -> u32 {
        tier.pick(30_000, 500_000)
    }
    fn strategy(&self, _: Tier) -> BoxedStrategy<HCase> {
        (vars_strategy(false), proptest::collection::vec(op_strategy(false), 10..=60)).prop_map(|(vars, ops)| HCase { vars, ops, target: 0 }).boxed()
    }
    fn check(&self, c: &HCase) -> Outcome {
        let mut o = Outcome::new();
        if let Err(site) = catch(|| run_history(c, &mut o)) {
            o.panic("histories", &site);
        }
        o
    }
}

// ------------------------------------------------------------------------------------------
// part interruption
// ------------------------------------------------------------------------------------------

struct IntRun {
    res: BudgetedResult,
    /// canonical element structure of the target's result (after a possible retry)
    structure: Vec<Vec<(u32, bool)>>,
    final_nodes_at_target: usize,
}

/// Fresh manager; prefix unbudgeted; target step under `limit`; rest unbudgeted; (1)-(3) at the end.
fn int_run(plan: &Plan, target: usize, limit: Limit, retry_with_try: bool, o: &mut Outcome) -> Option<IntRun> {
    let mut e = Eng::new();
    let mut result: Option<IntRun> = None;
    for (si, step) in plan.steps.iter().enumerate() {
        match &step.op {
            ROp::NewVar(s) => e.set_var(plan, *s, plan.vars[*s].prob_m),
            ROp::Reweight(s, p) => e.set_var(plan, *s, *p),
            op if si == target => {
                let what = format!("target step {si} {:?} under {:?}", op, limit);
                let upto = e.handles.len();
                let mut after_err = |eng: &mut Eng, o: &mut Outcome| -> bool {
                    // old handles right after the interruption, before anything else touches the manager
                    eng.check_all(plan, upto, "int_old_handles", &format!("{what}: old handles right after the Err"), o)
                };
                let r = budgeted_op(&mut e, plan, op, limit, retry_with_try, "int", &what, o, &mut after_err)?;
                let t = plan.tts[step.out.unwrap()];
                let sfx = if r.ok { "target result (budgeted Ok)" } else { "target result (recomputed after Err)" };
                if !e.check_exact(r.handle, &t, if r.ok { "int_budgeted_ok" } else { "int_after_err" }, &format!("{what}: {sfx}"), o) {
                    return None;
                }
                let structure = sorted_models(&e.mgr, r.handle);
                let nodes = e.mgr.node_count();
                e.handles.push(r.handle);
                result = Some(IntRun { res: r, structure, final_nodes_at_target: nodes });
            }
            op => {
                let h = e.exec(plan, op, Mode::Plain).unwrap();
                e.handles.push(h);
            }
        }
    }
    let upto = e.handles.len();
    let what = format!("end of history, target step {target} ran under {:?}", limit);
    // separate signatures: wrong answers after a real interruption vs. without any
    let ctx = match &result {
        Some(r) if !r.res.ok => "int_after_err",
        _ => "int_uninterrupted",
    };
    if !e.check_all(plan, upto, ctx, &what, o) {
        return None;
    }
    if !e.check_wmc(plan, upto, false, ctx, &what, o) {
        return None;
    }
    result
}

fn run_interruption(c: &HCase, o: &mut Outcome) {
    let plan = make_plan(c);
    // pass 0: checkpoints of every handle-producing step (scratch manager, everything through try_*)
    let mut counts: Vec<(usize, usize)> = vec![];
    {
        let mut e = Eng::new();
        for (si, step) in plan.steps.iter().enumerate() {
            match &step.op {
                ROp::NewVar(s) => e.set_var(&plan, *s, plan.vars[*s].prob_m),
                ROp::Reweight(s, p) => e.set_var(&plan, *s, *p),
                op => {
                    let n = std::cell::Cell::new(0usize);
                    let mut cb = || {
                        n.set(n.get() + 1);
                        true
                    };
                    match e.exec(&plan, op, Mode::Try { max_nodes: usize::MAX, cb: &mut cb }) {
                        Ok(h) => e.handles.push(h),
                        Err(err) => {
                            o.fail("c07.int.spurious_err", format!("step {si} {:?}: try_* with an unlimited budget reported {:?}", op, err));
                            return;
                        }
                    }
                    counts.push((si, n.get()));
                }
            }
        }
        let upto = e.handles.len();
        if !e.check_all(&plan, upto, "int_alltry", "history executed entirely through try_* (unlimited)", o) {
            return;
        }
    }
    if counts.is_empty() {
        return;
    }
    // target: one of the three operations with the most checkpoints
    let mut by_n = counts.clone();
    by_n.sort_by(|x, y| y.1.cmp(&x.1).then(x.0.cmp(&y.0)));
    let target = by_n[pick_idx(c.target, by_n.len().min(3))].0;
    // reference: counting, never expiring
    let reference = match int_run(&plan, target, Limit::Unlimited, false, o) {
        Some(r) => r,
        None => return,
    };
    let n_ckpt = reference.res.calls;
    let (c0, c1) = (reference.res.nodes_before, reference.res.nodes_after_try);
    let mut points = 0u64;
    let mut errs = 0u64;
    let mut oks = 0u64;
    let mut partial = false;
    // deadline expiring at the k-th checkpoint, k = 0.. until a run finishes without the deadline firing
    let mut k = 0usize;
    loop {
        let r = match int_run(&plan, target, Limit::Deadline(k), k % 2 == 1, o) {
            Some(r) => r,
            None => return,
        };
        if !r.res.fired {
            // the operation needed at most k checkpoints this time: it is the unlimited run
            o.class_if(k != n_ckpt, "checkpoint-count-varies-between-identical-managers");
            break;
        }
        points += 1;
        if r.res.ok {
            oks += 1;
        } else {
            errs += 1;
            partial |= r.res.nodes_after_try > r.res.nodes_before;
        }
        if r.structure != reference.structure {
            o.fail("c07.int.twin_structure", format!("target step {target} with deadline at checkpoint {k}: resulting diagram {:?} differs from the uninterrupted twin's {:?}", r.structure, reference.structure));
            return;
        }
        let _ = r.final_nodes_at_target;
        k += 1;
        if k > 2 * n_ckpt + 8 {
            o.class("deadline-sweep-cut-at-2N+8");
            break;
        }
    }
    // every node budget from the current node count to the unbudgeted final count (plus 0)
    let mut budgets: Vec<usize> = vec![0];
    budgets.extend(c0..=c1);
    for (i, nb) in budgets.iter().enumerate() {
        let r = match int_run(&plan, target, Limit::Nodes(*nb), i % 2 == 1, o) {
            Some(r) => r,
            None => return,
        };
        points += 1;
        if r.res.ok {
            oks += 1;
        } else {
            errs += 1;
            partial |= r.res.nodes_after_try > r.res.nodes_before;
        }
        if r.structure != reference.structure {
            o.fail("c07.int.twin_structure", format!("target step {target} with max_nodes {nb}: resulting diagram {:?} differs from the unbudgeted twin's {:?}", r.structure, reference.structure));
            return;
        }
    }
    o.inner_evals += points;
    o.nontrivial = n_ckpt >= 5;
    o.class_if(n_ckpt >= 5, "checkpoints>=5");
    o.class_if(n_ckpt >= 20, "checkpoints>=20");
    o.class_if(n_ckpt >= 100, "checkpoints>=100");
    o.class_if(c1 - c0 >= 3, "node-budget-sweep>=3");
    o.class_if(errs > 0, "some-err");
    o.class_if(oks > 0, "some-ok-under-limit");
    o.class_if(partial, "err-left-partial-nodes");
    o.class_if(matches!(plan.steps[target].op, ROp::Apply(..)), "target-apply");
    o.class_if(matches!(plan.steps[target].op, ROp::Neg(..)), "target-negate");
    o.class_if(matches!(plan.steps[target].op, ROp::Eo(..)), "target-exactly_one");
    o.class_if(target + 1 < plan.steps.len(), "history-continues-after-target");
    o.class_if(plan.vars.iter().any(|v| v.group.is_some()), "exclusive-groups");
}

struct Interruption;
impl Part for Interruption {
    type Case = HCase;
    fn name(&self) -> &'static str {
        "interruption"
    }
    fn cases(&self, tier: Tier) -> u32 {
        tier.pick(6000, 80_000)
    }
    fn strategy(&self, _: Tier) -> BoxedStrategy<HCase> {
        // budgets inside the generated operations are ignored here: only the target is budgeted
        (vars_strategy(true), proptest::collection::vec(op_strategy(true), 10..=40), sel())
            .prop_map(|(vars, ops, target)| {
                let ops = ops
                    .into_iter()
                    .map(|op| match op {
                        Op::Lit { var, pol, .. } => Op::Lit { var, pol, bud: Bud::Plain },
                        Op::Apply { a, b, or, .. } => Op::Apply { a, b, or, bud: Bud::Plain },
                        Op::Neg { a, .. } => Op::Neg { a, bud: Bud::Plain },
                        Op::Eo { slots, .. } => Op::Eo { slots, bud: Bud::Plain },
                        Op::Mux { var, a, b, .. } => Op::Mux { var, a, b, bud: Bud::Plain },
                        Op::Xor { a, b, .. } => Op::Xor { a, b, bud: Bud::Plain },
                        other => other,
                    })
                    .collect();
                HCase { vars, ops, target }
            })
            .boxed()
    }
    fn check(&self, c: &HCase) -> Outcome {
        let mut o = Outcome::new();
        if let Err(site) = catch(|| run_interruption(c, &mut o)) {
            o.panic("interruption", &site);
        }
        o
    }
}

const PERMS: [[u8; 3]; 6] = [[0, 1, 2], [0, 2, 1], [1, 0, 2], [1, 2, 0], [2, 0, 1], [2, 1, 0]];

/// The fast table helpers against their naive definitions (harness self-check, not a property).
fn selftest() {
    let mut t: TT = [0x9E37_79B9_7F4A_7C15, 0xBF58_476D_1CE4_E5B9, 0x94D0_49BB_1331_11EB, 0x0123_4567_89AB_CDEF];
    for round in 0..8 {
        for slot in 0..8usize {
            for val in [false, true] {
                let c = tt_cof(&t, slot, val);
                for m in 0..256usize {
                    let src = if val { m | (1 << slot) } else { m & !(1 << slot) };
                    assert_eq!(tt_get(&c, m), tt_get(&t, src), "tt_cof self-check");
                }
            }
            let l = tt_lit(slot, true);
            assert_eq!(tt_support(&l), 1 << slot);
            assert_eq!(tt_cof(&l, slot, true), TT_TRUE);
            assert_eq!(tt_cof(&l, slot, false), TT_FALSE);
        }
        t = [mix(t[0], round), mix(t[1], round), mix(t[2], round), mix(t[3], round)];
    }
}

fn main() {
    selftest();
    if std::env::var("C07_DUMP").is_ok() {
        use proptest::strategy::ValueTree;
        let mut runner = proptest::test_runner::TestRunner::deterministic();
        for _ in 0..12 {
            let c = Histories.strategy(Tier::Quick).new_tree(&mut runner).unwrap().current();
            let plan = make_plan(&c);
            if plan.steps.len() > 40 { continue; }
            println!("--- vars={} ops={} steps={} handles={} cross={} compr={}", c.vars.len(), c.ops.len(), plan.steps.len(), plan.tts.len(), plan.cross_level, plan.compression);
            for st in &plan.steps {
                println!("  {:?} {:?} -> {:?} supp={:08b}", st.op, st.bud, st.out, st.out.map(|o| tt_support(&plan.tts[o])).unwrap_or(0));
            }
        }
        return;
    }
    let mut s = Session::start(
        "C07",
        "fault_enumeration",
        "Truth-table oracle for shared::sdd::SddManager. Part `exhaustive3`: for each variable-introduction order (quick: 1, thorough: all 6) all 256 functions of 3 variables are built from minterms in one manager; \
         one case = (order, left operand, And|Or, plain|try_* entry point) and checks all 256 right operands (result handle == handle of the expected function), negation of all 256, enumerate_models and wmc of all 256, gradient of the left operand \
         => 256x256x2 operand pairs x 2 entry points, exhaustive. Non-trivial = left operand not constant. \
         Part `histories`: 10-80 generated operations (incl. mux/xor macros of 5 operations) over up to 8 variables (ids in any order, Independent or ExclusiveGroup, introduced at any time, re-weighted), literal/apply/negate/exactly_one, each plain or through try_* (unlimited, node budget, deadline at k-th checkpoint), \
         checked against 256-bit shadow tables; non-trivial = the history has an apply whose operands have different top variables with one operand created before the other's top variable was introduced, AND an apply during whose recursive cross product (modelled on the tables: cofactors on the latest variable of the operands' supports) two elements get equal subs, so unique_d must compress. \
         Part `interruption`: in a generated history (up to 80 operations incl. mux/xor macros, 5-8 variables) one of the three operations with the most checkpoints is chosen; its checkpoints N are counted with a never-expiring callback, then the history is re-run on a fresh manager for every k = 0..N-1 (deadline answers false from the k-th checkpoint on) and for max_nodes = 0 and every value from the node count before the operation to the count after the unbudgeted run; after Err the operation is repeated unbudgeted, the rest of the history runs, and exactness/canonicity/wmc are re-checked for all handles; inner_evaluations counts interruption points; non-trivial = N >= 5. Distinct = distinct case value.",
    );
    s.assume("oracle = bit operations on truth tables, explicit sums for wmc and its partial derivatives; nothing of sdd.rs is reused");
    s.assume("inputs stay inside the documented domain: literals and exactly_one only over registered variables, exactly_one over distinct variables, probabilities in [0,1], Independent variables registered with neg = 1 - pos, ExclusiveGroup variables with neg = 1.0");
    s.assume("wmc with ExclusiveGroup variables is compared only on h AND exactly_one(G) for every registered group G (unsmoothed wmc is structure-dependent otherwise); gradient entries with |g| <= 1e-15 may be absent");
    s.assume("'same result as the unbudgeted one' is checked as: same handle as the unbudgeted entry point on the same manager, and same canonical element structure (sorted enumerate_models) as the twin manager; handle numbers of different managers are not compared");
    s.assume("node-limit invariant (node_count never exceeds max_nodes through a budgeted operation) taken from the repository test budgeted_operations_never_cross_node_limit");
    let orders: Vec<[u8; 3]> = if s.tier == Tier::Quick { vec![PERMS[3]] } else { PERMS.to_vec() };
    let iter = orders.into_iter().flat_map(|order| (0..256u32).flat_map(move |left| [(false, false), (true, false), (false, true), (true, true)].into_iter().map(move |(or, budgeted)| ECase { order, left: left as u8, or, budgeted })));
    s.run_enum(&Exhaustive3, iter, true);
    s.run(&Histories);
    s.run(&Interruption);
    std::process::exit(s.finish());
}
