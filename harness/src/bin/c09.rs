//! C09 — a time window reports exactly the stream items of one aligned interval.
//!
//! Engine under test: `CSPARQLWindow<u32>` built exactly as the engine builder does
//! (`Report` with the single strategy `OnWindowClose`, `Tick::TimeDriven`), observed through the
//! registered callback (and, differentially, the registered channel). Items are event sequence
//! numbers, so several events with one timestamp stay distinguishable.
//!
//! Oracle (written from the property text, nothing taken from s2r.rs): the stream is in order, so
//! "the items whose timestamps fall in [c - width, c)" is an index range of the stream that two
//! binary searches give. For every firing the set F of feasible closes c (multiples of the slide,
//! c <= triggering timestamp, interval content == reported content) is computed in closed form and
//! cross-checked against a brute-force enumeration straight from the definition whenever the number
//! of candidates is small (always in the exhaustive part).
//!   1. F is non-empty for every firing (no item missing, none foreign);
//!   2. at most one firing per call, no two firings for one timestamp (strictly increasing triggers);
//!   3. a non-decreasing choice c_1 <= c_2 <= ... with c_j in F_j exists (greedy smallest feasible);
//!   4. if every gap is <= slide: a strictly increasing choice exists that contains every multiple
//!      c of the slide with t_first < c <= t_last (each interval that closed while the stream ran
//!      was reported exactly once; intervals closing at or before the first event are optional).
//! `flush()` is outside the trigger model of the property and never called.

use kolibrie::rsp::s2r::{CSPARQLWindow, ContentContainer, Report, ReportStrategy, Tick};
use kvh::engine::*;
use proptest::prelude::*;
use serde::{Deserialize, Serialize};
use std::sync::{Arc, Mutex};

#[derive(Clone, Debug, Serialize, Deserialize)]
struct Case {
    width: usize,
    slide: usize,
    /// non-decreasing timestamps; event i carries the item `i as u32`
    ts: Vec<usize>,
}

// ------------------------------------------------------------------------------------------
// reference model
// ------------------------------------------------------------------------------------------

struct Model<'a> {
    ts: &'a [usize],
    width: usize,
    slide: usize,
}

/// Set of feasible closes of one firing (always intersected with the multiples of the slide).
#[derive(Clone, Debug, PartialEq)]
enum Feas {
    Nothing,
    /// every multiple of the slide in lo..=hi
    Range { lo: usize, hi: usize },
    /// every multiple c <= hi of the slide whose interval [c-width, c) holds no stream item
    EmptyUpTo { hi: usize },
}

impl<'a> Model<'a> {
    /// index of the first event with timestamp >= x
    fn lb(&self, x: usize) -> usize {
        self.ts.partition_point(|t| *t < x)
    }
    /// index range of the events with c - width <= t < c
    fn interval(&self, c: usize) -> (usize, usize) {
        (self.lb(c.saturating_sub(self.width)), self.lb(c))
    }
    fn ceil_mult(&self, x: usize) -> usize {
        (x + self.slide - 1) / self.slide * self.slide
    }
    /// smallest multiple c of the slide with from <= c <= hi whose interval is empty
    fn next_empty(&self, from: usize, hi: usize) -> Option<usize> {
        let mut c = self.ceil_mult(from);
        loop {
            if c > hi {
                return None;
            }
            let (a, b) = self.interval(c);
            if a == b {
                return Some(c);
            }
            // event a stays inside every interval closing in (c, ts[a] + width]
            c = self.ceil_mult(self.ts[a] + self.width + 1);
        }
    }
    /// closed form of the feasible set for a reported content (sorted item ids), trigger time `trig`
    fn feasible(&self, items: &[u32], trig: usize) -> Feas {
        let n = self.ts.len();
        if items.is_empty() {
            return match self.next_empty(0, trig) {
                Some(_) => Feas::EmptyUpTo { hi: trig },
                None => Feas::Nothing,
            };
        }
        let a = items[0] as usize;
        let b = *items.last().unwrap() as usize + 1;
        if b > n || b - a != items.len() {
            return Feas::Nothing; // unknown item or a hole: never an interval of an in-order stream
        }
        // lb(c - width) == a  and  lb(c) == b
        let mut lo = self.ts[b - 1] + 1;
        if a > 0 {
            lo = lo.max(self.ts[a - 1] + self.width + 1);
        }
        let mut hi = (self.ts[a] + self.width).min(trig);
        if b < n {
            hi = hi.min(self.ts[b]);
        }
        let lo = self.ceil_mult(lo);
        if lo > hi {
            return Feas::Nothing;
        }
        let hi = hi / self.slide * self.slide;
        if lo > hi {
            Feas::Nothing
        } else {
            Feas::Range { lo, hi }
        }
    }
    fn smallest_ge(&self, f: &Feas, x: usize) -> Option<usize> {
        match f {
            Feas::Nothing => None,
            Feas::Range { lo, hi } => {
                let c = self.ceil_mult(x.max(*lo));
                if c <= *hi {
                    Some(c)
                } else {
                    None
                }
            }
            Feas::EmptyUpTo { hi } => self.next_empty(x, *hi),
        }
    }
    fn contains(&self, f: &Feas, c: usize) -> bool {
        if c % self.slide != 0 {
            return false;
        }
        match f {
            Feas::Nothing => false,
            Feas::Range { lo, hi } => *lo <= c && c <= *hi,
            Feas::EmptyUpTo { hi } => {
                let (a, b) = self.interval(c);
                c <= *hi && a == b
            }
        }
    }
    /// the definition, literally: every multiple c <= trig of the slide whose item set equals `items`
    fn brute(&self, items: &[u32], trig: usize) -> Vec<usize> {
        let mut v = vec![];
        let mut c = 0usize;
        while c <= trig {
            let got: Vec<u32> = self.ts.iter().enumerate().filter(|(_, t)| **t + self.width >= c && **t < c).map(|(i, _)| i as u32).collect();
            if got == items {
                v.push(c);
            }
            c += self.slide;
        }
        v
    }
    fn enumerate(&self, f: &Feas) -> Vec<usize> {
        let mut v = vec![];
        let mut x = 0;
        while let Some(c) = self.smallest_ge(f, x) {
            v.push(c);
            x = c + 1;
        }
        v
    }
}

struct Firing {
    call: usize,
    trig: usize,
    items: Vec<u32>,
    feas: Feas,
}

/// Does a strictly increasing choice c_j in F_j exist that contains every close in `required` (ascending)?
fn strict_cover_exists(m: &Model, firings: &[Firing], required: &[usize]) -> bool {
    // dp[q] = smallest possible last close after the firings seen so far when exactly required[..q]
    // are covered and nothing of required[q..] has been passed (None = impossible); -1 = nothing chosen
    let r = required.len();
    let mut dp: Vec<Option<i64>> = vec![None; r + 1];
    dp[0] = Some(-1);
    for f in firings {
        let mut nx: Vec<Option<i64>> = vec![None; r + 1];
        for q in 0..=r {
            let Some(v) = dp[q] else { continue };
            let from = (v + 1) as usize;
            if let Some(c) = m.smallest_ge(&f.feas, from) {
                if q == r || c < required[q] {
                    let c = c as i64;
                    nx[q] = Some(nx[q].map_or(c, |o| o.min(c)));
                }
            }
            if q < r && (required[q] as i64) > v && m.contains(&f.feas, required[q]) {
                let c = required[q] as i64;
                nx[q + 1] = Some(nx[q + 1].map_or(c, |o| o.min(c)));
            }
        }
        dp = nx;
    }
    dp[r].is_some()
}

fn show_items(m: &Model, items: &[u32]) -> String {
    let v: Vec<String> = items.iter().map(|i| format!("#{}@{}", i, m.ts.get(*i as usize).map(|t| t.to_string()).unwrap_or("?".into()))).collect();
    format!("{{{}}}", v.join(","))
}

fn run_case(c: &Case, force_selfcheck: bool) -> Outcome {
    let mut out = Outcome::new();
    let n = c.ts.len();
    let m = Model { ts: &c.ts, width: c.width, slide: c.slide };

    // ---- drive the engine (configuration of WindowRunner::new / RSPBuilder defaults) -------------
    let mut report = Report::new();
    report.add(ReportStrategy::OnWindowClose);
    let mut win: CSPARQLWindow<u32> = CSPARQLWindow::new(c.width, c.slide, report, Tick::TimeDriven, "urn:c09:w".to_string());
    let seen: Arc<Mutex<Vec<ContentContainer<u32>>>> = Arc::new(Mutex::new(Vec::new()));
    let seen2 = seen.clone();
    win.register_callback(Box::new(move |content| seen2.lock().unwrap().push(content)));
    let rx = win.register();

    let mut firings: Vec<Firing> = vec![];
    for k in 0..n {
        let t = c.ts[k];
        if let Err(site) = catch(|| win.add_to_window(k as u32, t)) {
            out.panic(&format!("add_to_window(#{k}, {t}) width={} slide={}", c.width, c.slide), &site);
            return out;
        }
        let got: Vec<ContentContainer<u32>> = std::mem::take(&mut *seen.lock().unwrap());
        let mut via_channel = vec![];
        while let Ok(x) = rx.try_recv() {
            via_channel.push(x);
        }
        if via_channel != got {
            out.fail("c09.channel_vs_callback", format!("call #{k} (ts {t}): callback saw {} firing(s), channel delivered {} or different contents", got.len(), via_channel.len()));
        }
        if got.len() > 1 {
            out.fail("c09.trigger.several_firings_in_one_call", format!("add_to_window(#{k}, {t}) fired {} times", got.len()));
        }
        for content in got {
            let mut pairs: Vec<(u32, usize)> = content.iter_with_timestamps().map(|(i, t)| (*i, t)).collect();
            pairs.sort();
            for (i, its) in &pairs {
                match c.ts.get(*i as usize) {
                    None => out.fail("c09.content.unknown_item", format!("firing at call #{k}: item {i} was never sent")),
                    Some(own) if own != its => out.fail("c09.content.item_timestamp", format!("firing at call #{k}: item #{i} carries timestamp {its}, was sent with {own}")),
                    _ => {}
                }
            }
            if content.len() != pairs.len() {
                out.fail("c09.content.len", format!("firing at call #{k}: len() = {} but {} items iterated", content.len(), pairs.len()));
            }
            let items: Vec<u32> = pairs.iter().map(|p| p.0).collect();
            let feas = m.feasible(&items, t);
            firings.push(Firing { call: k, trig: t, items, feas });
        }
    }
    out.inner_evals += firings.len() as u64;

    // ---- harness self-check: closed form == definition ------------------------------------------
    for f in &firings {
        if force_selfcheck || f.trig / c.slide <= 128 {
            let b = m.brute(&f.items, f.trig);
            let e = m.enumerate(&f.feas);
            if b != e {
                out.fail("c09.harness_selfcheck", format!("oracle bug: feasible closes for content {:?} trig {}: closed form {:?} vs definition {:?}", f.items, f.trig, e, b));
                return out;
            }
        }
    }

    // ---- clause 2: triggers strictly increase --------------------------------------------------
    for w in firings.windows(2) {
        if w[1].trig <= w[0].trig && w[1].call != w[0].call {
            out.fail("c09.trigger.not_strictly_increasing", format!("firings at calls #{} and #{} both triggered at time {} / {}", w[0].call, w[1].call, w[0].trig, w[1].trig));
        }
    }

    // ---- clause 1: some aligned interval has exactly this content ------------------------------
    let mut all_feasible = true;
    for f in &firings {
        if f.feas != Feas::Nothing {
            continue;
        }
        all_feasible = false;
        // classify against the aligned intervals around the reported items (closing not after the trigger)
        let (mut sub, mut sup) = (None, None);
        let known: Vec<usize> = f.items.iter().filter(|i| (**i as usize) < n).map(|i| c.ts[*i as usize]).collect();
        if known.len() == f.items.len() {
            let (mut cc, stop) = match (known.iter().min(), known.iter().max()) {
                (Some(lo), Some(hi)) => (m.ceil_mult(*lo), (*hi + c.width + c.slide).min(f.trig)),
                _ => (0, f.trig), // empty content: already the first aligned interval is non-empty
            };
            while cc <= stop && (sub.is_none() || sup.is_none()) {
                let (a, b) = m.interval(cc);
                let inside = |i: &u32| (a..b).contains(&(*i as usize));
                if sub.is_none() && f.items.len() < b - a && f.items.iter().all(inside) {
                    sub = Some(cc);
                }
                if sup.is_none() && b > a && f.items.len() > b - a && (a..b).all(|i| f.items.contains(&(i as u32))) {
                    sup = Some(cc);
                }
                if f.items.is_empty() && sub.is_some() {
                    break;
                }
                cc += c.slide;
            }
        }
        let nat = f.trig / c.slide * c.slide;
        let (na, nb) = m.interval(nat);
        let natural: Vec<u32> = (na..nb).map(|i| i as u32).collect();
        let tail = format!(
            "call #{} (ts {}), width={} slide={}: reported {} equals the content of no interval [c-{w},c) with c a multiple of {s} and c<={}; e.g. c={} holds {}",
            f.call,
            f.trig,
            c.width,
            c.slide,
            show_items(&m, &f.items),
            f.trig,
            nat,
            show_items(&m, &natural),
            w = c.width,
            s = c.slide
        );
        // a reported set that is a proper subset of an aligned interval lacks items; a proper superset has foreign ones
        match (sub, sup) {
            (Some(cx), None) => out.fail("c09.content.item_missing", format!("{tail}; it is a proper subset of the interval closing at {cx}")),
            (None, Some(cx)) => out.fail("c09.content.item_foreign", format!("{tail}; it is a proper superset of the interval closing at {cx}")),
            (Some(c1), Some(c2)) => out.fail("c09.content.misaligned", format!("{tail}; proper subset of the interval closing at {c1} and proper superset of the one closing at {c2}")),
            _ => out.fail("c09.content.misaligned", tail),
        }
    }

    // ---- clause 3: non-decreasing intervals ------------------------------------------------------
    if all_feasible {
        let mut prev = 0usize;
        for (j, f) in firings.iter().enumerate() {
            match m.smallest_ge(&f.feas, prev) {
                Some(cx) => prev = cx,
                None => {
                    out.fail(
                        "c09.intervals_not_monotone",
                        format!(
                            "width={} slide={}: firing {j} (call #{}, ts {}) content {} only fits closes {:?}, all before the smallest close {prev} forced by the earlier firings",
                            c.width,
                            c.slide,
                            f.call,
                            f.trig,
                            show_items(&m, &f.items),
                            m.enumerate(&f.feas).iter().take(8).collect::<Vec<_>>()
                        ),
                    );
                    break;
                }
            }
        }
    }

    // ---- clause 4: completeness under density --------------------------------------------------
    let dense = n >= 1 && c.ts.windows(2).all(|w| w[1] - w[0] <= c.slide);
    let mut required: Vec<usize> = vec![];
    if dense && n >= 1 {
        let (t0, t1) = (c.ts[0], c.ts[n - 1]);
        let mut r = (t0 / c.slide + 1) * c.slide;
        while r <= t1 {
            required.push(r);
            r += c.slide;
        }
    }
    if dense && all_feasible && out.ok() {
        let t0 = c.ts[0];
        let j = firings.len();
        let r = required.len();
        // closes > t_first that are <= t_last are all required, so a strictly increasing choice covering
        // them is: a prefix of j - r firings with closes <= t_first, then required[i] for firing prefix + i.
        let mut ok = j >= r;
        if ok {
            let p = j - r;
            let mut from = 0usize;
            for f in &firings[..p] {
                match m.smallest_ge(&f.feas, from) {
                    Some(cx) if cx <= t0 => from = cx + 1,
                    _ => {
                        ok = false;
                        break;
                    }
                }
            }
            for (i, f) in firings[p..].iter().enumerate() {
                if !m.contains(&f.feas, required[i]) {
                    ok = false;
                }
            }
        }
        if !ok {
            // which root cause? (a) only EMPTY closing intervals went unreported, everything else exactly once
            let nonempty: Vec<usize> = required.iter().copied().filter(|r| {
                let (a, b) = m.interval(*r);
                a != b
            }).collect();
            let relaxed = strict_cover_exists(&m, &firings, &nonempty);
            let fired: Vec<String> = firings.iter().map(|f| format!("call#{}@{}:{}", f.call, f.trig, show_items(&m, &f.items))).collect();
            let detail = format!(
                "width={} slide={} ts={:?} (all gaps <= slide): intervals closing in ({}, {}] are c={:?} ({} of them non-empty), but the {} firing(s) [{}] admit no strictly increasing assignment covering each exactly once",
                c.width,
                c.slide,
                &c.ts[..n.min(40)],
                t0,
                c.ts[n - 1],
                &required[..r.min(40)],
                nonempty.len(),
                j,
                fired.iter().take(12).cloned().collect::<Vec<_>>().join(" ")
            );
            if relaxed && c.slide > c.width {
                out.fail("c09.dense.empty_interval_unreported.slide_gt_width", detail);
            } else if j < r {
                out.fail("c09.dense.interval_unreported", detail);
            } else {
                out.fail("c09.dense.not_exactly_once", detail);
            }
        }
    }

    // ---- coverage classes / non-triviality -------------------------------------------------------
    let mut both = false;
    for w in firings.windows(2) {
        let added = w[1].items.iter().any(|i| !w[0].items.contains(i));
        let evicted = w[0].items.iter().any(|i| !w[1].items.contains(i));
        if added && evicted {
            both = true;
        }
    }
    out.nontrivial = firings.len() >= 2 && both;
    out.class_if(firings.len() >= 2, "firings>=2");
    out.class_if(both, "content-slides(add+evict)");
    out.class_if(firings.is_empty(), "no-firing");
    out.class_if(c.slide > c.width, "slide>width");
    out.class_if(c.width % c.slide != 0 && c.width > c.slide, "width-not-multiple-of-slide");
    out.class_if(c.width == c.slide, "tumbling");
    out.class_if(c.ts.windows(2).any(|w| w[0] == w[1]), "duplicate-timestamps");
    out.class_if(c.ts.windows(2).any(|w| w[1] - w[0] > c.width), "gap>width");
    out.class_if(c.ts.windows(2).any(|w| w[1] - w[0] > c.slide), "gap>slide");
    out.class_if(dense && n >= 2, "dense");
    out.class_if(dense && required.len() >= 3, "dense-required>=3");
    out.class_if(dense && required.iter().any(|r| m.interval(*r).0 == m.interval(*r).1), "dense-with-empty-closing-interval");
    out.class_if(firings.iter().any(|f| f.items.is_empty()), "empty-content-firing");
    out.class_if(firings.iter().any(|f| f.call == 0), "first-event-fires");
    out.class_if(firings.iter().any(|f| !f.items.is_empty() && matches!(f.feas, Feas::Range{lo, hi} if lo < hi)), "content-fits-several-closes");
    out.class_if(firings.iter().any(|f| matches!(f.feas, Feas::Range{lo, ..} if lo < c.width)), "interval-starts-before-0");
    out.class_if(firings.iter().any(|f| f.trig % c.slide != 0), "trigger-not-on-boundary");
    out.class_if(firings.iter().any(|f| f.items.len() >= 2 && c.ts[f.items[0] as usize] == c.ts[f.items[1] as usize]), "reported-duplicates-of-a-timestamp");
    out
}

// ------------------------------------------------------------------------------------------
// parts
// ------------------------------------------------------------------------------------------

const GAPS: [usize; 6] = [0, 1, 2, 3, 7, 20];

struct Exhaustive;
impl Part for Exhaustive {
    type Case = Case;
    fn name(&self) -> &'static str {
        "exhaustive"
    }
    fn cases(&self, _: Tier) -> u32 {
        0
    }
    fn strategy(&self, _: Tier) -> BoxedStrategy<Case> {
        Just(Case { width: 1, slide: 1, ts: vec![] }).boxed()
    }
    fn check(&self, case: &Case) -> Outcome {
        run_case(case, true)
    }
}

fn exhaustive_cases(max_events: usize) -> impl Iterator<Item = Case> + Send {
    (1..=max_events).flat_map(move |n| {
        (1usize..=5).flat_map(move |width| {
            (1usize..=5).flat_map(move |slide| {
                let mut firsts = vec![0, 1, slide, slide + 1];
                firsts.sort();
                firsts.dedup();
                firsts.into_iter().flat_map(move |first| {
                    let words = GAPS.len().pow(n as u32 - 1);
                    (0..words).map(move |mut k| {
                        let mut ts = Vec::with_capacity(n);
                        let mut t = first;
                        ts.push(t);
                        for _ in 1..n {
                            t += GAPS[k % GAPS.len()];
                            k /= GAPS.len();
                            ts.push(t);
                        }
                        Case { width, slide, ts }
                    })
                })
            })
        })
    })
}

struct Random;
impl Part for Random {
    type Case = Case;
    fn name(&self) -> &'static str {
        "random"
    }
    fn cases(&self, tier: Tier) -> u32 {
        tier.pick(100_000, 2_000_000)
    }
    fn strategy(&self, _tier: Tier) -> BoxedStrategy<Case> {
        // slide: small / medium / large; width relative to the slide (below, equal, multiple, odd multiple)
        let slide = prop_oneof![3 => 1usize..=8, 3 => 1usize..=100, 2 => 1usize..=1000];
        let shape = (0u8..10, 1usize..=12, sel());
        // per event: (kind selector, magnitude selector)
        let ev = (0u8..100, sel());
        (slide, shape, 0u8..6, sel(), proptest::collection::vec(ev, 1..300usize))
            .prop_map(|(slide, (wk, mult, wsel), mode, fsel, evs)| {
                let width = match wk {
                    0 | 1 => 1 + pick_idx(wsel, slide),                               // width <= slide
                    2 => slide,                                                       // tumbling
                    3 | 4 => slide * mult,                                            // multiple of the slide
                    _ => slide * (mult - 1) + 1 + pick_idx(wsel, slide),              // anything up to mult*slide
                }
                .clamp(1, 1000);
                let firsts = [0, 1, slide, slide + 1, pick_idx(fsel, 3 * slide + 2), width, width + 1];
                let first = firsts[pick_idx(fsel.rotate_left(5), firsts.len())];
                let mut ts = Vec::with_capacity(evs.len());
                let mut t = first;
                ts.push(t);
                for (kind, mag) in evs.iter().skip(1) {
                    // mode 0,1: dense (every gap <= slide); 2: bursty duplicates, dense; 3: bursty with jumps;
                    // 4: sparse (many gaps > width); 5: mixed
                    let dense_gap = pick_idx(*mag, slide + 1);
                    let gap = match mode {
                        0 => dense_gap,
                        1 => if *kind < 50 { slide } else { dense_gap },
                        2 => if *kind < 65 { 0 } else { dense_gap },
                        3 => if *kind < 60 { 0 } else if *kind < 90 { dense_gap } else { width + pick_idx(*mag, 2 * slide + 2) },
                        4 => if *kind < 40 { width + 1 + pick_idx(*mag, 3 * width) } else if *kind < 60 { width } else { pick_idx(*mag, width + slide + 1) },
                        _ => match *kind {
                            0..=29 => dense_gap,
                            30..=49 => 0,
                            50..=64 => slide,
                            65..=79 => slide + 1 + pick_idx(*mag, width),
                            80..=89 => width,
                            _ => width + 1 + pick_idx(*mag, 2 * width + slide),
                        },
                    };
                    t += gap;
                    ts.push(t);
                }
                Case { width, slide, ts }
            })
            .boxed()
    }
    fn check(&self, case: &Case) -> Outcome {
        run_case(case, false)
    }
}

/// Entry point of the libFuzzer target `pbt_c09` (fuzz/fuzz_targets/pbt_c09.rs includes this file as a module).
#[allow(dead_code)]
pub fn fuzz_one(data: &[u8]) -> Vec<Failure> {
    thread_local! {
        static S: (BoxedStrategy<<Random as Part>::Case>, std::collections::HashSet<String>) = (Random.strategy(Tier::Thorough), open_known_sigs_of("C09"));
    }
    S.with(|(st, known)| kvh::engine::fuzz_one(&Random, st, data, known))
}

fn main() {
    let mut s = Session::start(
        "C09",
        "exploration",
        "CSPARQLWindow<u32> (Report{OnWindowClose}, Tick::TimeDriven — the engine builder's configuration) fed an in-order stream; item i is the event sequence number. \
         After every add_to_window the firings seen by the registered callback (and, differentially, the registered channel) are collected; per firing the set of feasible closes \
         {c multiple of slide, c <= trigger ts, items with c-width <= t < c == reported content} is computed by a reference model (closed form, cross-checked against literal enumeration); \
         checked: non-empty feasible set, item timestamps, <=1 firing per call, strictly increasing triggers, a non-decreasing close assignment, and for streams whose gaps are all <= slide a strictly \
         increasing assignment covering every multiple of the slide in (t_first, t_last]. Part `exhaustive`: EVERY stream of 1..=N events (N=6 quick, 8 thorough) with gaps from {0,1,2,3,7,20} and first \
         timestamp in {0,1,slide,slide+1} x every (width, slide) in 1..=5 x 1..=5. Part `random`: slide 1..=1000, width 1..=1000 (below/equal/multiple/non-multiple of the slide), up to 300 events, \
         gap modes dense / bursty duplicates / gaps > width / mixed. Non-trivial = >=2 firings and some reported content differs from the previous one by both an added and an evicted item; \
         distinct = distinct (width, slide, timestamp list).",
    );
    s.assume("timestamps are usize event times starting near 0 (t_0 = 0 as CSPARQLWindow::new fixes it); in-order streams only; flush() is not part of the trigger model and is never called");
    s.assume("an interval is identified only through its content (ContentContainer exposes no bounds): a firing is accepted if SOME aligned close c <= trigger explains it; intervals closing at or before the first event need not be reported");
    let max_events = s.tier.pick(6usize, 8usize);
    s.run_enum(&Exhaustive, exhaustive_cases(max_events), true);
    s.run(&Random);
    // coverage-guided search over the same strategy and oracle (libFuzzer drives the random stream): thorough tier
    s.fuzz_campaign(&Random, "libfuzzer:random", "pbt_c09", 6_000, 8, 8192);
    std::process::exit(s.finish());
}
