//! C06 — probabilities attached to derived facts equal their possible-worlds probability (exact modes: DNF and SDD
//! model counting), the min-max mode reports the widest-path value, the Boolean mode plain derivability.
//! Oracle: exhaustive enumeration of the 2^n worlds over the uncertain input facts (`kvh::oracle_datalog`).

use datalog::reasoning::Reasoner;
use kvh::engine::*;
use kvh::gen_datalog::*;
use kvh::oracle_datalog::*;
use proptest::prelude::*;
use serde::{Deserialize, Serialize};
use shared::provenance::{BooleanProvenance, DnfWmcProvenance, MinMaxProbability, Provenance};
use shared::sdd::SddProvenance;
use shared::triple::Triple;
use std::collections::{BTreeMap, BTreeSet};

const EPS: f64 = 1e-9;

#[derive(Clone, Debug, Serialize, Deserialize)]
struct Case {
    prog: Program,
    /// (index into prog.facts, probability): the uncertain input facts (distinct indices); all others are certain
    uncertain: Vec<(usize, f64)>,
    fact_keys: Vec<u16>,
    rule_keys: Vec<u16>,
    rules_first: bool,
}

#[derive(Clone, Copy, PartialEq, Debug)]
enum Mode {
    Dnf,
    Sdd,
    MinMax,
    Boolean,
}

impl Mode {
    fn name(self) -> &'static str {
        match self {
            Mode::Dnf => "dnf",
            Mode::Sdd => "sdd",
            Mode::MinMax => "minmax",
            Mode::Boolean => "boolean",
        }
    }
}

fn engine_probs<P: Provenance>(r: &mut Reasoner, prov: P) -> Vec<(Triple, f64)> {
    let (_new, ts) = r.infer_new_facts_with_provenance(prov);
    let all = r.dataset_index.query(None, None, None);
    all.into_iter()
        .map(|t| {
            let p = ts.provenance().recover_probability(&ts.get_tag(&t));
            (t, p)
        })
        .collect()
}

fn show_prog(c: &Case) -> String {
    let p = &c.prog;
    let t = |t: &T| match t {
        T::V(v) => format!("?{v}"),
        T::C(c) => c.clone(),
    };
    let a = |a: &Atom| format!("({} {} {})", t(&a[0]), t(&a[1]), t(&a[2]));
    let w: BTreeMap<usize, f64> = c.uncertain.iter().copied().collect();
    let mut s = String::from("facts:");
    for (i, f) in p.facts.iter().enumerate() {
        match w.get(&i) {
            Some(pr) => s.push_str(&format!(" {}::({} {} {})", pr, f[0], f[1], f[2])),
            None => s.push_str(&format!(" ({} {} {})", f[0], f[1], f[2])),
        }
    }
    for r in &p.rules {
        s.push_str("\n  rule: ");
        s.push_str(&r.premise.iter().map(&a).collect::<Vec<_>>().join(", "));
        for n in &r.negative {
            s.push_str(&format!(", NOT {}", a(n)));
        }
        for f in &r.filters {
            s.push_str(&format!(", FILTER(?{} {} {})", f.var, f.op, f.value));
        }
        s.push_str(" -> ");
        s.push_str(&r.conclusion.iter().map(&a).collect::<Vec<_>>().join(", "));
    }
    s
}

struct Expect {
    /// value every store fact must carry (absent = 0)
    value: BTreeMap<Fact, f64>,
    /// facts the store may contain at all
    allowed: BTreeSet<Fact>,
    /// Boolean mode: values are compared exactly
    exact: bool,
}

fn run_mode(case: &Case, tr: &Translated, mode: Mode, permuted: bool, exp: &Expect, out: &mut Outcome) {
    let p = &case.prog;
    let naf = if p.has_negation() { ".naf" } else { "" };
    let label = format!("{} ({} insertion order)", mode.name(), if permuted { "permuted" } else { "given" });
    let (fo, ro, rf) = if permuted {
        (perm_from_keys(p.facts.len(), &case.fact_keys), perm_from_keys(p.rules.len(), &case.rule_keys), case.rules_first)
    } else {
        ((0..p.facts.len()).collect(), (0..p.rules.len()).collect(), false)
    };
    let w: BTreeMap<usize, f64> = case.uncertain.iter().copied().collect();
    let mut r = match catch(|| load(p, &fo, &ro, rf, &|i| w.get(&i).copied())) {
        Ok(Ok(r)) => r,
        Ok(Err(e)) => {
            out.fail("c06.safe_rule_rejected", format!("{label}: {e}"));
            return;
        }
        Err(site) => {
            out.panic(&format!("{label}: loading"), &site);
            return;
        }
    };
    let res = catch(|| match mode {
        Mode::Dnf => engine_probs(&mut r, DnfWmcProvenance::new()),
        Mode::Sdd => engine_probs(&mut r, SddProvenance::new()),
        Mode::MinMax => engine_probs(&mut r, MinMaxProbability),
        Mode::Boolean => engine_probs(&mut r, BooleanProvenance),
    });
    let res = match res {
        Ok(v) => v,
        Err(site) => {
            out.panic(&format!("{label}: infer_new_facts_with_provenance"), &site);
            return;
        }
    };
    out.inner_evals += 1;
    let mut syms = tr.syms.clone();
    let triples: Vec<Triple> = res.iter().map(|x| x.0.clone()).collect();
    let facts = decode_triples(&r, &triples, &mut syms);
    let mut got: BTreeMap<Fact, f64> = BTreeMap::new();
    for (f, (_, pr)) in facts.iter().zip(res.iter()) {
        got.insert(*f, *pr);
    }
    let tol = if mode == Mode::MinMax { 2.0 * EPS } else { EPS };
    for (f, g) in &got {
        if !exp.allowed.contains(f) {
            out.fail(format!("c06.{}.invented_fact{naf}", mode.name()), format!("{label}: store contains {} (value {g}) which holds in no world\n{}", syms.show(f), show_prog(case)));
            continue;
        }
        let e = exp.value.get(f).copied().unwrap_or(0.0);
        let bad = if exp.exact { *g != e } else { !((g - e).abs() <= tol) };
        if bad {
            out.fail(
                format!("c06.{}.{}{naf}", mode.name(), if mode == Mode::MinMax { "value" } else if mode == Mode::Boolean { "derivability" } else { "probability" }),
                format!("{label}: fact {} engine {} oracle {} (diff {:e})\n{}", syms.show(f), g, e, g - e, show_prog(case)),
            );
        }
    }
    for (f, e) in &exp.value {
        if *e > tol && !got.contains_key(f) {
            out.fail(format!("c06.{}.missing_fact{naf}", mode.name()), format!("{label}: fact {} has oracle value {} but is not in the store\n{}", syms.show(f), e, show_prog(case)));
        }
    }
}

fn run_case(case: &Case) -> Outcome {
    let mut out = Outcome::new();
    let p = &case.prog;
    let n = case.uncertain.len();
    // well-formedness of the case itself (replay files may be hand-written)
    let idx: BTreeSet<usize> = case.uncertain.iter().map(|x| x.0).collect();
    if idx.len() != n || idx.iter().any(|i| *i >= p.facts.len()) || n > 12 || case.uncertain.iter().any(|x| !(x.1 >= 0.0 && x.1 <= 1.0)) || !p.rules.iter().all(|r| r.is_safe()) {
        out.skipped.push("malformed-case");
        return out;
    }
    let tr = match translate(p) {
        Ok(t) => t,
        Err(_) => {
            out.ambiguous += 1;
            out.skipped.push("filter-meaning-undefined");
            return out;
        }
    };
    let w: BTreeMap<usize, f64> = case.uncertain.iter().copied().collect();
    let certain: BTreeSet<Fact> = tr.facts.iter().enumerate().filter(|(i, _)| !w.contains_key(i)).map(|(_, f)| *f).collect();
    let unc: Vec<(Fact, f64)> = case.uncertain.iter().map(|(i, pr)| (tr.facts[*i], *pr)).collect();
    let unc_facts: Vec<Fact> = unc.iter().map(|x| x.0).collect();
    let probs: Vec<f64> = unc.iter().map(|x| x.1).collect();
    let inputs: BTreeSet<Fact> = tr.facts.iter().copied().collect();

    let tt = match world_truth_tables(&tr.prog, &certain, &unc_facts) {
        Ok(t) => t,
        Err(_) => {
            out.ambiguous += 1;
            out.skipped.push("numeric-filter-on-non-numeric-term");
            return out;
        }
    };
    let world_p: BTreeMap<Fact, f64> = tt.iter().map(|(f, b)| (*f, tt_probability(b, &probs))).collect();
    // harness self-check: the bitset fixpoint must equal the explicit per-world enumeration
    if n <= 8 {
        match world_probabilities_enum(&tr.prog, &certain, &unc) {
            Ok(e) => {
                let same = e.len() == world_p.len() && e.iter().all(|(f, x)| world_p.get(f).map_or(false, |y| (x - y).abs() <= 1e-12));
                if !same {
                    out.fail("c06.harness.oracle_selfcheck", format!("HARNESS BUG: truth-table oracle and world enumeration disagree\n{}", show_prog(case)));
                    return out;
                }
            }
            Err(_) => {
                out.fail("c06.harness.oracle_selfcheck", "HARNESS BUG: enumeration undetermined but truth tables determined");
                return out;
            }
        }
    }
    let negation = p.has_negation();
    // classes
    out.class(match n {
        0 => "n=0",
        1 => "n=1",
        2..=4 => "n=2..4",
        5..=8 => "n=5..8",
        _ => "n=9..12",
    });
    out.class_if(negation, "negation");
    out.class_if(p.is_recursive(), "recursive-program");
    out.class_if(probs.iter().any(|x| *x == 0.0), "seed-with-p=0");
    out.class_if(probs.iter().any(|x| *x == 1.0), "seed-with-p=1");
    let derived: Vec<&Fact> = tt.keys().filter(|f| !inputs.contains(f)).collect();
    out.class_if(!derived.is_empty(), "derives-something");
    out.class_if(derived.iter().any(|f| world_p[f] > 1e-6 && world_p[f] < 1.0 - 1e-6), "derived-fact-with-0<P<1");
    let mut shared = false;
    let mut multi = false;
    if !negation {
        for f in tt.keys() {
            let mw = minimal_worlds(&tt[f], n);
            if !inputs.contains(f) || unc_facts.contains(f) {
                if mw.len() >= 2 {
                    multi = true;
                    for i in 0..mw.len() {
                        for j in i + 1..mw.len() {
                            if mw[i] & mw[j] != 0 {
                                shared = true;
                            }
                        }
                    }
                }
            }
        }
        // an uncertain input fact that is also derivable without itself
        for (i, f) in unc_facts.iter().enumerate() {
            let all_but = ((1usize << n) - 1) & !(1 << i);
            if tt.get(f).map_or(false, |b| b.get(all_but)) {
                out.class("seed-also-derivable");
            }
        }
        let has_cycle = tr.facts.iter().any(|a| a.0 != a.2 && tr.facts.iter().any(|b| b.1 == a.1 && b.0 == a.2 && b.2 == a.0));
        out.class_if(has_cycle, "input-cycle-a<->b");
    } else {
        let blocked_by_uncertain = tr.prog.rules.iter().any(|r| !r.negative.is_empty()) && derived.iter().any(|f| world_p[f] > 1e-6 && world_p[f] < 1.0 - 1e-6);
        out.class_if(blocked_by_uncertain, "negation-with-uncertain-outcome");
    }
    out.class_if(multi, "fact-with-2+-minimal-proofs");
    out.class_if(shared, "proofs-sharing-a-seed");
    out.nontrivial = n >= 2 && !derived.is_empty() && (shared || p.is_recursive());

    // expectations
    let exact = Expect { value: world_p.clone(), allowed: tt.keys().copied().chain(inputs.iter().copied()).collect(), exact: false };
    let mut modes: Vec<(Mode, Expect)> = vec![(Mode::Dnf, Expect { value: exact.value.clone(), allowed: exact.allowed.clone(), exact: false }), (Mode::Sdd, exact)];
    if !negation {
        let mut weights: BTreeMap<Fact, f64> = certain.iter().map(|f| (*f, 1.0)).collect();
        for (f, pr) in &unc {
            weights.insert(*f, *pr);
        }
        match widest_path(&tr.prog, &weights) {
            Ok(v) => {
                let allowed: BTreeSet<Fact> = v.keys().copied().chain(inputs.iter().copied()).collect();
                modes.push((Mode::MinMax, Expect { value: v, allowed, exact: false }));
            }
            Err(_) => out.skipped.push("minmax:undetermined"),
        }
    } else {
        out.skipped.push("minmax:negation-has-no-stated-meaning");
    }
    let positive_inputs: BTreeSet<Fact> = certain.iter().copied().chain(unc.iter().filter(|x| x.1 > 0.0).map(|x| x.0)).collect();
    match stratified_model(&tr.prog, &positive_inputs) {
        Ok(m) => {
            let value: BTreeMap<Fact, f64> = m.keys().map(|f| (*f, 1.0)).collect();
            let allowed: BTreeSet<Fact> = m.keys().copied().chain(inputs.iter().copied()).collect();
            modes.push((Mode::Boolean, Expect { value, allowed, exact: true }));
        }
        Err(_) => out.skipped.push("boolean:undetermined"),
    }
    for (mode, exp) in &modes {
        for permuted in [false, true] {
            run_mode(case, &tr, *mode, permuted, exp, &mut out);
        }
    }
    out
}

// ---------------------------------------------------------------------------------------------
// generators
// ---------------------------------------------------------------------------------------------

fn prob_strategy() -> BoxedStrategy<f64> {
    prop_oneof![
        1 => Just(0.0f64),
        1 => Just(1.0f64),
        5 => (1u8..16).prop_map(|k| k as f64 / 16.0),
        5 => 0.0001f64..0.9999,
    ]
    .boxed()
}

fn vt(s: &str) -> T {
    T::V(s.to_string())
}
fn ct(s: &str) -> T {
    T::C(s.to_string())
}

/// Graph-shaped programs that stress correlation: reachability (linear and doubling), symmetric-transitive closure on
/// one predicate (cycles, seeds that are also derivable), shared-evidence joins, optional negated rule on top.
fn shape_program(kind: u8, nodes: usize, edges: &[(u16, u16, u8)], with_naf: bool) -> Program {
    let names = ["1", "2", "3", "4", "5", "6"];
    let mut facts: Vec<[String; 3]> = vec![];
    let mut seen = BTreeSet::new();
    let mut push = |f: [String; 3], facts: &mut Vec<[String; 3]>| {
        if seen.insert(f.clone()) {
            facts.push(f);
        }
    };
    let (x, y, z) = (vt("X"), vt("Y"), vt("Z"));
    let rule = |premise: Vec<Atom>, conclusion: Vec<Atom>| RuleSpec { premise, negative: vec![], filters: vec![], conclusion };
    let mut rules = vec![];
    match kind % 5 {
        0 | 1 => {
            for (a, b, _) in edges {
                push([names[pick_idx(*a, nodes)].into(), "e".into(), names[pick_idx(*b, nodes)].into()], &mut facts);
            }
            rules.push(rule(vec![[x.clone(), ct("e"), y.clone()]], vec![[x.clone(), ct("r"), y.clone()]]));
            if kind % 5 == 0 {
                rules.push(rule(vec![[x.clone(), ct("r"), y.clone()], [y.clone(), ct("e"), z.clone()]], vec![[x.clone(), ct("r"), z.clone()]]));
            } else {
                rules.push(rule(vec![[x.clone(), ct("r"), y.clone()], [y.clone(), ct("r"), z.clone()]], vec![[x.clone(), ct("r"), z.clone()]]));
            }
        }
        2 => {
            // one predicate, symmetric + transitive: input facts are themselves derivable, a<->b cycles
            for (a, b, _) in edges {
                push([names[pick_idx(*a, nodes)].into(), "p".into(), names[pick_idx(*b, nodes)].into()], &mut facts);
            }
            rules.push(rule(vec![[x.clone(), ct("p"), y.clone()]], vec![[y.clone(), ct("p"), x.clone()]]));
            rules.push(rule(vec![[x.clone(), ct("p"), y.clone()], [y.clone(), ct("p"), z.clone()]], vec![[x.clone(), ct("p"), z.clone()]]));
        }
        3 => {
            // shared evidence: active(X), knows(X,Y) -> social(X) ; social(X), knows(X,Y) -> near(Y,X)
            for (a, b, k) in edges {
                if k % 3 == 0 {
                    push([names[pick_idx(*a, nodes)].into(), "a".into(), "1".into()], &mut facts);
                } else {
                    push([names[pick_idx(*a, nodes)].into(), "k".into(), names[pick_idx(*b, nodes)].into()], &mut facts);
                }
            }
            rules.push(rule(vec![[x.clone(), ct("a"), z.clone()], [x.clone(), ct("k"), y.clone()]], vec![[x.clone(), ct("s"), ct("1")]]));
            rules.push(rule(vec![[x.clone(), ct("s"), z.clone()], [x.clone(), ct("k"), y.clone()]], vec![[y.clone(), ct("r"), x.clone()]]));
        }
        _ => {
            // mutual recursion between two predicates over two edge relations
            for (a, b, k) in edges {
                push([names[pick_idx(*a, nodes)].into(), if k % 2 == 0 { "e" } else { "f" }.into(), names[pick_idx(*b, nodes)].into()], &mut facts);
            }
            rules.push(rule(vec![[x.clone(), ct("e"), y.clone()]], vec![[x.clone(), ct("p"), y.clone()]]));
            rules.push(rule(vec![[x.clone(), ct("p"), y.clone()], [y.clone(), ct("f"), z.clone()]], vec![[x.clone(), ct("q"), z.clone()]]));
            rules.push(rule(vec![[x.clone(), ct("q"), y.clone()], [y.clone(), ct("e"), z.clone()]], vec![[x.clone(), ct("p"), z.clone()]]));
        }
    }
    if with_naf {
        // one-way reachability / asymmetric pairs: body predicate of the first rule's head, head "n" is in no body
        let body = match &rules[0].conclusion[0][1] {
            T::C(c) => c.clone(),
            _ => "r".to_string(),
        };
        rules.push(RuleSpec { premise: vec![[x.clone(), ct(&body), y.clone()]], negative: vec![[y.clone(), ct(&body), x.clone()]], filters: vec![], conclusion: vec![[x.clone(), ct("n"), y.clone()]] });
    }
    Program { facts, rules }
}

fn case_strategy(max_unc: usize, exact_unc: Option<usize>, general_cfg: GenCfg) -> BoxedStrategy<Case> {
    let shapes = (0u8..5, 3usize..=5, proptest::collection::vec((any::<u16>(), any::<u16>(), any::<u8>()), exact_unc.unwrap_or(3)..=exact_unc.map_or(10, |n| n + 3)), proptest::bool::weighted(0.2))
        .prop_map(|(kind, nodes, edges, naf)| shape_program(kind, if edges.len() > 10 { nodes.max(5) } else { nodes }, &edges, naf))
        .boxed();
    let general = program_strategy(general_cfg);
    let prog = prop_oneof![3 => shapes, 2 => general];
    (prog, proptest::collection::vec(any::<u16>(), 32), proptest::collection::vec(prob_strategy(), 12), 1usize..=max_unc, proptest::collection::vec(any::<u16>(), 32), proptest::collection::vec(any::<u16>(), 6), any::<bool>(), proptest::bool::weighted(0.4))
        .prop_map(move |(prog, unc_keys, ps, n_unc, fact_keys, rule_keys, rules_first, dense)| {
            // dense: as many uncertain facts as allowed (several alternative proofs need several uncertain leaves)
            let n_unc = if dense { max_unc } else { n_unc };
            let n = exact_unc.unwrap_or(n_unc).min(prog.facts.len()).min(12);
            let order = perm_from_keys(prog.facts.len(), &unc_keys);
            let mut uncertain: Vec<(usize, f64)> = order[..n].iter().enumerate().map(|(k, i)| (*i, ps[k])).collect();
            uncertain.sort_by_key(|x| x.0);
            Case { prog, uncertain, fact_keys, rule_keys, rules_first }
        })
        .boxed()
}

struct Worlds;
impl Part for Worlds {
    type Case = Case;
    fn name(&self) -> &'static str {
        "worlds"
    }
    fn cases(&self, tier: Tier) -> u32 {
        tier.pick(12_000, 190_000)
    }
    fn strategy(&self, _tier: Tier) -> BoxedStrategy<Case> {
        case_strategy(8, None, GenCfg { min_facts: 3, max_facts: 14, max_rules: 3, max_premises: 3, filters: true, negation: true, var_predicates: true })
    }
    fn check(&self, case: &Case) -> Outcome {
        run_case(case)
    }
}

/// thorough only: exactly 12 uncertain facts (4096 worlds per case)
struct Worlds12;
impl Part for Worlds12 {
    type Case = Case;
    fn name(&self) -> &'static str {
        "worlds12"
    }
    fn cases(&self, tier: Tier) -> u32 {
        tier.pick(0, 10_000)
    }
    fn strategy(&self, _tier: Tier) -> BoxedStrategy<Case> {
        case_strategy(12, Some(12), GenCfg { min_facts: 12, max_facts: 16, max_rules: 3, max_premises: 2, filters: true, negation: true, var_predicates: true })
    }
    fn check(&self, case: &Case) -> Outcome {
        run_case(case)
    }
}

fn main() {
    let mut s = Session::start(
        "C06",
        "exploration",
        "Datalog programs (60% graph shapes stressing correlation: linear / doubling reachability, symmetric+transitive closure on one predicate, shared-evidence joins, mutual recursion, optional negated rule; 40% general C05 programs with <=14 facts, <=3 rules) \
         where 1-8 input facts (part worlds12, thorough only: exactly 12) carry probabilities from {0, 1, k/16, arbitrary f64 in (0,1)} and the rest are certain. For every fact of the engine's store after infer_new_facts_with_provenance the recovered probability is compared with the \
         possible-worlds oracle (all 2^n subsets of the uncertain facts, stratified model per world, world weights summed): DnfWmcProvenance and SddProvenance within 1e-9, MinMaxProbability against the widest-path value, BooleanProvenance against plain derivability from the facts with p>0; \
         every fact of positive oracle value must be present; each mode is run in the given and in a permuted insertion order (different seed numbering). AddMult and TopK are approximations by their documentation and are not asserted. \
         Non-trivial = >=2 uncertain facts, something is derived, and (some fact has two minimal proofs sharing a seed, or the program is recursive); distinct = distinct program+probabilities.",
    );
    s.assume("uncertain input facts are independent; a world is a subset of them; the probability of a fact is the total weight of the worlds whose (stratified) least model contains it");
    s.assume("min-max mode is only judged on programs without negation (the property gives no meaning to negation there); facts with probability 0 do not exist for min-max and Boolean derivations (repository test prov_zero_tag_pruning)");
    s.assume("the truth-table form of the oracle is cross-checked against explicit per-world enumeration in every case with n <= 8");
    s.run(&Worlds);
    s.run(&Worlds12);
    std::process::exit(s.finish());
}
