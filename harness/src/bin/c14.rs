//! C14 — exported data re-imports to the same dataset.
//!
//! Part `datasets`: proptest-generated datasets of the property's domain (valid http/https/urn/mailto
//! IRIs, blank nodes, quoted triples nested at most once, arbitrary Unicode literals that cannot be
//! mistaken for an IRI / blank node / quoted triple) are put into a SparqlDatabase through the public
//! API, exported with generate_nquads / generate_ntriples / generate_turtle, re-imported into an EMPTY
//! database with the matching parser and compared, as sets of lexical quads, with the dataset itself
//! (`kvh::rt_oracle`).  Part `corpus`: the saved libFuzzer corpus / crash files decoded by the same
//! bytes->dataset decoder as the fuzz target, on the stable build.  Part `libfuzzer` (thorough tier):
//! a fixed-work libFuzzer campaign of the target `nt_roundtrip`; crash files are replayed in-process
//! before anything is reported.

use kvh::engine::*;
use kvh::rt_oracle::*;
use proptest::prelude::*;
use proptest::sample::select;
use serde::{Deserialize, Serialize};
use std::collections::{BTreeMap, BTreeSet, HashSet};
use std::io::{BufRead, BufReader};
use std::sync::OnceLock;

fn root() -> String {
    std::env::var("KVH_ROOT").unwrap_or_else(|_| "/verif".to_string())
}

fn known() -> &'static HashSet<String> {
    static K: OnceLock<HashSet<String>> = OnceLock::new();
    K.get_or_init(|| open_known_sigs(&root()))
}

static HISTOGRAM: std::sync::Mutex<BTreeMap<String, (u64, String)>> = std::sync::Mutex::new(BTreeMap::new());

fn discover() -> bool {
    static D: OnceLock<bool> = OnceLock::new();
    *D.get_or_init(|| std::env::var("C14_DISCOVER").is_ok())
}

/// Record failures, the ones NOT covered by an open known finding first (an Outcome keeps 8).
fn record(o: &mut Outcome, mut fails: Vec<(String, String)>) {
    fails.sort_by_key(|(sig, _)| known().contains(sig));
    if discover() {
        // survey mode (C14_DISCOVER=1): histogram of every signature instead of stopping at the first
        let mut h = HISTOGRAM.lock().unwrap();
        for (sig, detail) in fails {
            let e = h.entry(sig).or_insert((0, detail.clone()));
            e.0 += 1;
            if detail.len() < e.1.len() {
                e.1 = detail;
            }
        }
        return;
    }
    for (sig, detail) in fails {
        o.fail(sig, detail);
    }
}

// ------------------------------------------------------------------------------------------
// generators
// ------------------------------------------------------------------------------------------

const SPECIALS: [char; 17] = ['"', '\\', '\n', '\r', '\t', ' ', '.', ';', ',', '<', '>', '@', '^', '#', '{', '}', '|'];
const FILLERS: [char; 27] =
    ['a', 'b', 'n', 'r', 't', 'u', 'U', 'x', 'A', '0', '1', '4', '7', '\u{e9}', '\u{df}', '\u{4e2d}', ':', '_', '-', '+', '/', '\'', '~', '%', '=', '?', 'Z'];
const SEPARATORS: [char; 7] = ['\u{85}', '\u{2028}', '\u{2029}', '\u{a0}', '\u{7f}', '\u{feff}', '\u{3000}'];
const COMBINING: [char; 4] = ['\u{301}', '\u{308}', '\u{20d7}', '\u{fe0f}'];
const ASTRAL: [char; 4] = ['\u{1f600}', '\u{10348}', '\u{e0001}', '\u{10ffff}'];
const ESCAPE_LOOKALIKES: [&str; 14] = ["\\n", "\\t", "\\r", "\\\"", "\\\\", "\\u0041", "\\U0001F600", "\\x", "\\", "\"", "a", " ", "\\u00", "'"];
const MORE_EDGE_LITS: [&str; 27] = [
    "{| a b |}", "{|a|}", "x{| <http://a> <http://b> |}", "{| |}", "|}{|", "\n", "\r", "\t", "a\n", "\na", "a\tb", " a", "a b", "\"\"", "\\\\", "<", ">", "<>", "a>", "{|", "|}", "a # b", "a . b", "a ; b , c", "@en", "^^", "a\u{85}",
];

fn lit_char() -> BoxedStrategy<char> {
    prop_oneof![
        6 => select(SPECIALS.to_vec()),
        2 => (0u32..0x20).prop_map(|c| char::from_u32(c).unwrap()),
        1 => select(SEPARATORS.to_vec()),
        1 => select(COMBINING.to_vec()),
        1 => select(ASTRAL.to_vec()),
        4 => select(FILLERS.to_vec()),
        1 => any::<char>(),
    ]
    .boxed()
}

fn filler(max: usize) -> BoxedStrategy<String> {
    proptest::collection::vec(select(FILLERS.to_vec()), 0..=max).prop_map(|v| v.into_iter().collect()).boxed()
}

fn raw_literal(maxlen: usize) -> BoxedStrategy<String> {
    let edge: Vec<String> = EDGE_LITS.iter().chain(MORE_EDGE_LITS.iter()).map(|s| s.to_string()).collect();
    prop_oneof![
        // arbitrary mixtures of the weighted alphabet (the empty string included)
        8 => proptest::collection::vec(lit_char(), 0..=maxlen).prop_map(|v| v.into_iter().collect::<String>()),
        // exactly one special character somewhere in harmless text
        5 => (filler(4), lit_char(), filler(4)).prop_map(|(a, c, b)| format!("{a}{c}{b}")),
        // hand-picked boundary values
        3 => select(edge),
        // values ending in a backslash, a quote, a blank or a dot
        2 => (proptest::collection::vec(lit_char(), 0..=5), select(vec!['\\', '"', ' ', '.'])).prop_map(|(v, e)| {
            let mut s: String = v.into_iter().collect();
            s.push(e);
            s
        }),
        // text that looks like escape sequences
        2 => proptest::collection::vec(select(ESCAPE_LOOKALIKES.to_vec()), 1..=4).prop_map(|v| v.concat()),
        // values wrapped in the delimiters of another term kind
        1 => (proptest::collection::vec(lit_char(), 0..=4), select(vec![("<", ">"), ("\"", "\""), ("{|", "|}"), ("'", "'"), ("<", ">>")]))
            .prop_map(|(v, (a, b))| format!("{a}{}{b}", v.into_iter().collect::<String>())),
        // long values (large payloads): harmless text up to and around 1 KiB / 4 KiB / 8 KiB with one special character
        // placed on the boundary
        1 => (select(vec![1023usize, 1024, 1025, 4095, 4096, 4097, 8192, 9000]), lit_char(), 0usize..3, select(FILLERS.to_vec())).prop_map(|(n, c, off, f)| {
            let mut s: String = std::iter::repeat(f).take(n.saturating_sub(off)).collect();
            s.push(c);
            s.extend(std::iter::repeat(f).take(off + 2));
            s
        }),
    ]
    .boxed()
}

/// Literals of the domain by construction (`make_literal` puts a breaker in front of mistakable text).
fn literal(maxlen: usize) -> BoxedStrategy<String> {
    (raw_literal(maxlen), select(LIT_BREAKERS.to_vec())).prop_map(|(raw, br)| make_literal(raw, br)).boxed()
}

#[derive(Clone, Copy, Debug, PartialEq)]
enum Scheme {
    Http,
    NonHttp,
    Any,
}

fn iri(which: Scheme) -> BoxedStrategy<String> {
    let bases: Vec<&'static str> = match which {
        Scheme::Http => vec!["http://example.org/", "https://example.org/", "http://a.example/x/"],
        Scheme::NonHttp => vec!["urn:ex:", "urn:isbn:", "mailto:", "mailto:u@example.org?subject="],
        Scheme::Any => vec!["http://example.org/", "https://example.org/", "urn:ex:", "mailto:"],
    };
    (select(bases), select(vec!['a', 'k', 'Q', '0']), proptest::collection::vec(select(IRI_TAIL.to_vec()), 0..=6))
        .prop_map(|(base, first, tail)| {
            let mut s = String::from(base);
            s.push(first);
            for c in tail {
                push_iri_char(&mut s, c);
            }
            s
        })
        .boxed()
}

fn pooled_iri(pool: &'static [&'static str], which: Scheme) -> BoxedStrategy<String> {
    prop_oneof![3 => select(pool.to_vec()).prop_map(|s| s.to_string()), 2 => iri(which)].boxed()
}

fn bnode() -> BoxedStrategy<RtTerm> {
    prop_oneof![3 => select(BNODE_LABELS.to_vec()).prop_map(|s| s.to_string()), 1 => "[a-z][a-z0-9]{0,3}"].prop_map(RtTerm::BNode).boxed()
}

fn quoted_flat() -> BoxedStrategy<RtTerm> {
    let o = prop_oneof![
        2 => pooled_iri(&OBJECT_IRIS, Scheme::Any).prop_map(RtTerm::Iri),
        2 => prop_oneof![select(SIMPLE_LITS.to_vec()).prop_map(|s| s.to_string()), "[A-Za-z0-9]{1,5}".prop_map(|s: String| s)].prop_map(RtTerm::Lit),
    ];
    (pooled_iri(&SUBJECT_IRIS, Scheme::Any), pooled_iri(&PRED_IRIS, Scheme::Any), o)
        .prop_map(|(s, p, o)| RtTerm::Quoted(Box::new(RtTerm::Iri(s)), Box::new(RtTerm::Iri(p)), Box::new(o)))
        .boxed()
}

fn quoted_nested() -> BoxedStrategy<RtTerm> {
    (quoted_flat(), quoted_flat(), any::<bool>())
        .prop_map(|(inner, outer, in_subject)| match outer {
            RtTerm::Quoted(s, p, o) => {
                if in_subject {
                    RtTerm::Quoted(Box::new(inner), p, o)
                } else {
                    RtTerm::Quoted(s, p, Box::new(inner))
                }
            }
            other => other,
        })
        .boxed()
}

fn subject_term() -> BoxedStrategy<RtTerm> {
    prop_oneof![
        6 => pooled_iri(&SUBJECT_IRIS, Scheme::Any).prop_map(RtTerm::Iri),
        2 => bnode(),
        1 => quoted_flat(),
        1 => quoted_nested(),
    ]
    .boxed()
}

fn object_term(maxlit: usize) -> BoxedStrategy<RtTerm> {
    prop_oneof![
        9 => literal(maxlit).prop_map(RtTerm::Lit),
        2 => pooled_iri(&OBJECT_IRIS[..2], Scheme::Http).prop_map(RtTerm::Iri),
        2 => pooled_iri(&OBJECT_IRIS[2..5], Scheme::NonHttp).prop_map(RtTerm::Iri),
        1 => bnode(),
        1 => quoted_flat(),
        1 => quoted_nested(),
    ]
    .boxed()
}

fn dataset(tier: Tier) -> BoxedStrategy<RtDataset> {
    let maxq = tier.pick(6usize, 10usize);
    let maxlit = tier.pick(10usize, 16usize);
    (
        proptest::collection::vec(subject_term(), 1..=3),
        proptest::collection::vec(pooled_iri(&PRED_IRIS, Scheme::Any), 1..=3),
        proptest::collection::vec(object_term(maxlit), 1..=5),
        proptest::collection::vec(pooled_iri(&GRAPH_IRIS, Scheme::Any), 1..=2),
        proptest::collection::vec((sel(), sel(), sel(), 0u8..10, sel()), 1..=maxq),
    )
        .prop_map(|(ss, ps, os, gs, picks)| {
            let quads = picks
                .into_iter()
                .map(|(a, b, c, gk, d)| RtQuad {
                    s: ss[pick_idx(a, ss.len())].clone(),
                    p: ps[pick_idx(b, ps.len())].clone(),
                    o: os[pick_idx(c, os.len())].clone(),
                    // 60 % default graph
                    g: if gk < 6 { None } else { Some(gs[pick_idx(d, gs.len())].clone()) },
                })
                .collect();
            RtDataset { quads }
        })
        .boxed()
}

// ------------------------------------------------------------------------------------------
// part: generated datasets
// ------------------------------------------------------------------------------------------

const DELIMS: [char; 17] = SPECIALS;

fn classify(o: &mut Outcome, ds: &RtDataset) {
    let mut lit_delim = false;
    let mut quoted = false;
    let mut non_http_obj = false;
    let mut by_subject: BTreeMap<String, BTreeSet<&str>> = BTreeMap::new();
    let mut by_sp: BTreeMap<(String, &str), BTreeSet<String>> = BTreeMap::new();
    let mut triple_graphs: BTreeMap<(String, &str, String), BTreeSet<Option<&str>>> = BTreeMap::new();
    for q in &ds.quads {
        if q.s.is_quoted() {
            quoted = true;
            o.class("quoted-subject");
        }
        o.class_if(matches!(q.s, RtTerm::BNode(_)), "bnode-subject");
        o.class_if(q.g.is_some(), "named-graph");
        match &q.o {
            RtTerm::Lit(l) => {
                let f = features(l);
                if l.chars().any(|c| DELIMS.contains(&c)) {
                    lit_delim = true;
                }
                o.class_if(l.is_empty(), "lit-empty");
                o.class_if(l.len() >= 1000, "lit-long(>=1000 bytes)");
                o.class_if(f.contains(&Feat::Escape) || f.contains(&Feat::LeadingDquote), "lit-escape-char");
                o.class_if(f.contains(&Feat::EdgeWs) || f.contains(&Feat::EdgeLinebreak), "lit-edge-whitespace");
                o.class_if(f.contains(&Feat::AngleWrapped), "lit-angle-wrapped");
                o.class_if(f.contains(&Feat::AnnotationMarker), "lit-annotation-marker");
                o.class_if(f.is_empty() && !l.is_empty(), "lit-featureless");
                o.class_if(l.ends_with('\\'), "lit-ends-backslash");
                o.class_if(l.chars().any(|c| (c as u32) < 0x20 && !matches!(c, '\n' | '\r' | '\t')), "lit-c0-control");
                o.class_if(l.chars().any(|c| matches!(c, '\u{85}' | '\u{2028}' | '\u{2029}')), "lit-unicode-line-separator");
                o.class_if(l.chars().any(|c| (c as u32) > 0xffff), "lit-astral");
                o.class_if(l.chars().any(|c| matches!(c as u32, 0x300..=0x36f | 0x20d0..=0x20ff | 0xfe00..=0xfe0f)), "lit-combining");
                o.class_if(l.contains(':'), "lit-with-colon");
            }
            RtTerm::Iri(i) => {
                if !(i.starts_with("http://") || i.starts_with("https://")) {
                    non_http_obj = true;
                    o.class("object-iri-non-http");
                } else {
                    o.class("object-iri-http");
                }
            }
            RtTerm::BNode(_) => o.class("bnode-object"),
            t @ RtTerm::Quoted(..) => {
                quoted = true;
                o.class(if t.depth() > 1 { "quoted-object-nested" } else { "quoted-object" });
            }
        }
        if q.g.is_none() {
            by_subject.entry(q.s.lexical()).or_default().insert(&q.p);
            by_sp.entry((q.s.lexical(), &q.p)).or_default().insert(q.o.lexical());
        }
        triple_graphs.entry((q.s.lexical(), &q.p, q.o.lexical())).or_default().insert(q.g.as_deref());
    }
    o.class_if(by_subject.values().any(|p| p.len() >= 2), "default-subject-with-2+-predicates");
    o.class_if(by_sp.values().any(|x| x.len() >= 2), "default-object-list");
    o.class_if(triple_graphs.values().any(|g| g.len() >= 2), "same-triple-in-several-graphs");
    o.class_if(ds.quads.iter().all(|q| q.g.is_some()), "default-graph-empty");
    o.nontrivial = lit_delim || quoted || non_http_obj;
}

fn check_dataset(ds: &RtDataset) -> Outcome {
    let mut o = Outcome::new();
    classify(&mut o, ds);
    let (fails, trips) = check_roundtrip_counted(ds);
    o.inner_evals += trips;
    o.class_if(fails.is_empty(), "all-three-formats-round-trip");
    record(&mut o, fails);
    o
}

struct Datasets;
impl Part for Datasets {
    type Case = RtDataset;
    fn name(&self) -> &'static str {
        "datasets"
    }
    fn cases(&self, tier: Tier) -> u32 {
        tier.pick(400_000, 1_000_000)
    }
    fn strategy(&self, tier: Tier) -> BoxedStrategy<RtDataset> {
        dataset(tier)
    }
    fn check(&self, ds: &RtDataset) -> Outcome {
        check_dataset(ds)
    }
}

// ------------------------------------------------------------------------------------------
// part: saved fuzz corpus and crash files, decoded on the stable build
// ------------------------------------------------------------------------------------------

#[derive(Clone, Debug, Serialize, Deserialize)]
struct CorpusCase {
    file: String,
    bytes: Vec<u8>,
}

struct Corpus;
impl Part for Corpus {
    type Case = CorpusCase;
    fn name(&self) -> &'static str {
        "corpus"
    }
    fn cases(&self, _: Tier) -> u32 {
        0
    }
    fn strategy(&self, _: Tier) -> BoxedStrategy<CorpusCase> {
        Just(CorpusCase { file: String::new(), bytes: vec![] }).boxed()
    }
    fn check(&self, c: &CorpusCase) -> Outcome {
        let ds = decode_bytes(&c.bytes);
        let mut o = check_dataset(&ds);
        for f in o.failures.iter_mut() {
            f.detail = format!("fuzz input {} -> {}", c.file, f.detail);
        }
        o
    }
    fn describe(&self, c: &CorpusCase) -> serde_json::Value {
        serde_json::json!({"file": c.file, "dataset": decode_bytes(&c.bytes)})
    }
}

const FUZZ_DIR: &str = "/verif/fuzz";
const TARGET: &str = "nt_roundtrip";

fn files_in(dir: &str, cap: usize) -> Vec<String> {
    let mut v: Vec<String> = std::fs::read_dir(dir)
        .map(|rd| rd.filter_map(|e| e.ok()).filter(|e| e.path().is_file()).map(|e| e.path().to_string_lossy().to_string()).collect())
        .unwrap_or_default();
    v.sort();
    v.truncate(cap);
    v
}

fn corpus_cases() -> Vec<CorpusCase> {
    let mut files = files_in(&format!("{}/corpus/{TARGET}", root()), 20_000);
    files.extend(files_in(&format!("{FUZZ_DIR}/artifacts/{TARGET}"), 2_000));
    // what the last campaign left behind (not committed; absent on a fresh checkout)
    files.extend(files_in(&format!("{FUZZ_DIR}/corpus-work/{TARGET}"), 6_000));
    files.into_iter().filter_map(|f| std::fs::read(&f).ok().map(|bytes| CorpusCase { file: f, bytes })).collect()
}

// ------------------------------------------------------------------------------------------
// part: libFuzzer campaign (thorough tier)
// ------------------------------------------------------------------------------------------

#[derive(Clone, Debug, Serialize, Deserialize)]
struct FuzzJob {
    runs: u64,
    seed: u64,
}

struct LibFuzzer;

fn copy_seeds(from: &str, to: &str) -> usize {
    let mut n = 0;
    for f in files_in(from, 100_000) {
        if let Some(name) = std::path::Path::new(&f).file_name() {
            if std::fs::copy(&f, format!("{to}/{}", name.to_string_lossy())).is_ok() {
                n += 1;
            }
        }
    }
    n
}

/// How many libFuzzer processes run side by side (the machine is shared: never more than 4).
const FUZZ_WORKERS: u64 = 4;

struct ChildResult {
    executed: Option<u64>,
    ok: bool,
    tail: Vec<String>,
}

/// One `cargo +nightly fuzz run` process with a fixed number of executions; its stderr is streamed
/// (statistics kept, everything else dropped except the last lines).
fn fuzz_child(idx: u64, runs: u64, seed: u64, work: &str) -> Option<ChildResult> {
    let mut cmd = std::process::Command::new("cargo");
    cmd.args(["+nightly", "fuzz", "run", "--fuzz-dir", FUZZ_DIR, TARGET, work, "--"])
        .arg(format!("-runs={runs}"))
        .arg(format!("-seed={seed}"))
        .args(["-max_len=512", "-print_final_stats=1"])
        // the parsers under test print a diagnostic for every rejected line: keep the target's own
        // stderr out of the pipe (libFuzzer keeps a private copy of the descriptor for its report)
        .arg("-close_fd_mask=2")
        .current_dir("/verif/harness")
        .env("CARGO_NET_OFFLINE", "true")
        .env("CARGO_BUILD_JOBS", "4")
        .env_remove("RUSTFLAGS")
        .env_remove("CARGO_TARGET_DIR")
        .stdin(std::process::Stdio::null())
        .stdout(std::process::Stdio::null())
        .stderr(std::process::Stdio::piped());
    let mut child = match cmd.spawn() {
        Ok(c) => c,
        Err(e) => {
            println!("libfuzzer[{idx}]: cannot spawn cargo fuzz: {e}");
            return None;
        }
    };
    let pid = child.id();
    let finished = std::sync::Arc::new(std::sync::atomic::AtomicBool::new(false));
    {
        // safety net only (never a verdict): a campaign of this size takes minutes
        let finished = finished.clone();
        std::thread::spawn(move || {
            for _ in 0..(45 * 60) {
                std::thread::sleep(std::time::Duration::from_secs(1));
                if finished.load(std::sync::atomic::Ordering::Relaxed) {
                    return;
                }
            }
            unsafe {
                libc::kill(pid as i32, libc::SIGKILL);
            }
        });
    }
    let mut executed: Option<u64> = None;
    let mut tail: std::collections::VecDeque<String> = Default::default();
    if let Some(err) = child.stderr.take() {
        let mut rd = BufReader::new(err);
        let mut buf = Vec::new();
        loop {
            buf.clear();
            match rd.read_until(b'\n', &mut buf) {
                Ok(0) | Err(_) => break,
                Ok(_) => {}
            }
            let line = String::from_utf8_lossy(&buf).trim_end().to_string();
            if let Some(rest) = line.strip_prefix("stat::number_of_executed_units:") {
                executed = rest.trim().parse().ok();
            }
            if line.starts_with("stat::") || line.starts_with("Done ") || line.contains("ERROR: libFuzzer") || line.contains("Test unit written") {
                println!("libfuzzer[{idx}]: {line}");
            }
            if tail.len() >= 30 {
                tail.pop_front();
            }
            tail.push_back(line);
        }
    }
    let status = child.wait();
    finished.store(true, std::sync::atomic::Ordering::Relaxed);
    Some(ChildResult { executed, ok: status.map(|s| s.success()).unwrap_or(false), tail: tail.into_iter().collect() })
}

impl Part for LibFuzzer {
    type Case = FuzzJob;
    fn name(&self) -> &'static str {
        "libfuzzer"
    }
    fn cases(&self, _: Tier) -> u32 {
        0
    }
    fn strategy(&self, _: Tier) -> BoxedStrategy<FuzzJob> {
        Just(FuzzJob { runs: 0, seed: 1 }).boxed()
    }
    fn check(&self, job: &FuzzJob) -> Outcome {
        let mut o = Outcome::new();
        if root() != "/verif" {
            // a scratch root means the engine under test is a patched copy; the fuzz crate builds /repo
            o.skipped.push("libfuzzer-not-run-under-scratch-root");
            return o;
        }
        let base = format!("{FUZZ_DIR}/corpus-work/{TARGET}");
        let _ = std::fs::remove_dir_all(&base);
        if std::fs::create_dir_all(&base).is_err() {
            o.skipped.push("libfuzzer-unavailable");
            return o;
        }
        let seeds = copy_seeds(&format!("/verif/corpus/{TARGET}"), &base);
        let art_dir = format!("{FUZZ_DIR}/artifacts/{TARGET}");
        let before: HashSet<String> = files_in(&art_dir, 1_000_000).into_iter().collect();
        println!("libfuzzer: {} executions in {} processes, seeds {}.., {} seed inputs, work corpus {}", job.runs, FUZZ_WORKERS, job.seed, seeds, base);
        // process 0 alone first: it (re)builds the target if needed, the others then find it built
        let per = job.runs / FUZZ_WORKERS;
        let results: Vec<Option<ChildResult>> = std::thread::scope(|sc| {
            let hs: Vec<_> = (0..FUZZ_WORKERS)
                .map(|i| {
                    let base = base.clone();
                    sc.spawn(move || {
                        if i > 0 {
                            // let process 0 take the cargo build lock first
                            std::thread::sleep(std::time::Duration::from_secs(2));
                        }
                        // all processes share one corpus directory: libFuzzer only adds files to it
                        fuzz_child(i, per, job.seed.wrapping_add(i) & 0x7fff_ffff, &base)
                    })
                })
                .collect();
            hs.into_iter().map(|h| h.join().ok().flatten()).collect()
        });
        let new_artifacts: Vec<String> = files_in(&art_dir, 1_000_000).into_iter().filter(|f| !before.contains(f)).collect();
        let executed: u64 = results.iter().flatten().filter_map(|r| r.executed).sum();
        if executed == 0 && new_artifacts.is_empty() {
            println!("libfuzzer: no statistics and no crash file; last output of process 0:");
            if let Some(Some(r)) = results.first() {
                for l in &r.tail {
                    println!("libfuzzer| {l}");
                }
            }
            o.skipped.push("libfuzzer-unavailable");
            return o;
        }
        o.inner_evals += executed;
        o.nontrivial = executed > 0;
        o.class_if(results.iter().all(|r| r.as_ref().map_or(false, |r| r.ok)), "campaign-completed-without-crash");
        o.class_if(executed < per * FUZZ_WORKERS, "campaign-cut-short");
        // classification of crash files happens here, on the stable build
        let mut fails: Vec<(String, String)> = vec![];
        for a in &new_artifacts {
            let Ok(bytes) = std::fs::read(a) else { continue };
            let ds = decode_bytes(&bytes);
            let (fs, trips) = check_roundtrip_counted(&ds);
            o.inner_evals += trips;
            if fs.iter().all(|(sig, _)| known().contains(sig)) {
                // the target only stops for signatures outside the known findings; the stable build
                // does not reproduce one: not a verdict about the property
                println!("libfuzzer: crash file {a} does not fail on the stable build (sigs {:?})", fs.iter().map(|f| &f.0).collect::<Vec<_>>());
                o.skipped.push("fuzz-crash-not-reproduced-on-stable-build");
                o.ambiguous += 1;
            }
            for (sig, detail) in fs {
                fails.push((sig, format!("libFuzzer crash file {a} -> {detail}")));
            }
        }
        record(&mut o, fails);
        o
    }
}

fn silence_engine_diagnostics() {
    // The parsers under test print one line per rejected input line ("Invalid N-Triples line ...",
    // "Unknown prefix in query: ..."): tens of MB per run. Keep the log for the harness' own lines.
    if std::env::var("C14_KEEP_ENGINE_STDERR").is_ok() {
        return;
    }
    println!("C14: stderr of the engine under test is discarded from here on (set C14_KEEP_ENGINE_STDERR=1 to keep it)");
    unsafe {
        let null = std::ffi::CString::new("/dev/null").unwrap();
        let fd = libc::open(null.as_ptr(), libc::O_WRONLY);
        if fd >= 0 {
            libc::dup2(fd, 2);
            libc::close(fd);
        }
    }
}

fn main() {
    let mut s = Session::start(
        "C14",
        "exploration",
        "datasets of 1..6 (thorough 10) quads over small term pools (subjects repeat, so Turtle groups and object lists occur): subjects http/https/urn/mailto IRIs, blank nodes, quoted triples; \
         objects literals (56 %), http and non-http IRIs, blank nodes, quoted triples flat and nested once; 40 % of the quads in one of 1-2 named graphs. Literals are arbitrary Unicode drawn from a weighted alphabet \
         (\" \\ LF CR TAB space . ; , < > @ ^ # { } |, C0 controls, U+0085/U+2028/U+2029, combining marks, astral characters, any scalar) in six shapes (mixture, one special in filler, boundary list incl. the empty string, \
         forced ending in \\ \" space or dot, escape look-alikes, wrapped in <> \"\" {||} '') and made unmistakable by construction (a non-letter in front of text that starts like scheme:, _: or <<). \
         Each dataset is loaded through add_triple_parts / Dictionary::encode+add_quad / encode_term_star, exported by each of the three writers and re-imported into an empty database; \
         expected = the dataset's own lexical quads (all graphs for N-Quads, default graph otherwise), got = every quad of the re-imported database. Failures are attributed by isolating round trips. \
         Non-trivial = at least one literal with a delimiter/escape character, or a quoted triple, or a non-http IRI object; distinct = distinct dataset. inner = export/import round trips (+ libFuzzer executions). \
         Part corpus replays saved fuzz inputs on the stable build; part libfuzzer (thorough) runs a fixed number of libFuzzer executions of the same oracle.",
    );
    s.assume("the lexical form of a term is what Dictionary::encode stores and decode_any returns; quoted triples are rendered `<< s p o >>` from their components' lexical forms (documented rendering), so two databases hold the same dataset iff their sets of decoded quads are equal");
    s.assume("blank node labels are compared literally (both directions keep the label text), IRIs of different kinds share the dictionary's lexical space, so an IRI exported as a string literal and read back is indistinguishable from the original and is NOT reported");
    s.assume("Dictionary::encode / add_triple_parts / add_quad store lexical strings unchanged (checked on every case: the loaded database must decode to the dataset, sig c14.load.model_mismatch)");
    let tier = s.tier;
    if tier == Tier::Thorough {
        silence_engine_diagnostics();
    }
    let seed = s.seed;
    s.run_enum(&Corpus, corpus_cases().into_iter(), false);
    s.run(&Datasets);
    if tier == Tier::Thorough && std::env::var("C14_NO_FUZZ").is_err() {
        let job = FuzzJob { runs: 240_000, seed: if seed == 0 { 1 } else { seed & 0x7fff_ffff } };
        s.run_enum(&LibFuzzer, std::iter::once(job), false);
    }
    if discover() {
        for (sig, (n, detail)) in HISTOGRAM.lock().unwrap().iter() {
            println!("DISCOVER {n:>8} {sig}\n    {detail}");
        }
    }
    std::process::exit(s.finish());
}
