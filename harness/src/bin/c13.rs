//! C13 — loading a document adds exactly its triples, whatever its size or prior content.
//!
//! An abstract statement list T (absolute http(s) IRIs, plain literals of letters/digits/inner single
//! blanks, quoted triples for NT/NQ/Turtle, named graphs for NQ) is generated from the case
//! parameters, rendered in the line-oriented subset each loader is documented/tested to accept,
//! loaded (inside a rayon pool of 1/2/16 threads) into a database that is empty or was pre-populated
//! through a different path, and the lexical quads after the load are compared with
//! `quads before ∪ T as written`.  Relation (i): the same document cut into small self-contained
//! pieces loads to the same dataset.  Relation (ii): T written in a second format and loaded into a
//! fresh database gives the same lexical dataset.
//!
//! The case stores generator parameters only (documents of thousands of lines are rebuilt
//! deterministically from them), so replay files stay small.

use kolibrie::sparql_database::SparqlDatabase;
use kvh::engine::*;
use proptest::prelude::*;
use serde::{Deserialize, Serialize};
use shared::dataset_index::GraphId;
use std::collections::{BTreeSet, HashMap};
use std::sync::{Mutex, OnceLock};

const RDF_NS: &str = "http://www.w3.org/1999/02/22-rdf-syntax-ns#";
const RDF_TYPE: &str = "http://www.w3.org/1999/02/22-rdf-syntax-ns#type";
/// chunk length of parse_ntriples / parse_n3 (lines), batch length of parse_rdf (triples)
const CHUNK: usize = 1000;
const XML_BATCH: usize = 8192;

#[derive(Clone, Copy, Debug, Serialize, Deserialize, PartialEq, Eq, PartialOrd, Ord, Hash)]
enum Fmt {
    Nt,
    Nq,
    Ttl,
    N3,
    Xml,
}
const FMTS: [Fmt; 5] = [Fmt::Nt, Fmt::Nq, Fmt::Ttl, Fmt::N3, Fmt::Xml];

impl Fmt {
    fn name(self) -> &'static str {
        match self {
            Fmt::Nt => "nt",
            Fmt::Nq => "nq",
            Fmt::Ttl => "ttl",
            Fmt::N3 => "n3",
            Fmt::Xml => "xml",
        }
    }
    fn prefixes(self) -> bool {
        matches!(self, Fmt::Ttl | Fmt::N3)
    }
    fn star(self) -> bool {
        matches!(self, Fmt::Nt | Fmt::Nq | Fmt::Ttl)
    }
}

#[derive(Clone, Debug, Serialize, Deserialize)]
struct Case {
    /// format of the document under test and of the second rendering for relation (ii)
    fmt: Fmt,
    other: Fmt,
    /// exact number of lines of the main document (RDF/XML: exact number of triples)
    target: u32,
    /// every choice not listed below is a pure function of this value
    seed: u64,
    /// size of the entity pool (small: shared terms, duplicate triples; large: mostly new ids)
    vocab: u16,
    npred: u8,
    /// literal objects: weight out of 8 (0 = IRI-only document)
    lit_w: u8,
    quoted: bool,
    graphs: bool,
    /// one namespace ends in '#' instead of '/'
    hash_ns: bool,
    /// rdf:type statements; written with the `a` keyword in N-Triples (accepted there) and Turtle
    use_a: bool,
    /// Turtle/N3: 0 no prefixes, 1 declared at the top only, 2 re-declared mid-document, 3 re-bound mid-document
    prefix: u8,
    /// `;` / `,` groups (Turtle, N3 `;` only); several statements per subject elsewhere
    shorthand: bool,
    /// 0 none .. 3 every third line is a comment / blank line
    noise: u8,
    crlf: bool,
    /// N-Triples through parse_and_encode_ntriples + add_triple instead of parse_ntriples_and_add
    nt_two_step: bool,
    /// 0 empty database, 1 pre-populated through add_triple_parts/add_quad_parts, 2 through another loader
    prior_kind: u8,
    prior_n: u16,
    /// index into [1, 2, 16]
    threads: u8,
    /// minimal number of pieces for relation (i)
    pieces: u8,
}

// ------------------------------------------------------------------------------------------
// deterministic expansion of the case seed
// ------------------------------------------------------------------------------------------

struct Rng {
    s: u64,
    n: u64,
}
impl Rng {
    fn new(seed: u64, salt: u64) -> Rng {
        Rng { s: mix(seed, salt), n: 0 }
    }
    fn next(&mut self) -> u64 {
        self.n += 1;
        mix(self.s, self.n)
    }
    fn below(&mut self, n: u64) -> u64 {
        self.next() % n.max(1)
    }
    fn chance(&mut self, num: u64, den: u64) -> bool {
        self.below(den) < num
    }
}

// ------------------------------------------------------------------------------------------
// abstract terms
// ------------------------------------------------------------------------------------------

#[derive(Clone, Debug, PartialEq, Eq, PartialOrd, Ord, Hash)]
enum Term {
    /// namespace index 0..3 + local name
    Iri(u8, String),
    /// rdf:type
    Type,
    Lit(String),
    Quoted(Box<[Term; 3]>),
}

fn ns_iri(hash: bool, k: u8) -> &'static str {
    match k {
        0 => "http://ex.org/a/",
        1 => {
            if hash {
                "http://ex.org/b#"
            } else {
                "http://ex.org/b/"
            }
        }
        _ => "https://w3.example/v/",
    }
}

impl Term {
    fn full(&self, hash: bool) -> String {
        match self {
            Term::Iri(k, l) => format!("{}{}", ns_iri(hash, *k), l),
            Term::Type => RDF_TYPE.to_string(),
            _ => unreachable!("full() of a non-IRI"),
        }
    }
    /// Stored lexical form: IRIs without <>, literals without quotes (with quotes where the loader's own
    /// small-document convention keeps them), quoted triples as rendered by decode_any.
    fn lex(&self, hash: bool, lit_quotes: bool) -> String {
        match self {
            Term::Iri(..) | Term::Type => self.full(hash),
            Term::Lit(s) => {
                if lit_quotes {
                    format!("\"{s}\"")
                } else {
                    s.clone()
                }
            }
            Term::Quoted(b) => format!("<< {} {} {} >>", b[0].lex(hash, false), b[1].lex(hash, false), b[2].lex(hash, false)),
        }
    }
    fn is_quoted(&self) -> bool {
        matches!(self, Term::Quoted(_))
    }
    fn has_hash(&self, hash: bool) -> bool {
        match self {
            Term::Iri(k, _) => hash && *k == 1,
            Term::Type => true,
            Term::Lit(_) => false,
            Term::Quoted(b) => b.iter().any(|t| t.has_hash(hash)),
        }
    }
}

#[derive(Clone, Debug)]
struct Group {
    s: Term,
    po: Vec<(Term, Vec<Term>)>,
    g: Option<Term>,
}
impl Group {
    fn ntriples(&self) -> usize {
        self.po.iter().map(|(_, os)| os.len()).sum()
    }
}

#[derive(Clone, Debug)]
enum Item {
    /// `@prefix p<i>: <namespace k>`
    Prefix(u8, u8),
    Noise(u8),
    Stmt(Group),
}

type Bind = [Option<u8>; 3];

/// (graph, s, p, o) in stored lexical form
type LQ = (Option<String>, String, String, String);

// ------------------------------------------------------------------------------------------
// effective parameters (what the chosen formats can express)
// ------------------------------------------------------------------------------------------

struct Eff {
    quoted: bool,
    graphs: bool,
    rdf_type: bool,
    prefix: u8,
    threads: usize,
    other: Fmt,
}

fn eff(c: &Case) -> Eff {
    let other = if c.other == c.fmt { FMTS[(FMTS.iter().position(|f| *f == c.fmt).unwrap() + 1) % 5] } else { c.other };
    Eff {
        quoted: c.quoted && c.fmt.star(),
        graphs: c.graphs && c.fmt == Fmt::Nq,
        // rdf:type has a '#': kept away from N3 documents so that it does not blur the N3 classes
        rdf_type: c.use_a && c.fmt != Fmt::N3 && other != Fmt::N3,
        prefix: c.prefix.min(3),
        threads: [1usize, 2, 16][(c.threads % 3) as usize],
        other,
    }
}

// ------------------------------------------------------------------------------------------
// generation of statements
// ------------------------------------------------------------------------------------------

const WORDS: [&str; 10] = ["a", "Jane", "Doe", "30", "x1", "B7", "type", "0", "zz", "http"];

struct Gen<'a> {
    c: &'a Case,
    e: &'a Eff,
}

impl<'a> Gen<'a> {
    fn entity(&self, r: &mut Rng) -> Term {
        let i = r.below(self.c.vocab.max(1) as u64);
        Term::Iri((i % 3) as u8, format!("e{i}"))
    }
    fn pred(&self, r: &mut Rng) -> Term {
        if self.e.rdf_type && r.chance(1, 8) {
            return Term::Type;
        }
        let i = r.below(self.c.npred.max(1) as u64);
        Term::Iri((i % 3) as u8, format!("p{i}"))
    }
    fn lit(&self, r: &mut Rng) -> Term {
        let n = 1 + r.below(3);
        let mut w = vec![];
        for _ in 0..n {
            w.push(WORDS[r.below(WORDS.len() as u64) as usize]);
        }
        Term::Lit(w.join(" "))
    }
    fn quoted(&self, r: &mut Rng) -> Term {
        let s = self.entity(r);
        let i = r.below(self.c.npred.max(1) as u64);
        let p = Term::Iri((i % 3) as u8, format!("p{i}"));
        let o = if self.c.lit_w > 0 && r.chance(1, 3) { self.lit(r) } else { self.entity(r) };
        Term::Quoted(Box::new([s, p, o]))
    }
    fn object(&self, r: &mut Rng, p: &Term) -> Term {
        if *p == Term::Type {
            return self.entity(r);
        }
        if r.below(8) < self.c.lit_w as u64 {
            return self.lit(r);
        }
        if self.e.quoted && r.chance(1, 6) {
            return self.quoted(r);
        }
        self.entity(r)
    }
    fn group(&self, r: &mut Rng, max_triples: usize) -> Group {
        let s = if self.e.quoted && r.chance(1, 8) { self.quoted(r) } else { self.entity(r) };
        let mut po = vec![];
        let mut left = max_triples.max(1);
        let npo = if self.c.shorthand { 1 + r.below(3) as usize } else { 1 };
        for _ in 0..npo {
            if left == 0 {
                break;
            }
            let p = self.pred(r);
            let no = if self.c.shorthand && r.chance(1, 3) { 2 } else { 1 };
            let mut os = vec![];
            for _ in 0..no {
                if left == 0 {
                    break;
                }
                os.push(self.object(r, &p));
                left -= 1;
            }
            po.push((p, os));
        }
        let g = if self.e.graphs && r.chance(1, 2) { Some(Term::Iri(0, format!("g{}", r.below(4)))) } else { None };
        Group { s, po, g }
    }
}

/// Main document layout with exactly `target` lines (RDF/XML: triples).
fn build_layout(c: &Case, e: &Eff) -> Vec<Item> {
    let g = Gen { c, e };
    let mut r = Rng::new(c.seed, 1);
    let target = c.target as usize;
    let mut items = vec![];
    let mut n = 0usize; // lines (triples for XML)
    let pfx = c.fmt.prefixes() && e.prefix > 0;
    let mut bind: Bind = [None; 3];
    if pfx {
        for p in 0..3u8 {
            if n < target {
                items.push(Item::Prefix(p, p));
                bind[p as usize] = Some(p);
                n += 1;
            }
        }
    }
    let noise_den = [0u64, 16, 6, 3][(c.noise % 4) as usize];
    while n < target {
        if noise_den > 0 && r.below(noise_den) == 0 {
            items.push(Item::Noise(r.below(8) as u8));
            if c.fmt != Fmt::Xml {
                n += 1;
            }
            continue;
        }
        if pfx && e.prefix >= 2 && r.below(250) == 0 {
            if e.prefix == 3 && n + 3 <= target {
                // re-bind all three prefixes to the next namespace
                for p in 0..3u8 {
                    let k = (bind[p as usize].unwrap_or(p) + 1) % 3;
                    items.push(Item::Prefix(p, k));
                    bind[p as usize] = Some(k);
                    n += 1;
                }
                continue;
            } else if e.prefix == 2 {
                let p = r.below(3) as u8;
                let k = bind[p as usize].unwrap_or(p);
                items.push(Item::Prefix(p, k));
                bind[p as usize] = Some(k);
                n += 1;
                continue;
            }
        }
        let per_line = matches!(c.fmt, Fmt::Nt | Fmt::Nq | Fmt::Xml);
        let grp = g.group(&mut r, if per_line { target - n } else { 6 });
        n += if per_line { grp.ntriples() } else { 1 };
        items.push(Item::Stmt(grp));
    }
    items
}

fn flatten(items: &[Item]) -> Vec<(Term, Term, Term, Option<Term>)> {
    let mut v = vec![];
    for it in items {
        if let Item::Stmt(g) = it {
            for (p, os) in &g.po {
                for o in os {
                    v.push((g.s.clone(), p.clone(), o.clone(), g.g.clone()));
                }
            }
        }
    }
    v
}

fn lex_set(t: &[(Term, Term, Term, Option<Term>)], hash: bool, lit_quotes: bool, type_as_a: bool) -> BTreeSet<LQ> {
    t.iter()
        .map(|(s, p, o, g)| {
            let pl = if type_as_a && *p == Term::Type { "a".to_string() } else { p.lex(hash, false) };
            (g.as_ref().map(|g| g.lex(hash, false)), s.lex(hash, false), pl, o.lex(hash, lit_quotes))
        })
        .collect()
}

// ------------------------------------------------------------------------------------------
// rendering
// ------------------------------------------------------------------------------------------

#[derive(Default, Clone, Debug)]
struct Meta {
    /// physical lines of the document (RDF/XML: triples)
    units: usize,
    /// N3: a '#' occurs inside an IRI of a statement or prefix line
    hash_in_iri: bool,
    /// N3: a prefixed name is used in a 1000-line chunk that does not contain the governing declaration
    prefix_hidden: bool,
    /// the `a` keyword was written
    wrote_a: bool,
}

fn nt_term(t: &Term, hash: bool) -> String {
    match t {
        Term::Iri(..) | Term::Type => format!("<{}>", t.full(hash)),
        Term::Lit(s) => format!("\"{s}\""),
        Term::Quoted(b) => format!("<< {} {} {} >>", nt_term(&b[0], hash), nt_term(&b[1], hash), nt_term(&b[2], hash)),
    }
}

struct Renderer<'a> {
    c: &'a Case,
    fmt: Fmt,
    r: Rng,
    bind: Bind,
    /// chunk index (line / 1000) of the governing declaration of each prefix
    decl_chunk: [Option<usize>; 3],
    lines: Vec<String>,
    meta: Meta,
    allow_a: bool,
}

impl<'a> Renderer<'a> {
    fn term(&mut self, t: &Term, pred_pos: bool) -> String {
        let hash = self.c.hash_ns;
        match t {
            Term::Iri(k, l) if self.fmt.prefixes() => {
                if let Some(p) = (0..3usize).find(|p| self.bind[*p] == Some(*k)) {
                    if self.r.chance(3, 4) {
                        if self.fmt == Fmt::N3 && self.decl_chunk[p] != Some(self.lines.len() / CHUNK) {
                            self.meta.prefix_hidden = true;
                        }
                        return format!("p{p}:{l}");
                    }
                }
                if t.has_hash(hash) {
                    self.meta.hash_in_iri = true;
                }
                format!("<{}>", t.full(hash))
            }
            Term::Type if pred_pos && self.allow_a && matches!(self.fmt, Fmt::Nt | Fmt::Ttl) => {
                self.meta.wrote_a = true;
                "a".to_string()
            }
            Term::Lit(s) if self.fmt == Fmt::Ttl && !s.contains(' ') && s.chars().all(|ch| ch.is_ascii_digit()) && self.r.chance(1, 2) => s.clone(),
            _ => {
                if t.has_hash(hash) {
                    self.meta.hash_in_iri = true;
                }
                nt_term(t, hash)
            }
        }
    }
    fn sep(&mut self) -> &'static str {
        if self.fmt == Fmt::N3 {
            return " ";
        }
        match self.r.below(12) {
            0 => "\t",
            1 => "  ",
            _ => " ",
        }
    }
    fn indent(&mut self) -> &'static str {
        match self.r.below(10) {
            0 => "  ",
            1 => "\t",
            2 => "        ",
            _ => "",
        }
    }
    fn dot(&mut self) -> &'static str {
        if self.fmt == Fmt::N3 || self.r.chance(3, 4) {
            " ."
        } else {
            "."
        }
    }
    fn push(&mut self, l: String) {
        self.lines.push(l);
    }
    fn item(&mut self, it: &Item) {
        let hash = self.c.hash_ns;
        match it {
            Item::Prefix(p, k) => {
                if self.fmt.prefixes() {
                    let dot = self.dot();
                    let ind = self.indent();
                    if *k == 1 && hash {
                        self.meta.hash_in_iri = true;
                    }
                    self.bind[*p as usize] = Some(*k);
                    self.decl_chunk[*p as usize] = Some(self.lines.len() / CHUNK);
                    self.push(format!("{ind}@prefix p{p}: <{}>{dot}", ns_iri(hash, *k)));
                }
            }
            Item::Noise(kind) => {
                let n = self.r.below(1000);
                let l = if self.fmt == Fmt::Xml {
                    match kind % 3 {
                        0 => String::new(),
                        1 => format!("  <!-- note {n} -->"),
                        _ => "    ".to_string(),
                    }
                } else {
                    match kind % 5 {
                        0 => String::new(),
                        1 => "   ".to_string(),
                        2 => format!("# note {n}"),
                        3 => format!("  # <http://ex.org/a/c{n}> <http://ex.org/a/c> \"c {n}\" ."),
                        _ => "#".to_string(),
                    }
                };
                self.push(l);
            }
            Item::Stmt(g) => match self.fmt {
                Fmt::Nt | Fmt::Nq => {
                    for (p, os) in &g.po {
                        for o in os {
                            let ind = self.indent();
                            let (s1, s2) = (self.sep(), self.sep());
                            let st = self.term(&g.s, false);
                            let pt = self.term(p, true);
                            let ot = self.term(o, false);
                            let gt = match (&g.g, self.fmt) {
                                (Some(gr), Fmt::Nq) => format!(" {}", nt_term(gr, hash)),
                                _ => String::new(),
                            };
                            let dot = self.dot();
                            self.push(format!("{ind}{st}{s1}{pt}{s2}{ot}{gt}{dot}"));
                        }
                    }
                }
                Fmt::Ttl | Fmt::N3 => {
                    let ind = self.indent();
                    let mut l = format!("{ind}{}", self.term(&g.s, false));
                    let mut first_p = true;
                    for (p, os) in &g.po {
                        if self.fmt == Fmt::Ttl {
                            if !first_p {
                                l.push_str(if self.r.chance(1, 2) { ";" } else { " ;" });
                            }
                            let s1 = self.sep();
                            l.push_str(s1);
                            l.push_str(&self.term(p, true));
                            for (j, o) in os.iter().enumerate() {
                                if j > 0 {
                                    l.push_str(if self.r.chance(1, 2) { "," } else { " ," });
                                }
                                let s2 = self.sep();
                                l.push_str(s2);
                                l.push_str(&self.term(o, false));
                            }
                        } else {
                            // N3 subset: whitespace separated tokens, `;` only
                            for o in os {
                                if !first_p {
                                    l.push_str(" ;");
                                }
                                l.push(' ');
                                l.push_str(&self.term(p, true));
                                l.push(' ');
                                l.push_str(&self.term(o, false));
                                first_p = false;
                            }
                        }
                        first_p = false;
                    }
                    l.push_str(self.dot());
                    if self.fmt == Fmt::N3 && self.r.chance(1, 12) {
                        l.push_str(" # trailing note");
                    }
                    self.push(l);
                }
                Fmt::Xml => {
                    self.push(format!("  <rdf:Description rdf:about=\"{}\">", g.s.full(hash)));
                    for (p, os) in &g.po {
                        let el = match p {
                            Term::Iri(k, l) => format!("p{k}:{l}"),
                            _ => "rdf:type".to_string(),
                        };
                        for o in os {
                            match o {
                                Term::Lit(s) => self.push(format!("    <{el}>{s}</{el}>")),
                                _ => self.push(format!("    <{el} rdf:resource=\"{}\"/>", o.full(hash))),
                            }
                            self.meta.units += 1;
                        }
                    }
                    self.push("  </rdf:Description>".to_string());
                }
            },
        }
    }
}

/// Render `items` as one document of format `fmt`; `bind0` = prefix bindings in force before the
/// first item (declared on top of the document).
fn render(c: &Case, fmt: Fmt, items: &[Item], bind0: Bind, salt: u64, allow_a: bool) -> (String, Meta) {
    let mut rd = Renderer { c, fmt, r: Rng::new(c.seed, 1000 + salt), bind: [None; 3], decl_chunk: [None; 3], lines: vec![], meta: Meta::default(), allow_a };
    let hash = c.hash_ns;
    if fmt == Fmt::Xml {
        rd.push("<?xml version=\"1.0\" encoding=\"UTF-8\"?>".to_string());
        if rd.r.chance(1, 2) {
            rd.push(format!("<rdf:RDF xmlns:rdf=\"{RDF_NS}\" xmlns:p0=\"{}\" xmlns:p1=\"{}\" xmlns:p2=\"{}\">", ns_iri(hash, 0), ns_iri(hash, 1), ns_iri(hash, 2)));
        } else {
            rd.push("<rdf:RDF".to_string());
            rd.push(format!("    xmlns:rdf=\"{RDF_NS}\""));
            for k in 0..3u8 {
                rd.push(format!("    xmlns:p{k}=\"{}\"{}", ns_iri(hash, k), if k == 2 { ">" } else { "" }));
            }
        }
    } else if fmt.prefixes() {
        for p in 0..3u8 {
            if let Some(k) = bind0[p as usize] {
                rd.item(&Item::Prefix(p, k));
            }
        }
    }
    for it in items {
        rd.item(it);
    }
    if fmt == Fmt::Xml {
        rd.push("</rdf:RDF>".to_string());
    } else {
        rd.meta.units = rd.lines.len();
    }
    let nl = if c.crlf { "\r\n" } else { "\n" };
    let mut doc = rd.lines.join(nl);
    // a final line terminator does not add a line; an empty document stays empty
    if !rd.lines.is_empty() && rd.r.chance(1, 2) {
        doc.push_str(nl);
    }
    (doc, rd.meta)
}

/// Prefix bindings in force after `items`.
fn bindings_after(items: &[Item], mut b: Bind) -> Bind {
    for it in items {
        if let Item::Prefix(p, k) = it {
            b[*p as usize] = Some(*k);
        }
    }
    b
}

fn item_units(fmt: Fmt, it: &Item) -> usize {
    match it {
        Item::Prefix(..) => usize::from(fmt.prefixes()),
        Item::Noise(_) => usize::from(fmt != Fmt::Xml),
        Item::Stmt(g) => match fmt {
            Fmt::Ttl | Fmt::N3 => 1,
            _ => g.ntriples(),
        },
    }
}

// ------------------------------------------------------------------------------------------
// engine access
// ------------------------------------------------------------------------------------------

/// Pools are built once: the 16-thread pool is shared by all harness workers, the 1- and 2-thread
/// pools exist once per harness worker (a shared 1-thread pool would serialise the workers).
fn big_pool() -> &'static rayon::ThreadPool {
    static P: OnceLock<rayon::ThreadPool> = OnceLock::new();
    P.get_or_init(|| rayon::ThreadPoolBuilder::new().num_threads(16).build().expect("pool"))
}
thread_local! {
    static SMALL_POOLS: [rayon::ThreadPool; 2] = [
        rayon::ThreadPoolBuilder::new().num_threads(1).build().expect("pool"),
        rayon::ThreadPoolBuilder::new().num_threads(2).build().expect("pool"),
    ];
}

fn in_pool<T: Send>(threads: usize, f: impl FnOnce() -> T + Send) -> T {
    match threads {
        1 => SMALL_POOLS.with(|p| p[0].install(f)),
        2 => SMALL_POOLS.with(|p| p[1].install(f)),
        _ => big_pool().install(f),
    }
}

fn load(db: &mut SparqlDatabase, fmt: Fmt, doc: &str, threads: usize, two_step: bool) -> Result<(), PanicSite> {
    catch(|| {
        in_pool(threads, || match fmt {
            Fmt::Nt => {
                if two_step {
                    for t in db.parse_and_encode_ntriples(doc) {
                        db.add_triple(t);
                    }
                } else {
                    db.parse_ntriples_and_add(doc)
                }
            }
            Fmt::Nq => db.parse_nquads_and_add(doc),
            Fmt::Ttl => db.parse_turtle(doc),
            Fmt::N3 => db.parse_n3(doc),
            Fmt::Xml => db.parse_rdf(doc),
        })
    })
}

/// Lexical quads of the database, sorted, one entry per stored quad (so two stored quads that decode
/// to the same lexical quad show up as a duplicate).
fn snapshot(db: &SparqlDatabase) -> Vec<LQ> {
    let dec = |id: u32| db.decode_any(id).unwrap_or_else(|| format!("<undecodable:{id}>"));
    let mut v: Vec<LQ> = db
        .dataset_index
        .all_quads()
        .into_iter()
        .map(|q| {
            let g = match q.graph {
                GraphId::Default => None,
                GraphId::Named(id) => Some(dec(id)),
            };
            (g, dec(q.subject), dec(q.predicate), dec(q.object))
        })
        .collect();
    v.sort();
    v
}

fn show(q: &LQ) -> String {
    match &q.0 {
        Some(g) => format!("[{} | {} | {} | graph {}]", q.1, q.2, q.3, g),
        None => format!("[{} | {} | {}]", q.1, q.2, q.3),
    }
}

/// None when `got` is exactly `exp`; otherwise a description of the difference.
fn diff(exp: &BTreeSet<LQ>, got: &[LQ]) -> Option<String> {
    let gs: BTreeSet<LQ> = got.iter().cloned().collect();
    if gs.len() == got.len() && gs == *exp {
        return None;
    }
    let missing: Vec<&LQ> = exp.difference(&gs).collect();
    let extra: Vec<&LQ> = gs.difference(exp).collect();
    let mut s = format!("expected {} quads, got {} ({} distinct): {} missing, {} not expected", exp.len(), got.len(), gs.len(), missing.len(), extra.len());
    for q in missing.iter().take(3) {
        s.push_str(&format!("\n  missing {}", show(q)));
    }
    for q in extra.iter().take(3) {
        s.push_str(&format!("\n  unexpected {}", show(q)));
    }
    if gs.len() != got.len() {
        s.push_str("\n  (the same lexical quad is stored more than once)");
    }
    Some(s)
}

/// The N3 loader's own convention for plain literals, taken from a one-statement document loaded
/// into an empty database: Some(true) keeps the quotes, Some(false) strips them.
fn n3_keeps_quotes() -> Option<bool> {
    static V: OnceLock<Option<bool>> = OnceLock::new();
    *V.get_or_init(|| {
        let mut db = SparqlDatabase::new();
        if load(&mut db, Fmt::N3, "<http://ex.org/a/s> <http://ex.org/a/p> \"k w\" .\n", 1, false).is_err() {
            return None;
        }
        let s = snapshot(&db);
        match s.as_slice() {
            [(None, a, b, o)] if a == "http://ex.org/a/s" && b == "http://ex.org/a/p" => match o.as_str() {
                "\"k w\"" => Some(true),
                "k w" => Some(false),
                _ => None,
            },
            _ => None,
        }
    })
}

fn lit_quotes(fmt: Fmt) -> bool {
    fmt == Fmt::N3 && n3_keeps_quotes() == Some(true)
}

fn intern(s: String) -> &'static str {
    static M: OnceLock<Mutex<HashMap<String, &'static str>>> = OnceLock::new();
    let mut g = M.get_or_init(|| Mutex::new(HashMap::new())).lock().unwrap();
    if let Some(x) = g.get(&s) {
        return x;
    }
    let l: &'static str = Box::leak(s.clone().into_boxed_str());
    g.insert(s, l);
    l
}

// ------------------------------------------------------------------------------------------
// prior content
// ------------------------------------------------------------------------------------------

fn prior_loader(fmt: Fmt) -> Fmt {
    match fmt {
        Fmt::Nt => Fmt::Ttl,
        Fmt::Ttl => Fmt::Nt,
        Fmt::Nq => Fmt::Nt,
        Fmt::N3 => Fmt::Ttl,
        Fmt::Xml => Fmt::Nt,
    }
}

/// Prior content kinds: 0 nothing; 1 through the API; 2 through another loader; and three states in which the
/// DEFAULT GRAPH IS EMPTY BUT THE DICTIONARY IS NOT: 3 content in named graphs only (API), 4 content added and deleted
/// again (API), 5 terms encoded but never stored.
fn pkind(c: &Case) -> u8 {
    c.prior_kind % 6
}

fn build_prior(c: &Case, e: &Eff) -> Vec<Group> {
    if pkind(c) == 0 {
        return vec![];
    }
    let g = Gen { c, e };
    let mut r = Rng::new(c.seed, 2);
    let mut v = vec![];
    let star = e.quoted && pkind(c) == 2;
    for _ in 0..c.prior_n.max(1) {
        let ent = |r: &mut Rng| -> Term {
            if r.chance(1, 2) {
                g.entity(r)
            } else {
                let i = r.below(1000);
                Term::Iri((i % 3) as u8, format!("x{i}"))
            }
        };
        let named = pkind(c) == 3 || (pkind(c) < 3 && e.graphs && r.chance(1, 3));
        let s = if star && !named && r.chance(1, 8) { g.quoted(&mut r) } else { ent(&mut r) };
        let i = r.below(c.npred.max(1) as u64 + 1);
        let p = Term::Iri((i % 3) as u8, format!("p{i}"));
        let o = if r.chance(1, 4) { g.lit(&mut r) } else { ent(&mut r) };
        let gr = if named { Some(Term::Iri(0, format!("g{}", r.below(5)))) } else { None };
        v.push(Group { s, po: vec![(p, vec![o])], g: gr });
    }
    v
}

/// New database holding the prior content; Err = the prior could not be established as modelled.
fn make_db(c: &Case, prior: &[Group]) -> Result<(SparqlDatabase, Vec<LQ>), (String, String)> {
    let mut db = SparqlDatabase::new();
    if prior.is_empty() {
        return Ok((db, vec![]));
    }
    let hash = c.hash_ns;
    let kind = pkind(c);
    let via = prior_loader(c.fmt);
    let (named, dflt): (Vec<Group>, Vec<Group>) = prior.iter().cloned().partition(|g| g.g.is_some());
    let r = catch(|| {
        for g in &named {
            let (p, os) = &g.po[0];
            db.add_quad_parts(&g.s.lex(hash, false), &p.lex(hash, false), &os[0].lex(hash, false), &g.g.as_ref().unwrap().lex(hash, false));
        }
        if kind == 1 || kind == 4 {
            for g in &dflt {
                let (p, os) = &g.po[0];
                db.add_triple_parts(&g.s.lex(hash, false), &p.lex(hash, false), &os[0].lex(hash, false));
            }
        }
        if kind == 4 {
            // ... and everything is deleted again: the store is empty, the dictionary keeps the terms
            for g in &dflt {
                let (p, os) = &g.po[0];
                db.delete_triple_parts(&g.s.lex(hash, false), &p.lex(hash, false), &os[0].lex(hash, false));
            }
        }
        if kind == 5 {
            let mut d = db.dictionary.write().unwrap();
            for g in &dflt {
                let (p, os) = &g.po[0];
                d.encode(&g.s.lex(hash, false));
                d.encode(&p.lex(hash, false));
                d.encode(&os[0].lex(hash, false));
            }
        }
    });
    if let Err(site) = r {
        return Err((site.sig(), format!("pre-populating through the API: panic at {}:{}: {}", site.file, site.line, site.msg)));
    }
    if kind == 2 {
        let mut items: Vec<Item> = vec![];
        let mut b: Bind = [None; 3];
        if via.prefixes() {
            b = [Some(0), Some(1), Some(2)];
        }
        items.extend(dflt.iter().cloned().map(Item::Stmt));
        let (doc, _) = render(c, via, &items, b, 7, false);
        if let Err(site) = load(&mut db, via, &doc, 1, false) {
            return Err((site.sig(), format!("pre-populating through the {} loader: panic at {}:{}: {}", via.name(), site.file, site.line, site.msg)));
        }
    }
    let before = snapshot(&db);
    let stored: Vec<Group> = match kind {
        4 | 5 => vec![],
        _ => prior.to_vec(),
    };
    let model = lex_set(&flatten(&stored.iter().cloned().map(Item::Stmt).collect::<Vec<_>>()), hash, false, false);
    if let Some(d) = diff(&model, &before) {
        let path = if kind == 2 { via.name() } else { "api" };
        return Err((format!("c13.prior.{path}"), format!("prior content ({} statements through {path}) is not what was written: {d}", prior.len())));
    }
    Ok((db, before))
}

// ------------------------------------------------------------------------------------------
// classification of a mismatch
// ------------------------------------------------------------------------------------------

struct LoadCtx<'a> {
    fmt: Fmt,
    phase: &'static str,
    /// the database dictionary was non-empty when (some call of) the load started
    dict_nonempty: bool,
    meta: &'a Meta,
    /// the difference disappears when rdf:type statements written with `a` are expected with predicate "a"
    a_unexpanded: bool,
}

fn has_unresolved_prefixed_name(db: &SparqlDatabase) -> bool {
    let d = db.dictionary.read().unwrap();
    d.string_to_id.keys().any(|k| k.starts_with("p0:") || k.starts_with("p1:") || k.starts_with("p2:"))
}

/// One signature per root cause that the structure of the case makes responsible; the generic
/// `c13.<fmt>.<phase>` when none applies.
fn sigs_for(ctx: &LoadCtx, db: &SparqlDatabase, o: &mut Outcome) -> Vec<String> {
    let mut v: Vec<String> = vec![];
    match ctx.fmt {
        Fmt::N3 => {
            if ctx.dict_nonempty {
                v.push("c13.n3.prior_dictionary_id_clash".into());
            }
            if ctx.meta.units > CHUNK {
                v.push("c13.n3.chunk_boundary_id_clash".into());
            }
            if ctx.meta.prefix_hidden && has_unresolved_prefixed_name(db) {
                v.push("c13.n3.prefix_not_visible_in_later_chunk".into());
            }
            if ctx.meta.hash_in_iri {
                v.push("c13.n3.hash_in_iri_cut_as_comment".into());
            }
        }
        Fmt::Ttl => {
            if ctx.meta.wrote_a && ctx.a_unexpanded {
                v.push("c13.ttl.a_keyword_not_expanded".into());
            }
        }
        _ => {}
    }
    // read in the evidence of a run against the id-clash fix: must be 0 there, otherwise something else hides behind it
    o.class_if(!v.is_empty() && v.iter().all(|s| s.ends_with("_id_clash")), "n3-mismatch-attributed-to-id-clash-alone");
    if v.is_empty() {
        v.push(format!("c13.{}.{}", ctx.fmt.name(), ctx.phase));
    }
    v
}

// ------------------------------------------------------------------------------------------
// the check
// ------------------------------------------------------------------------------------------

fn union(before: &[LQ], t: &BTreeSet<LQ>) -> BTreeSet<LQ> {
    let mut s: BTreeSet<LQ> = before.iter().cloned().collect();
    s.extend(t.iter().cloned());
    s
}

fn terms_of(q: &BTreeSet<LQ>) -> BTreeSet<&str> {
    let mut s = BTreeSet::new();
    for (g, a, b, c) in q {
        if let Some(g) = g {
            s.insert(g.as_str());
        }
        s.insert(a.as_str());
        s.insert(b.as_str());
        s.insert(c.as_str());
    }
    s
}

fn check_case(c: &Case) -> Outcome {
    let mut o = Outcome::new();
    let e = eff(c);
    let hash = c.hash_ns;
    let fmt = c.fmt;
    if n3_keeps_quotes().is_none() {
        o.fail("c13.n3.literal_convention", "a one-statement N3 document with a plain literal does not load to one triple with the literal stored either with or without its quotes");
        return o;
    }
    let items = build_layout(c, &e);
    let t = flatten(&items);
    let (doc, meta) = render(c, fmt, &items, [None; 3], 0, true);
    let prior = build_prior(c, &e);
    if std::env::var_os("C13_DUMP").is_some() {
        // goes to the log file: the documents of a (replayed) case, for reports
        eprintln!("---- C13_DUMP case {c:?}\n---- prior ({} statements, kind {}):", prior.len(), pkind(c));
        for g in &prior {
            eprintln!("{} {} {} {}", nt_term(&g.s, hash), nt_term(&g.po[0].0, hash), nt_term(&g.po[0].1[0], hash), g.g.as_ref().map(|g| nt_term(g, hash)).unwrap_or_default());
        }
        eprintln!("---- main document ({}, {} lines/units):\n{doc}\n---- end", fmt.name(), meta.units);
    }

    // ---- classes
    let units = meta.units;
    let bucket = if fmt == Fmt::Xml {
        if units < XML_BATCH {
            "<8192"
        } else if units == XML_BATCH {
            "=8192"
        } else {
            ">8192"
        }
    } else if units == 0 {
        "0"
    } else if units < CHUNK {
        "1..999"
    } else if units == CHUNK {
        "=1000"
    } else if units <= 2 * CHUNK {
        "1001..2000"
    } else {
        ">2000"
    };
    o.class(intern(format!("{}/size{}", fmt.name(), bucket)));
    o.class(intern(format!("{}/prior:{}", fmt.name(), ["empty", "api", "loader", "named-graphs-only", "added-then-deleted", "dictionary-only"][pkind(c) as usize])));
    o.class(intern(format!("{}/threads:{}", fmt.name(), e.threads)));
    o.class_if(fmt.prefixes() && e.prefix == 1 && units > CHUNK, "prefix-top-only-multi-chunk");
    o.class_if(fmt.prefixes() && e.prefix >= 2 && items.iter().skip(3).any(|i| matches!(i, Item::Prefix(..))), "prefix-redeclared-mid-document");
    o.class_if(fmt.prefixes() && e.prefix == 3 && items.iter().skip(3).any(|i| matches!(i, Item::Prefix(..))), "prefix-rebound-mid-document");
    o.class_if(items.iter().any(|i| matches!(i, Item::Noise(_))), "comments-or-blank-lines");
    o.class_if(t.iter().any(|q| q.0.is_quoted() || q.2.is_quoted()), "quoted-triples");
    o.class_if(t.iter().any(|q| q.3.is_some()), "named-graphs");
    o.class_if(t.iter().any(|q| matches!(q.2, Term::Lit(_))), "literals");
    o.class_if(meta.wrote_a, "a-keyword");
    o.class_if(hash, "hash-namespace");

    // ---- main load
    let (mut db, before) = match make_db(c, &prior) {
        Ok(x) => x,
        Err((sig, d)) => {
            o.fail(sig, d);
            return o;
        }
    };
    let t_lex = lex_set(&t, hash, lit_quotes(fmt), false);
    let expected = union(&before, &t_lex);
    {
        let bt: BTreeSet<LQ> = before.iter().cloned().collect();
        let shares = !prior.is_empty() && terms_of(&bt).intersection(&terms_of(&t_lex)).next().is_some();
        let crosses = match fmt {
            Fmt::Nt | Fmt::N3 => units > CHUNK,
            Fmt::Xml => units > XML_BATCH,
            _ => false,
        };
        o.nontrivial = crosses || shares;
        o.class_if(shares, "shares-terms-with-prior");
        o.class_if(!bt.is_disjoint(&t_lex), "document-repeats-a-prior-quad");
    }
    let dict_nonempty = !prior.is_empty();
    o.inner_evals += 1;
    match load(&mut db, fmt, &doc, e.threads, c.nt_two_step) {
        Err(site) => o.panic(&format!("{} load of {} units", fmt.name(), units), &site),
        Ok(()) => {
            let after = snapshot(&db);
            if let Some(d) = diff(&expected, &after) {
                let alt = union(&before, &lex_set(&t, hash, lit_quotes(fmt), true));
                let ctx = LoadCtx { fmt, phase: "exact", dict_nonempty, meta: &meta, a_unexpanded: diff(&alt, &after).is_none() };
                for sig in sigs_for(&ctx, &db, &mut o) {
                    o.fail(sig, format!("{} document of {} lines/units, {} statements, prior {} quads, {} threads: {d}", fmt.name(), units, t.len(), before.len(), e.threads));
                }
            }
        }
    }

    // ---- relation (i): the same items cut into small self-contained documents
    {
        let max_piece = if fmt == Fmt::Xml { 4000 } else { 900 };
        let total: usize = items.iter().map(|i| item_units(fmt, i)).sum();
        let k = (c.pieces.max(1) as usize).max(total.div_ceil(max_piece)).max(1);
        let per = total.div_ceil(k).max(1);
        let mut pieces: Vec<(usize, usize)> = vec![];
        let (mut start, mut acc) = (0usize, 0usize);
        for (i, it) in items.iter().enumerate() {
            let u = item_units(fmt, it);
            if acc > 0 && acc + u > per.min(max_piece) {
                pieces.push((start, i));
                start = i;
                acc = 0;
            }
            acc += u;
        }
        pieces.push((start, items.len()));
        if pieces.len() >= 2 {
            o.class("split-into-pieces");
            match make_db(c, &prior) {
                Err((sig, d)) => o.fail(sig, d),
                Ok((mut db2, before2)) => {
                    let expected2 = union(&before2, &t_lex);
                    let mut agg = Meta::default();
                    let mut failed = false;
                    for (n, (a, b)) in pieces.iter().enumerate() {
                        let bind0 = bindings_after(&items[..*a], [None; 3]);
                        let (pdoc, pm) = render(c, fmt, &items[*a..*b], bind0, 100 + n as u64, true);
                        agg.hash_in_iri |= pm.hash_in_iri;
                        agg.prefix_hidden |= pm.prefix_hidden;
                        agg.wrote_a |= pm.wrote_a;
                        agg.units = agg.units.max(pm.units);
                        o.inner_evals += 1;
                        if let Err(site) = load(&mut db2, fmt, &pdoc, e.threads, c.nt_two_step) {
                            o.panic(&format!("{} load of piece {n} ({} units)", fmt.name(), pm.units), &site);
                            failed = true;
                            break;
                        }
                    }
                    if !failed {
                        let after2 = snapshot(&db2);
                        if let Some(d) = diff(&expected2, &after2) {
                            let alt = union(&before2, &lex_set(&t, hash, lit_quotes(fmt), true));
                            // from the second piece on the dictionary is never empty
                            let ctx = LoadCtx { fmt, phase: "split", dict_nonempty: true, meta: &agg, a_unexpanded: diff(&alt, &after2).is_none() };
                            for sig in sigs_for(&ctx, &db2, &mut o) {
                                o.fail(sig, format!("{} document loaded as {} pieces of at most {} lines/units (prior {} quads, {} threads): {d}", fmt.name(), pieces.len(), agg.units, before2.len(), e.threads));
                            }
                        }
                    }
                }
            }
        }
    }

    // ---- relation (ii): the same statements in two formats, each into a fresh database
    {
        let (fa, fb) = (fmt, e.other);
        let star = fa.star() && fb.star();
        let groups: Vec<Item> = items
            .iter()
            .filter_map(|it| match it {
                Item::Stmt(g) if g.g.is_none() && (star || !g.s.is_quoted()) => {
                    let po: Vec<(Term, Vec<Term>)> = g.po.iter().map(|(p, os)| (p.clone(), os.iter().filter(|x| star || !x.is_quoted()).cloned().collect::<Vec<_>>())).filter(|(_, os)| !os.is_empty()).collect();
                    if po.is_empty() {
                        None
                    } else {
                        Some(Item::Stmt(Group { s: g.s.clone(), po, g: None }))
                    }
                }
                _ => None,
            })
            .collect();
        let t2 = flatten(&groups);
        if !t2.is_empty() {
            o.class(intern(format!("cross:{}+{}", fa.name().min(fb.name()), fa.name().max(fb.name()))));
            let canonical = lex_set(&t2, hash, false, false);
            let mut snaps: Vec<Option<Vec<LQ>>> = vec![];
            for (n, f) in [fa, fb].into_iter().enumerate() {
                let bind0: Bind = if f.prefixes() && e.prefix > 0 { [Some(0), Some(1), Some(2)] } else { [None; 3] };
                let (d2, m2) = render(c, f, &groups, bind0, 200 + n as u64, false);
                let mut dbf = SparqlDatabase::new();
                o.inner_evals += 1;
                match load(&mut dbf, f, &d2, e.threads, false) {
                    Err(site) => {
                        o.panic(&format!("{} load of {} units into a fresh database", f.name(), m2.units), &site);
                        snaps.push(None);
                    }
                    Ok(()) => {
                        let s = snapshot(&dbf);
                        let own = lex_set(&t2, hash, lit_quotes(f), false);
                        if let Some(d) = diff(&own, &s) {
                            let ctx = LoadCtx { fmt: f, phase: "fresh", dict_nonempty: false, meta: &m2, a_unexpanded: false };
                            for sig in sigs_for(&ctx, &dbf, &mut o) {
                                o.fail(sig, format!("{} rendering of {} statements ({} lines/units) into an empty database, {} threads: {d}", f.name(), t2.len(), m2.units, e.threads));
                            }
                            snaps.push(None);
                        } else {
                            snaps.push(Some(s));
                        }
                    }
                }
            }
            if let (Some(a), Some(b)) = (&snaps[0], &snaps[1]) {
                if a != b {
                    // both loaders followed their own convention, and the conventions differ
                    let unq = |v: &Vec<LQ>| -> BTreeSet<LQ> {
                        v.iter()
                            .map(|(g, s, p, ob)| {
                                let ob2 = if ob.len() >= 2 && ob.starts_with('"') && ob.ends_with('"') { ob[1..ob.len() - 1].to_string() } else { ob.clone() };
                                (g.clone(), s.clone(), p.clone(), ob2)
                            })
                            .collect()
                    };
                    let n3_side = if fa == Fmt::N3 { Some(a) } else if fb == Fmt::N3 { Some(b) } else { None };
                    let d = diff(&b.iter().cloned().collect(), a).unwrap_or_default();
                    match n3_side {
                        Some(n3) if unq(n3) == canonical && lit_quotes(Fmt::N3) => {
                            o.fail("c13.n3.literal_keeps_quotes", format!("the same {} statements load differently from {} and {}: the N3 loader stores plain literals with their quotes, every other loader and add_triple_parts store the bare value (`missing` = stored from {}, `unexpected` = stored from {}): {d}", t2.len(), fa.name(), fb.name(), fb.name(), fa.name()));
                        }
                        _ => o.fail(format!("c13.cross.{}_{}", fa.name().min(fb.name()), fa.name().max(fb.name())), format!("the same {} statements load differently from {} and {} (`missing` = stored from {}, `unexpected` = stored from {}): {d}", t2.len(), fa.name(), fb.name(), fb.name(), fa.name())),
                    }
                }
            }
        }
    }
    o
}

// ------------------------------------------------------------------------------------------
// parts
// ------------------------------------------------------------------------------------------

fn fmt_strategy() -> impl Strategy<Value = Fmt> {
    (0usize..5).prop_map(|i| FMTS[i])
}

fn target_strategy(fmt: Fmt, tier: Tier) -> BoxedStrategy<u32> {
    if fmt == Fmt::Xml {
        prop_oneof![
            6 => 0u32..600,
            2 => 8188u32..8197,
            1 => 16380u32..16390,
            1 => 0u32..tier.pick(9000, 20000),
        ]
        .boxed()
    } else {
        prop_oneof![
            2 => 0u32..4,
            3 => 4u32..200,
            3 => 996u32..1005,
            2 => 1996u32..2005,
            1 => 2496u32..2505,
            3 => 0u32..tier.pick(2600, 4200),
        ]
        .boxed()
    }
}

struct Random;
impl Part for Random {
    type Case = Case;
    fn name(&self) -> &'static str {
        "random"
    }
    fn cases(&self, tier: Tier) -> u32 {
        tier.pick(800, 30_000)
    }
    fn strategy(&self, tier: Tier) -> BoxedStrategy<Case> {
        let shape = (prop_oneof![2u16..12, 30u16..400, 4000u16..6000], 1u8..6, prop_oneof![Just(0u8), 1u8..7], any::<bool>(), any::<bool>(), prop::bool::weighted(0.25), prop::bool::weighted(0.3));
        let layout = (0u8..4, any::<bool>(), 0u8..4, prop::bool::weighted(0.15), any::<bool>());
        let env = (0u8..6, prop_oneof![1u16..6, 6u16..300], 0u8..3, 1u8..5);
        (fmt_strategy(), fmt_strategy(), any::<u64>(), shape, layout, env)
            .prop_flat_map(move |(fmt, other, seed, shape, layout, env)| (Just((fmt, other, seed, shape, layout, env)), target_strategy(fmt, tier)))
            .prop_map(|((fmt, other, seed, shape, layout, env), target)| Case {
                fmt,
                other,
                target,
                seed,
                vocab: shape.0,
                npred: shape.1,
                lit_w: shape.2,
                quoted: shape.3,
                graphs: shape.4,
                hash_ns: shape.5,
                use_a: shape.6,
                prefix: layout.0,
                shorthand: layout.1,
                noise: layout.2,
                crlf: layout.3,
                nt_two_step: layout.4,
                prior_kind: env.0,
                prior_n: env.1,
                threads: env.2,
                pieces: env.3,
            })
            .boxed()
    }
    fn check(&self, case: &Case) -> Outcome {
        check_case(case)
    }
    /// the document is a function of `seed`: shrinking mostly lowers `target` and the flags, which needs few steps
    fn max_shrink_iters(&self, tier: Tier) -> u32 {
        tier.pick(120, 300)
    }
}

/// Enumerated cells: format x boundary size x prior kind x thread count (flags from the cell hash).
struct Boundary;
impl Part for Boundary {
    type Case = Case;
    fn name(&self) -> &'static str {
        "boundary"
    }
    fn cases(&self, _: Tier) -> u32 {
        0
    }
    fn strategy(&self, _: Tier) -> BoxedStrategy<Case> {
        Just(boundary_case(Fmt::Nt, 0, 0, 0, 0)).boxed()
    }
    fn check(&self, case: &Case) -> Outcome {
        check_case(case)
    }
}

fn boundary_case(fmt: Fmt, target: u32, prior_kind: u8, threads: u8, h: u64) -> Case {
    let mut r = Rng::new(h, 77);
    let other = FMTS[r.below(5) as usize];
    Case {
        fmt,
        other,
        target,
        seed: r.next(),
        vocab: [6u16, 40, 300, 5000][r.below(4) as usize],
        npred: 1 + r.below(5) as u8,
        lit_w: [0u8, 0, 2, 4][r.below(4) as usize],
        quoted: r.chance(1, 2),
        graphs: r.chance(1, 2),
        hash_ns: r.chance(1, 5),
        use_a: r.chance(1, 4),
        prefix: r.below(4) as u8,
        shorthand: r.chance(1, 2),
        noise: r.below(4) as u8,
        crlf: r.chance(1, 8),
        nt_two_step: r.chance(1, 2),
        // the "nothing in the default graph" cells rotate through the four states with an empty default graph
        prior_kind: if prior_kind == 0 { [0u8, 3, 4, 5][r.below(4) as usize] } else { prior_kind },
        prior_n: [1u16, 5, 40, 250][r.below(4) as usize],
        threads,
        pieces: 1 + r.below(3) as u8,
    }
}

fn boundary_cells(tier: Tier, seed: u64) -> Vec<Case> {
    let line_sizes: [u32; 10] = [0, 1, 2, 999, 1000, 1001, 1999, 2000, 2001, 2500];
    let xml_sizes: [u32; 7] = [0, 1, 500, 8191, 8192, 8193, 16385];
    let reps = tier.pick(1u64, 8);
    let mut v = vec![];
    let mut idx = 0u64;
    for rep in 0..reps {
        for fmt in FMTS {
            let sizes: &[u32] = if fmt == Fmt::Xml { &xml_sizes } else { &line_sizes };
            for target in sizes {
                for prior_kind in 0..3u8 {
                    for th in 0..3u8 {
                        idx += 1;
                        v.push(boundary_case(fmt, *target, prior_kind, th, mix(mix(seed, rep), idx)));
                    }
                }
            }
        }
    }
    // run_enum hands out blocks of 64 consecutive cases per worker: deal the cells so that every
    // block gets the same share of big documents (order inside the enumeration is irrelevant)
    v.sort_by_key(|c| std::cmp::Reverse(c.target));
    let blocks = v.len().div_ceil(64).max(1);
    let mut dealt: Vec<Vec<Case>> = vec![vec![]; blocks];
    for (i, c) in v.into_iter().enumerate() {
        dealt[i % blocks].push(c);
    }
    dealt.into_iter().flatten().collect()
}

fn main() {
    let mut s = Session::start(
        "C13",
        "exploration",
        "statement lists T (http/https IRIs over 3 namespaces, plain literals of letters/digits/inner single blanks, quoted triples for NT/NQ/Turtle, named graphs for NQ, optional rdf:type) \
         are rebuilt deterministically from the case parameters and rendered in each loader's line-oriented subset: N-Triples/N-Quads one statement per line (blank/tab separators, `a` in N-Triples), \
         Turtle with @prefix, prefixed names, bare integers, single-line `;`/`,` groups, N3 with @prefix, prefixed names, whitespace-separated `;` groups and trailing comments, \
         RDF/XML rdf:Description/rdf:about blocks with rdf:resource and text properties; comment/blank lines so that lines != statements; prefixes absent / top only / re-declared / re-bound mid-document; LF or CRLF. \
         Part `boundary` enumerates format x exact document size {0,1,2,999,1000,1001,1999,2000,2001,2500 lines; RDF/XML 0,1,500,8191,8192,8193,16385 triples} x prior {empty, API, other loader} x rayon pool {1,2,16} \
         (1 flag variant per cell in the quick tier, 8 in the thorough tier); part `random` draws every parameter. Each case: main load against `before ∪ T`, (i) the same items as >=2 self-contained pieces (<1000 lines / <8192 triples each) \
         into an identically pre-populated database, (ii) T (minus what the second format cannot express) rendered in both formats into fresh databases. \
         Non-trivial = the document crosses an internal boundary of its loader (>1000 lines for N-Triples/N3, >8192 triples for RDF/XML) or the pre-populated content shares a term with T; distinct = distinct parameter tuple.",
    );
    s.assume("stored lexical conventions are the ones the repository's README/tests show: IRIs without <>, plain literals without quotes, quoted triples rendered `<< s p o >>` by decode_any");
    s.assume("the N3 loader's convention for plain literals (quotes kept or not) is read once from a one-statement document loaded into an empty database; it is only used for the N3 exact oracle, the cross-format relation expects bare literals from every loader");
    s.assume("the pre-populated content is established through add_triple_parts/add_quad_parts or a different loader and is itself compared with its model before the load under test");
    s.assume("the `,` object list and the `a` keyword are not generated for N3 (parse_statement implements neither and no README/example uses them); multi-line statements are not generated (Turtle loader is line based)");
    let cells = boundary_cells(s.tier, s.seed);
    s.run_enum(&Boundary, cells.into_iter(), true);
    s.run(&Random);
    let tier = s.tier;
    let code = s.finish();
    compact_log(tier);
    std::process::exit(code);
}

/// The N3 loader prints one "Unknown prefix" line per unresolved term (known findings F2/F3): hundreds
/// of megabytes in the thorough tier. Those lines are counted and dropped from the log at the end.
fn compact_log(tier: Tier) {
    use std::io::{BufRead, BufReader, BufWriter, Write};
    let root = std::env::var("KVH_ROOT").unwrap_or_else(|_| "/verif".to_string());
    let path = format!("{root}/logs/C13.{}.log", tier.name());
    let tmp = format!("{path}.tmp");
    let Ok(f) = std::fs::File::open(&path) else { return };
    let Ok(w) = std::fs::File::create(&tmp) else { return };
    let mut w = BufWriter::new(w);
    let mut dropped = 0u64;
    let mut r = BufReader::new(f);
    let mut line = Vec::new();
    loop {
        line.clear();
        match r.read_until(b'\n', &mut line) {
            Ok(0) | Err(_) => break,
            Ok(_) => {
                if line.starts_with(b"Unknown prefix") {
                    dropped += 1;
                } else if w.write_all(&line).is_err() {
                    return;
                }
            }
        }
    }
    let _ = writeln!(w, "[c13: {dropped} `Unknown prefix` lines printed by parse_n3 were dropped from this log]");
    if w.flush().is_ok() {
        let _ = std::fs::rename(&tmp, &path);
    }
}
