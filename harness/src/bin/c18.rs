//! C18 — backward chaining returns only entailed answers, and all shallow ones, whatever the goal's
//! variables are called.
//!
//! Oracle (independent of the engine): naive T_P iteration to the least fixpoint over
//! BTreeSet<(u32,u32,u32)> with a backtracking matcher; the round in which a fact first appears is its
//! minimal derivation height (number of nested rule applications). Rule filters are part of the rule
//! body (a derivation whose bindings fail the filter does not exist).
//!   * soundness    : every returned binding set, applied to the goal with `resolve_term`, gives a
//!                    ground triple that belongs to the least model;
//!   * completeness : every fact of the least model that matches the goal and has height <= MAX_DEPTH
//!                    is among the answers;
//!   * renaming     : the set of ground goal instances is identical for every consistent renaming of
//!                    the goal's variables (given names / X,Y,Z / given names rotated).
//! A second, purely arithmetical component estimates the size of the engine's depth-limited SLD tree
//! (memoised count, never used as an oracle) so that programs whose search would not finish in about a
//! second are dropped and counted instead of being run.

use datalog::reasoning::backward_chaining::resolve_term;
use datalog::reasoning::Reasoner;
use kvh::engine::*;
use proptest::prelude::*;
use serde::{Deserialize, Serialize};
use shared::rule::{FilterCondition, Rule};
use shared::terms::{Term, TriplePattern};
use std::collections::{BTreeMap, BTreeSet, HashMap};
use std::rc::Rc;

/// `const MAX_DEPTH: usize = 10; if depth > MAX_DEPTH { return Vec::new(); }` — the top goal runs at
/// depth 0, the premises of a rule applied at depth d run at depth d+1, facts are matched at every
/// admitted depth. A proof tree with h nested rule applications therefore needs depths 0..=h.
const MAX_DEPTH: u32 = 10;
/// Estimated SLD work (nodes + produced binding sets) above which a case is not run.
const SLD_CUTOFF: u64 = 8_000;
/// symbols: 0..PRED_BASE are individuals (dictionary string = value = sym+1), PRED_BASE+k is predicate k
const PRED_BASE: u8 = 32;

#[derive(Clone, Copy, Debug, Serialize, Deserialize, PartialEq, Eq, PartialOrd, Ord, Hash)]
enum T {
    /// variable slot (index into the rule's / goal's name list)
    V(u8),
    /// constant symbol
    C(u8),
}
type Pat = (T, T, T);
type Fact = (u32, u32, u32);

#[derive(Clone, Debug, Serialize, Deserialize, PartialEq)]
struct FilterSpec {
    var: u8,
    /// one of > < >= <= = !=
    op: String,
    /// compare with another premise variable (only = and !=) ...
    rhs_var: Option<u8>,
    /// ... or with this integer constant
    rhs_num: i32,
}

#[derive(Clone, Debug, Serialize, Deserialize, PartialEq)]
struct RuleSpec {
    names: Vec<String>,
    premise: Vec<Pat>,
    conclusion: Vec<Pat>,
    filters: Vec<FilterSpec>,
}

#[derive(Clone, Debug, Serialize, Deserialize, PartialEq)]
struct Case {
    facts: Vec<(u8, u8, u8)>,
    rules: Vec<RuleSpec>,
    goal: Pat,
    /// names of the goal's variable slots 0,1,2 (pairwise distinct)
    goal_names: Vec<String>,
}

fn sym_name(s: u8) -> String {
    if s < PRED_BASE {
        format!("{}", s as u32 + 1)
    } else {
        format!("p{}", s - PRED_BASE)
    }
}

fn sym_value(s: u32) -> Option<f64> {
    if s < PRED_BASE as u32 {
        Some(s as f64 + 1.0)
    } else {
        None
    }
}

fn pat_terms(p: &Pat) -> [T; 3] {
    [p.0, p.1, p.2]
}

fn is_vn(name: &str) -> bool {
    name.len() >= 2 && name.starts_with('v') && name[1..].bytes().all(|b| b.is_ascii_digit())
}

// ------------------------------------------------------------------------------------------
// the oracle: least fixpoint with derivation heights
// ------------------------------------------------------------------------------------------

fn match_term(t: T, v: u32, env: &mut [Option<u32>]) -> bool {
    match t {
        T::C(c) => c as u32 == v,
        T::V(k) => match env[k as usize] {
            Some(b) => b == v,
            None => {
                env[k as usize] = Some(v);
                true
            }
        },
    }
}

fn match_pat(p: &Pat, f: &Fact, env: &mut [Option<u32>]) -> bool {
    match_term(p.0, f.0, env) && match_term(p.1, f.1, env) && match_term(p.2, f.2, env)
}

fn match_premises(prem: &[Pat], i: usize, env: &mut Vec<Option<u32>>, model: &BTreeSet<Fact>, out: &mut dyn FnMut(&[Option<u32>])) {
    if i == prem.len() {
        out(env);
        return;
    }
    for f in model {
        let saved = env.clone();
        if match_pat(&prem[i], f, env) {
            match_premises(prem, i + 1, env, model, out);
        }
        *env = saved;
    }
}

/// The rule body's filter, as the rule text states it: comparison of the bound values.
fn filters_hold(filters: &[FilterSpec], env: &[Option<u32>]) -> bool {
    for f in filters {
        let lhs = match env.get(f.var as usize).copied().flatten() {
            Some(x) => x,
            None => return false,
        };
        if let Some(rv) = f.rhs_var {
            let rhs = match env.get(rv as usize).copied().flatten() {
                Some(x) => x,
                None => return false,
            };
            let ok = match f.op.as_str() {
                "=" => lhs == rhs,
                "!=" => lhs != rhs,
                _ => return false,
            };
            if !ok {
                return false;
            }
        } else {
            let a = match sym_value(lhs) {
                Some(a) => a,
                None => return false,
            };
            let b = f.rhs_num as f64;
            let ok = match f.op.as_str() {
                ">" => a > b,
                "<" => a < b,
                ">=" => a >= b,
                "<=" => a <= b,
                "=" => a == b,
                "!=" => a != b,
                _ => return false,
            };
            if !ok {
                return false;
            }
        }
    }
    true
}

fn inst(t: T, env: &[Option<u32>]) -> Option<u32> {
    match t {
        T::C(c) => Some(c as u32),
        T::V(k) => env.get(k as usize).copied().flatten(),
    }
}

/// fact -> round of first appearance (0 = given fact)
fn least_model(facts: &[(u8, u8, u8)], rules: &[RuleSpec], use_filters: bool) -> BTreeMap<Fact, u32> {
    let mut height: BTreeMap<Fact, u32> = BTreeMap::new();
    let mut model: BTreeSet<Fact> = BTreeSet::new();
    for f in facts {
        let f = (f.0 as u32, f.1 as u32, f.2 as u32);
        model.insert(f);
        height.insert(f, 0);
    }
    let mut round = 0u32;
    loop {
        round += 1;
        let mut new: BTreeSet<Fact> = BTreeSet::new();
        for r in rules {
            let mut env: Vec<Option<u32>> = vec![None; r.names.len()];
            match_premises(&r.premise, 0, &mut env, &model, &mut |env| {
                if use_filters && !filters_hold(&r.filters, env) {
                    return;
                }
                for c in &r.conclusion {
                    if let (Some(s), Some(p), Some(o)) = (inst(c.0, env), inst(c.1, env), inst(c.2, env)) {
                        if !model.contains(&(s, p, o)) {
                            new.insert((s, p, o));
                        }
                    }
                }
            });
        }
        if new.is_empty() {
            break;
        }
        for f in new {
            height.insert(f, round);
            model.insert(f);
        }
    }
    height
}

fn goal_matches(goal: &Pat, f: &Fact) -> bool {
    let mut env = [None; 3];
    match_pat(goal, f, &mut env)
}

// ------------------------------------------------------------------------------------------
// size of the depth-limited SLD tree (cost estimate only; memoised, multiplicities saturating)
// ------------------------------------------------------------------------------------------

#[derive(Clone, Copy, Debug, PartialEq, Eq, PartialOrd, Ord)]
enum E {
    C(u32),
    /// variable of the (normalised) goal
    G(u8),
    /// variable of the rule being applied
    R(u8),
}

type NGoal = [E; 3]; // only C and G, variables numbered by first occurrence

struct Sub(Vec<(E, E)>);
impl Sub {
    fn resolve(&self, mut t: E) -> E {
        loop {
            match t {
                E::C(_) => return t,
                v => match self.0.iter().find(|(k, _)| *k == v) {
                    Some((_, n)) => t = *n,
                    None => return v,
                },
            }
        }
    }
    fn unify(&mut self, a: E, b: E) -> bool {
        let a = self.resolve(a);
        let b = self.resolve(b);
        match (a, b) {
            (E::C(x), E::C(y)) => x == y,
            (E::C(_), v) => {
                self.0.push((v, a));
                true
            }
            (v, E::C(_)) => {
                self.0.push((v, b));
                true
            }
            (v, w) => {
                if v != w {
                    self.0.push((v, w));
                }
                true
            }
        }
    }
}

struct SldInfo {
    /// nodes visited + binding sets produced, over the whole subtree
    cost: u64,
    /// ground instances of the goal with the number of times the engine would return them
    answers: BTreeMap<[u32; 3], u64>,
}

struct Estimator<'a> {
    facts: Vec<[u32; 3]>,
    rules: &'a [RuleSpec],
    memo: BTreeMap<(NGoal, u32), Rc<SldInfo>>,
    /// set when a rule application leaves the goal non-ground (cannot happen for safe rules)
    nonground: bool,
}

fn to_e(t: T) -> E {
    match t {
        T::C(c) => E::C(c as u32),
        T::V(k) => E::R(k),
    }
}

fn normalise(terms: [E; 3]) -> (NGoal, Vec<E>) {
    let mut seen: Vec<E> = vec![];
    let mut out = [E::C(0); 3];
    for (i, t) in terms.iter().enumerate() {
        out[i] = match t {
            E::C(c) => E::C(*c),
            v => {
                let k = match seen.iter().position(|x| x == v) {
                    Some(k) => k,
                    None => {
                        seen.push(*v);
                        seen.len() - 1
                    }
                };
                E::G(k as u8)
            }
        };
    }
    (out, seen)
}

impl<'a> Estimator<'a> {
    fn solve(&mut self, goal: NGoal, depth: u32) -> Rc<SldInfo> {
        if depth > MAX_DEPTH {
            return Rc::new(SldInfo { cost: 1, answers: BTreeMap::new() });
        }
        if let Some(r) = self.memo.get(&(goal, depth)) {
            return r.clone();
        }
        let mut cost: u64 = 1;
        let mut answers: BTreeMap<[u32; 3], u64> = BTreeMap::new();
        for f in &self.facts {
            let mut s = Sub(vec![]);
            if (0..3).all(|i| s.unify(goal[i], E::C(f[i]))) {
                *answers.entry(*f).or_default() += 1;
            }
        }
        let rules = self.rules;
        for r in rules {
            for concl in &r.conclusion {
                let mut s = Sub(vec![]);
                let ct = pat_terms(concl);
                if !(0..3).all(|i| s.unify(to_e(ct[i]), goal[i])) {
                    continue;
                }
                let mut states: Vec<(Vec<(E, E)>, u64)> = vec![(s.0, 1)];
                for prem in &r.premise {
                    let mut next: Vec<(Vec<(E, E)>, u64)> = vec![];
                    let pt = pat_terms(prem);
                    for (sub, mult) in &states {
                        let s = Sub(sub.clone());
                        let terms = [s.resolve(to_e(pt[0])), s.resolve(to_e(pt[1])), s.resolve(to_e(pt[2]))];
                        let (ng, _) = normalise(terms);
                        let info = self.solve(ng, depth + 1);
                        cost = cost.saturating_add(mult.saturating_mul(info.cost));
                        for (a, m2) in &info.answers {
                            let mut s2 = Sub(sub.clone());
                            if (0..3).all(|i| s2.unify(terms[i], E::C(a[i]))) {
                                next.push((s2.0, mult.saturating_mul(*m2)));
                            }
                        }
                        if next.len() > 200_000 {
                            cost = u64::MAX;
                            break;
                        }
                    }
                    states = next;
                    if cost == u64::MAX {
                        // saturated: far above any cut-off; the partial states are meaningless
                        states.clear();
                        break;
                    }
                }
                for (sub, mult) in states {
                    let s = Sub(sub);
                    let g = [s.resolve(goal[0]), s.resolve(goal[1]), s.resolve(goal[2])];
                    if let [E::C(a), E::C(b), E::C(c)] = g {
                        let e = answers.entry([a, b, c]).or_default();
                        *e = e.saturating_add(mult);
                    } else {
                        self.nonground = true;
                    }
                }
            }
        }
        let produced = answers.values().fold(0u64, |a, b| a.saturating_add(*b));
        cost = cost.saturating_add(produced);
        let info = Rc::new(SldInfo { cost, answers });
        self.memo.insert((goal, depth), info.clone());
        info
    }
}

fn estimate_sld(c: &Case) -> (u64, bool) {
    let mut est = Estimator { facts: c.facts.iter().map(|f| [f.0 as u32, f.1 as u32, f.2 as u32]).collect(), rules: &c.rules, memo: BTreeMap::new(), nonground: false };
    let gt = pat_terms(&c.goal);
    let (ng, _) = normalise([to_e(gt[0]), to_e(gt[1]), to_e(gt[2])]);
    let info = est.solve(ng, 0);
    (info.cost, est.nonground)
}

// ------------------------------------------------------------------------------------------
// building the engine object
// ------------------------------------------------------------------------------------------

struct Built {
    r: Reasoner,
    id_of: BTreeMap<u8, u32>,
    sym_of: HashMap<u32, u8>,
}

fn case_syms(c: &Case) -> BTreeSet<u8> {
    let mut s = BTreeSet::new();
    for f in &c.facts {
        s.insert(f.0);
        s.insert(f.1);
        s.insert(f.2);
    }
    let mut pat = |p: &Pat| {
        for t in pat_terms(p) {
            if let T::C(x) = t {
                s.insert(x);
            }
        }
    };
    for r in &c.rules {
        r.premise.iter().for_each(&mut pat);
        r.conclusion.iter().for_each(&mut pat);
    }
    pat(&c.goal);
    s
}

fn to_term(t: T, names: &[String], id_of: &BTreeMap<u8, u32>) -> Term {
    match t {
        T::V(k) => Term::Variable(names[k as usize].clone()),
        T::C(s) => Term::Constant(id_of[&s]),
    }
}

fn to_pattern(p: &Pat, names: &[String], id_of: &BTreeMap<u8, u32>) -> TriplePattern {
    (to_term(p.0, names, id_of), to_term(p.1, names, id_of), to_term(p.2, names, id_of))
}

fn build(c: &Case) -> Built {
    let mut r = Reasoner::new();
    for f in &c.facts {
        r.add_abox_triple(&sym_name(f.0), &sym_name(f.1), &sym_name(f.2));
    }
    let mut id_of = BTreeMap::new();
    let mut sym_of = HashMap::new();
    {
        let mut d = r.dictionary.write().unwrap();
        for s in case_syms(c) {
            let id = d.encode(&sym_name(s));
            id_of.insert(s, id);
            sym_of.insert(id, s);
        }
    }
    for rs in &c.rules {
        r.add_rule(Rule {
            premise: rs.premise.iter().map(|p| to_pattern(p, &rs.names, &id_of)).collect(),
            negative_premise: vec![],
            conclusion: rs.conclusion.iter().map(|p| to_pattern(p, &rs.names, &id_of)).collect(),
            filters: rs
                .filters
                .iter()
                .map(|f| FilterCondition {
                    variable: rs.names[f.var as usize].clone(),
                    operator: f.op.clone(),
                    value: match f.rhs_var {
                        Some(v) => rs.names[v as usize].clone(),
                        None => format!("{}", f.rhs_num),
                    },
                })
                .collect(),
        });
    }
    Built { r, id_of, sym_of }
}

// ------------------------------------------------------------------------------------------
// the check
// ------------------------------------------------------------------------------------------

fn well_formed(c: &Case) -> bool {
    let ind = |t: T, n: usize| match t {
        T::V(k) => (k as usize) < n,
        T::C(_) => true,
    };
    if c.goal_names.len() < 3 || c.facts.is_empty() {
        return false;
    }
    let mut gn = c.goal_names.clone();
    gn.sort();
    gn.dedup();
    if gn.len() != c.goal_names.len() || !pat_terms(&c.goal).iter().all(|t| ind(*t, 3)) {
        return false;
    }
    for r in &c.rules {
        let n = r.names.len();
        let mut names = r.names.clone();
        names.sort();
        names.dedup();
        if names.len() != n || r.premise.is_empty() || r.conclusion.is_empty() {
            return false;
        }
        let mut pv: BTreeSet<u8> = BTreeSet::new();
        for p in &r.premise {
            for t in pat_terms(p) {
                if !ind(t, n) {
                    return false;
                }
                if let T::V(k) = t {
                    pv.insert(k);
                }
            }
        }
        for p in &r.conclusion {
            for t in pat_terms(p) {
                if let T::V(k) = t {
                    if !pv.contains(&k) {
                        return false; // unsafe rule: outside the property's domain
                    }
                }
            }
        }
        for f in &r.filters {
            if !pv.contains(&f.var) || f.rhs_var.map_or(false, |v| !pv.contains(&v)) {
                return false;
            }
            if f.rhs_var.is_some() && f.op != "=" && f.op != "!=" {
                return false;
            }
            // a filtered variable must range over individuals only (numeric dictionary strings)
            for p in &r.premise {
                if p.1 == T::V(f.var) || f.rhs_var.map_or(false, |v| p.1 == T::V(v)) {
                    return false;
                }
            }
        }
        if !r.filters.is_empty() && (r.premise.iter().any(|p| matches!(p.1, T::V(_))) || r.conclusion.iter().any(|p| matches!(p.1, T::V(_)))) {
            return false;
        }
    }
    true
}

fn fmt_fact(f: &Fact) -> String {
    format!("({} {} {})", sym_name(f.0 as u8), sym_name(f.1 as u8), sym_name(f.2 as u8))
}

fn fmt_set(s: &BTreeSet<Fact>) -> String {
    let v: Vec<String> = s.iter().map(fmt_fact).collect();
    format!("{{{}}}", v.join(", "))
}

fn fmt_goal(g: &Pat, names: &[String]) -> String {
    let t = |t: T| match t {
        T::V(k) => format!("?{}", names[k as usize]),
        T::C(s) => sym_name(s),
    };
    format!("({} {} {})", t(g.0), t(g.1), t(g.2))
}

fn fmt_program(c: &Case) -> String {
    let mut s = String::from("facts: ");
    for f in &c.facts {
        s.push_str(&fmt_fact(&(f.0 as u32, f.1 as u32, f.2 as u32)));
        s.push(' ');
    }
    for r in &c.rules {
        s.push_str("\n  rule: ");
        let cs: Vec<String> = r.conclusion.iter().map(|p| fmt_goal(p, &r.names)).collect();
        let ps: Vec<String> = r.premise.iter().map(|p| fmt_goal(p, &r.names)).collect();
        s.push_str(&format!("{} :- {}", cs.join(" & "), ps.join(", ")));
        for f in &r.filters {
            match f.rhs_var {
                Some(v) => s.push_str(&format!(", FILTER(?{} {} ?{})", r.names[f.var as usize], f.op, r.names[v as usize])),
                None => s.push_str(&format!(", FILTER(?{} {} {})", r.names[f.var as usize], f.op, f.rhs_num)),
            }
        }
    }
    s
}

/// Set as soon as any case fails with a signature other than the two that cannot enlarge the search
/// (lost answers through the v<n> clash, filters ignored - the estimate already ignores filters).
/// From then on the size estimate of recursive programs is no longer trusted (a defective engine
/// may search a much larger tree than a correct one) and such cases are not run, only counted.
static TRIPPED: std::sync::atomic::AtomicBool = std::sync::atomic::AtomicBool::new(false);

/// Can the engine's search recurse through a rule more than once? (predicate dependency cycle, or a
/// predicate variable in a rule). Without recursion the depth of the search is bounded by the number of
/// rules whatever the engine does.
fn recursion_possible(rules: &[RuleSpec]) -> bool {
    let mut reach: BTreeSet<(u8, u8)> = BTreeSet::new();
    for r in rules {
        for c in &r.conclusion {
            for p in &r.premise {
                match (c.1, p.1) {
                    (T::C(a), T::C(b)) => {
                        reach.insert((a, b));
                    }
                    _ => return true,
                }
            }
        }
    }
    loop {
        let mut add = vec![];
        for (a, b) in &reach {
            for (c, d) in &reach {
                if b == c && !reach.contains(&(*a, *d)) {
                    add.push((*a, *d));
                }
            }
        }
        if add.is_empty() {
            break;
        }
        reach.extend(add);
    }
    reach.iter().any(|(a, b)| a == b)
}

struct VariantResult {
    names: Vec<String>,
    answers: BTreeSet<Fact>,
    missing: BTreeSet<Fact>,
}

fn check_case(c: &Case) -> Outcome {
    let o = check_case_inner(c);
    if o.failures.iter().any(|f| f.sig != "c18.renaming.vN_goal_variable_clash" && f.sig != "c18.soundness.rule_filter_ignored") {
        TRIPPED.store(true, std::sync::atomic::Ordering::Relaxed);
    }
    o
}

fn check_case_inner(c: &Case) -> Outcome {
    let mut o = Outcome::new();
    if !well_formed(c) {
        o.skipped.push("malformed-case");
        return o;
    }
    let recursive = recursion_possible(&c.rules);
    if recursive && TRIPPED.load(std::sync::atomic::Ordering::Relaxed) {
        o.skipped.push("recursive-program-not-run-after-a-violation(size-estimate-untrusted)");
        return o;
    }
    let has_filter = c.rules.iter().any(|r| !r.filters.is_empty());
    let model = least_model(&c.facts, &c.rules, true);
    let model_nofilter = if has_filter { least_model(&c.facts, &c.rules, false) } else { model.clone() };

    let (cost, nonground) = estimate_sld(c);
    if nonground {
        if std::env::var("KVH_C18_TRACE").is_ok() {
            eprintln!("c18-trace nonground goal {} {}", fmt_goal(&c.goal, &c.goal_names), fmt_program(c));
        }
        o.skipped.push("estimator-nonground");
        return o;
    }
    if cost > SLD_CUTOFF {
        o.skipped.push("sld-tree-above-cutoff");
        o.class("dropped:sld-tree-above-cutoff");
        return o;
    }

    let used_slots: BTreeSet<u8> = pat_terms(&c.goal).iter().filter_map(|t| if let T::V(k) = t { Some(*k) } else { None }).collect();
    let matching: BTreeSet<Fact> = model.keys().filter(|f| goal_matches(&c.goal, f)).copied().collect();
    let demanded: BTreeSet<Fact> = matching.iter().filter(|f| model[f] <= MAX_DEPTH).copied().collect();

    let built = match catch(|| build(c)) {
        Ok(b) => b,
        Err(site) => {
            o.panic("building the Reasoner", &site);
            return o;
        }
    };

    // the product's own forward chaining as a second opinion on what a filtered rule derives
    let mut filter_verdict_trusted = true;
    if has_filter {
        match catch(|| {
            let mut b2 = build(c);
            b2.r.infer_new_facts_semi_naive();
            let mut all: BTreeSet<Fact> = BTreeSet::new();
            let mut unknown = false;
            for t in b2.r.dataset_index.query(None, None, None) {
                match (b2.sym_of.get(&t.subject), b2.sym_of.get(&t.predicate), b2.sym_of.get(&t.object)) {
                    (Some(s), Some(p), Some(ob)) => {
                        all.insert((*s as u32, *p as u32, *ob as u32));
                    }
                    _ => unknown = true,
                }
            }
            (all, unknown)
        }) {
            Ok((all, unknown)) => {
                let mine: BTreeSet<Fact> = model.keys().copied().collect();
                if unknown || all != mine {
                    filter_verdict_trusted = false;
                    o.ambiguous += 1;
                    o.skipped.push("filter-soundness:forward-chaining-disagrees-with-oracle");
                }
            }
            Err(_) => {
                filter_verdict_trusted = false;
                o.ambiguous += 1;
                o.skipped.push("filter-soundness:forward-chaining-panicked");
            }
        }
    }

    let neutral: Vec<String> = vec!["X".into(), "Y".into(), "Z".into()];
    let mut rotated = c.goal_names.clone();
    rotated.rotate_left(1);
    // order: neutral first (reference), then the generated names, then a second consistent renaming
    let mut variants: Vec<Vec<String>> = vec![neutral.clone()];
    if c.goal_names[..3] != neutral[..] {
        variants.push(c.goal_names.clone());
    }
    if used_slots.len() >= 1 && rotated != c.goal_names && rotated[..3] != neutral[..] {
        variants.push(rotated);
    }

    // Half of the cases: other goals are asked first on the same reasoner (a ground goal built from a stored fact, and
    // the goal with its first constant position opened / its first variable position closed). Whatever a query leaves
    // behind in the reasoner must not change the answers of the next one; their own answers are not judged here.
    if c.goal_names.iter().map(|n| n.len()).sum::<usize>() % 2 == 0 {
        o.class("other-goals-asked-first-on-the-same-reasoner");
        let mut warm: Vec<Pat> = vec![];
        if let Some(f) = c.facts.first() {
            warm.push((T::C(f.0), T::C(f.1), T::C(f.2)));
            let mut g = c.goal;
            match g.0 {
                T::C(_) => g.0 = T::V(0),
                T::V(_) => g.0 = T::C(f.0),
            }
            warm.push(g);
        }
        for w in &warm {
            // the same size bound as for the judged goal (the search tree of backward chaining can be exponential)
            let mut probe = c.clone();
            probe.goal = *w;
            let (wcost, wnonground) = estimate_sld(&probe);
            if wnonground || wcost > SLD_CUTOFF {
                continue;
            }
            let goal = to_pattern(w, &neutral, &built.id_of);
            if let Err(site) = catch(|| built.r.backward_chaining(&goal)) {
                o.panic(&format!("backward_chaining{} (asked before the judged goal) on\n{}", fmt_goal(w, &neutral), fmt_program(c)), &site);
                return o;
            }
            o.inner_evals += 1;
        }
    }

    let trace_start = std::time::Instant::now(); // diagnostics only (KVH_C18_TRACE), never a verdict
    let mut results: Vec<VariantResult> = vec![];
    for names in &variants {
        let goal = to_pattern(&c.goal, names, &built.id_of);
        let res = match catch(|| built.r.backward_chaining(&goal)) {
            Ok(r) => r,
            Err(site) => {
                o.panic(&format!("backward_chaining{} on\n{}", fmt_goal(&c.goal, names), fmt_program(c)), &site);
                return o;
            }
        };
        o.inner_evals += 1;
        let mut answers: BTreeSet<Fact> = BTreeSet::new();
        for b in &res {
            let s = resolve_term(&goal.0, b);
            let p = resolve_term(&goal.1, b);
            let ob = resolve_term(&goal.2, b);
            let sym = |t: &Term| match t {
                Term::Constant(id) => built.sym_of.get(id).map(|s| *s as u32),
                _ => None,
            };
            match (sym(&s), sym(&p), sym(&ob)) {
                (Some(s), Some(p), Some(ob)) => {
                    answers.insert((s, p, ob));
                }
                _ => {
                    o.fail(
                        "c18.soundness.answer_not_ground",
                        format!("goal {} : a returned binding set leaves the goal non-ground or binds an unknown constant: ({:?} {:?} {:?})\n{}", fmt_goal(&c.goal, names), s, p, ob, fmt_program(c)),
                    );
                }
            }
        }
        // soundness
        let invented: BTreeSet<Fact> = answers.iter().filter(|f| !model.contains_key(f)).copied().collect();
        if !invented.is_empty() {
            let by_filter: BTreeSet<Fact> = invented.iter().filter(|f| model_nofilter.contains_key(f)).copied().collect();
            let other: BTreeSet<Fact> = invented.difference(&by_filter).copied().collect();
            if !other.is_empty() {
                o.fail(
                    "c18.soundness.not_entailed",
                    format!("goal {} : answers {} are not in the least model {}\n{}", fmt_goal(&c.goal, names), fmt_set(&other), fmt_set(&model.keys().copied().collect()), fmt_program(c)),
                );
            }
            if has_filter && !by_filter.is_empty() {
                if filter_verdict_trusted {
                    o.fail(
                        "c18.soundness.rule_filter_ignored",
                        format!(
                            "goal {} : answers {} are derivable only by rule instances whose FILTER is false (least model with filters, confirmed by infer_new_facts_semi_naive: {})\n{}",
                            fmt_goal(&c.goal, names),
                            fmt_set(&by_filter),
                            fmt_set(&model.keys().copied().collect()),
                            fmt_program(c)
                        ),
                    );
                }
            }
        }
        let missing: BTreeSet<Fact> = demanded.difference(&answers).copied().collect();
        results.push(VariantResult { names: names.clone(), answers, missing });
    }

    // completeness + renaming invariance (reference = neutral names X,Y,Z)
    let reference_answers = results[0].answers.clone();
    let reference_complete = results[0].missing.is_empty();
    for (i, v) in results.iter().enumerate() {
        let uses_vn = used_slots.iter().any(|k| is_vn(&v.names[*k as usize]));
        let mut clash = false;
        if i > 0 && v.answers != reference_answers {
            let only_losses = v.answers.is_subset(&reference_answers);
            if uses_vn && only_losses && reference_complete {
                clash = true;
                o.fail(
                    "c18.renaming.vN_goal_variable_clash",
                    format!(
                        "goal {} loses answers {} that the same goal written {} returns (goal variable named like the engine's internal v<n>)\n{}",
                        fmt_goal(&c.goal, &v.names),
                        fmt_set(&reference_answers.difference(&v.answers).copied().collect()),
                        fmt_goal(&c.goal, &results[0].names),
                        fmt_program(c)
                    ),
                );
            } else {
                o.fail(
                    "c18.renaming.answer_set_differs",
                    format!(
                        "goal {} answers {} but the same goal written {} answers {}\n{}",
                        fmt_goal(&c.goal, &v.names),
                        fmt_set(&v.answers),
                        fmt_goal(&c.goal, &results[0].names),
                        fmt_set(&reference_answers),
                        fmt_program(c)
                    ),
                );
            }
        }
        if !v.missing.is_empty() && !clash {
            let inner: BTreeSet<Fact> = v.missing.iter().filter(|f| model[f] < MAX_DEPTH).copied().collect();
            if !inner.is_empty() {
                o.fail(
                    "c18.completeness.missing_answer",
                    format!(
                        "goal {} : entailed facts {} (derivation heights {:?}, bound {}) are not among the answers {}\n{}",
                        fmt_goal(&c.goal, &v.names),
                        fmt_set(&inner),
                        inner.iter().map(|f| model[f]).collect::<Vec<_>>(),
                        MAX_DEPTH,
                        fmt_set(&v.answers),
                        fmt_program(c)
                    ),
                );
            } else {
                o.fail(
                    "c18.completeness.depth_boundary",
                    format!(
                        "goal {} : entailed facts {} of derivation height exactly {} are not among the answers {}\n{}",
                        fmt_goal(&c.goal, &v.names),
                        fmt_set(&v.missing),
                        MAX_DEPTH,
                        fmt_set(&v.answers),
                        fmt_program(c)
                    ),
                );
            }
        }
    }

    // coverage classes
    let max_h = demanded.iter().map(|f| model[f]).max().unwrap_or(0);
    let given_vn = used_slots.iter().any(|k| is_vn(&c.goal_names[*k as usize]));
    let rule_names: BTreeSet<&String> = c.rules.iter().flat_map(|r| r.names.iter()).collect();
    o.nontrivial = !used_slots.is_empty() && max_h >= 1;
    o.class_if(given_vn, "goal-names:v<n>-family");
    o.class_if(o.nontrivial && given_vn, "nontrivial+v<n>-names");
    o.class_if(used_slots.iter().any(|k| rule_names.contains(&c.goal_names[*k as usize])), "goal-names:shared-with-a-rule");
    o.class_if(used_slots.is_empty(), "goal-vars:0");
    o.class_if(used_slots.len() == 1, "goal-vars:1");
    o.class_if(used_slots.len() == 2, "goal-vars:2");
    o.class_if(used_slots.len() == 3, "goal-vars:3");
    let nvarpos = pat_terms(&c.goal).iter().filter(|t| matches!(t, T::V(_))).count();
    o.class_if(nvarpos > used_slots.len(), "goal-repeated-variable");
    o.class_if(matches!(c.goal.1, T::V(_)), "goal-predicate-variable");
    o.class_if(demanded.is_empty(), "no-expected-answer");
    o.class_if(max_h >= 1, "answer-height>=1");
    o.class_if(max_h >= 2, "answer-height>=2");
    o.class_if(max_h >= 4, "answer-height>=4");
    o.class_if(max_h >= 8, "answer-height>=8");
    o.class_if(max_h == MAX_DEPTH, "answer-height==MAX_DEPTH");
    o.class_if(matching.len() > demanded.len(), "matching-fact-beyond-depth-bound");
    o.class_if(recursive, "recursive-program");
    o.class_if(c.rules.iter().any(|r| r.conclusion.iter().any(|cc| r.premise.iter().filter(|p| p.1 == cc.1).count() >= 2)), "doubly-recursive-rule");
    o.class_if(c.rules.iter().any(|r| r.premise.len() == 2), "two-premise-rule");
    o.class_if(c.rules.iter().any(|r| r.conclusion.len() >= 2), "multi-conclusion-rule");
    o.class_if(c.rules.iter().any(|r| r.premise.iter().any(|p| matches!(p.1, T::V(_)))), "rule-predicate-variable");
    o.class_if(has_filter, "program-with-filter");
    if has_filter {
        let excl = model_nofilter.keys().any(|f| !model.contains_key(f) && goal_matches(&c.goal, f));
        o.class_if(excl, "filter-excludes-a-goal-instance");
        o.class_if(model_nofilter.len() > model.len(), "filter-excludes-some-fact");
    }
    o.class_if(cost > 2_000, "sld-cost>2k");
    if std::env::var("KVH_C18_TRACE").is_ok() {
        eprintln!("c18-trace cost={} variants={} answers={} engine_ms={}", cost, variants.len(), reference_answers.len(), trace_start.elapsed().as_millis());
    }
    o
}

// ------------------------------------------------------------------------------------------
// generators
// ------------------------------------------------------------------------------------------

const NAME_POOLS: [[&str; 3]; 8] = [
    ["X", "Y", "Z"],
    ["x", "y", "z"],
    ["v0", "v1", "v2"],
    ["v2", "v0", "v1"],
    ["s", "p", "o"],
    ["A", "B", "C"],
    ["v10", "v11", "v12"],
    ["person", "x", "v1"],
];

#[derive(Clone, Debug)]
struct RawRule {
    kind: u8,
    preds: [u16; 3],
    inds: [u16; 2],
    pool: u16,
    npre: u8,
    terms: [u16; 8],
    consts: [u16; 8],
    pvar: u16,
    fsel: [u16; 3],
    fnum: u8,
}

fn raw_rule() -> impl Strategy<Value = RawRule> {
    (
        (0u8..24, [sel(), sel(), sel()], [sel(), sel()], sel(), 1u8..=2),
        ([sel(), sel(), sel(), sel(), sel(), sel(), sel(), sel()], [sel(), sel(), sel(), sel(), sel(), sel(), sel(), sel()], sel()),
        ([sel(), sel(), sel()], 0u8..8),
    )
        .prop_map(|((kind, preds, inds, pool, npre), (terms, consts, pvar), (fsel, fnum))| RawRule { kind, preds, inds, pool, npre, terms, consts, pvar, fsel, fnum })
}

fn mk_rule(raw: &RawRule, n_ind: usize, n_pred: usize, with_filter: bool, acyclic: bool) -> RuleSpec {
    let mut r = mk_rule_any(raw, n_ind, n_pred, with_filter || acyclic, with_filter);
    if acyclic {
        // stratify: premises over p0/p1 (as generated, folded), every conclusion one level above them
        let fold = |t: T| match t {
            T::C(p) => T::C(PRED_BASE + (p - PRED_BASE) % 2),
            v => v,
        };
        for p in r.premise.iter_mut() {
            p.1 = fold(p.1);
        }
        let top = r.premise.iter().filter_map(|p| if let T::C(x) = p.1 { Some(x) } else { None }).max().unwrap_or(PRED_BASE);
        for c in r.conclusion.iter_mut() {
            c.1 = T::C(top + 1);
        }
    }
    r
}

fn mk_rule_any(raw: &RawRule, n_ind: usize, n_pred: usize, no_pvar: bool, with_filter: bool) -> RuleSpec {
    let names: Vec<String> = NAME_POOLS[pick_idx(raw.pool, NAME_POOLS.len())].iter().map(|s| s.to_string()).collect();
    let pr = |i: usize| T::C(PRED_BASE + pick_idx(raw.preds[i], n_pred) as u8);
    let ic = |s: u16| T::C(pick_idx(s, n_ind) as u8);
    let (a, b, cc) = (pr(0), pr(1), pr(2));
    let (x, y, z) = (T::V(0), T::V(1), T::V(2));
    let (premise, conclusion): (Vec<Pat>, Vec<Pat>) = match raw.kind {
        0 | 1 => (vec![(x, a, y)], vec![(x, b, y)]),                        // copy
        2 => (vec![(x, a, y)], vec![(y, b, x)]),                            // inverse
        3 | 4 => (vec![(x, a, y)], vec![(y, a, x)]),                        // symmetric closure
        5 | 6 => (vec![(x, a, y), (y, a, z)], vec![(x, a, z)]),             // transitivity (doubly recursive)
        7 | 8 => (vec![(x, a, y), (y, b, z)], vec![(x, b, z)]),             // linear, recursion on the right
        9 | 10 => (vec![(x, b, y), (y, a, z)], vec![(x, b, z)]),            // linear, recursion on the left
        11 | 12 => (vec![(x, a, z), (y, a, z)], vec![(x, b, y)]),           // join on a shared object (sibling)
        13 => (vec![(x, a, y), (y, b, z)], vec![(x, cc, z)]),               // composition
        14 => (vec![(x, a, ic(raw.inds[0]))], vec![(x, b, ic(raw.inds[1]))]), // constants
        15 => (vec![(x, a, y)], vec![(x, b, x)]),                           // repeated variable in the head
        16 => (vec![(x, a, x), (x, b, y)], vec![(y, cc, x)]),               // repeated variable in the body
        17 => (vec![(x, a, y)], vec![(x, b, y), (y, cc, x)]),               // two conclusions
        18 if !no_pvar => (vec![(x, T::V(2), y)], vec![(y, T::V(2), x)]), // predicate variable
        _ => {
            // free-form safe rule
            let allow_pvar = !no_pvar;
            let mut premise = vec![];
            let term = |i: usize| -> T {
                let k = pick_idx(raw.terms[i], 8);
                if k < 6 {
                    T::V((k % 3) as u8)
                } else {
                    ic(raw.consts[i])
                }
            };
            for j in 0..raw.npre as usize {
                let p = if allow_pvar && j == 0 && raw.pvar < 4000 { T::V(2) } else { pr(j) };
                premise.push((term(2 * j), p, term(2 * j + 1)));
            }
            let mut vars: Vec<T> = vec![];
            for p in &premise {
                for t in [p.0, p.2] {
                    if matches!(t, T::V(_)) && !vars.contains(&t) {
                        vars.push(t);
                    }
                }
            }
            let head_term = |i: usize| -> T {
                if vars.is_empty() || pick_idx(raw.terms[i], 8) >= 7 {
                    ic(raw.consts[i])
                } else {
                    vars[pick_idx(raw.consts[i], vars.len())]
                }
            };
            let hp = if allow_pvar && raw.pvar < 2000 && premise.iter().any(|p| p.1 == T::V(2)) { T::V(2) } else { pr(2) };
            (premise.clone(), vec![(head_term(4), hp, head_term(5))])
        }
    };
    let mut filters = vec![];
    if with_filter {
        let mut vars: Vec<u8> = vec![];
        for p in &premise {
            for t in [p.0, p.2] {
                if let T::V(k) = t {
                    if !vars.contains(&k) {
                        vars.push(k);
                    }
                }
            }
        }
        if !vars.is_empty() {
            let v = vars[pick_idx(raw.fsel[0], vars.len())];
            let others: Vec<u8> = vars.iter().copied().filter(|w| *w != v).collect();
            if !others.is_empty() && raw.fsel[1] < 30000 {
                let w = others[pick_idx(raw.fsel[2], others.len())];
                let op = if raw.fsel[1] < 24000 { "!=" } else { "=" };
                filters.push(FilterSpec { var: v, op: op.into(), rhs_var: Some(w), rhs_num: 0 });
            } else {
                let ops = [">", "<", ">=", "<=", "=", "!="];
                let op = ops[pick_idx(raw.fsel[2], ops.len())];
                filters.push(FilterSpec { var: v, op: op.into(), rhs_var: None, rhs_num: (raw.fnum as usize % (n_ind + 2)) as i32 });
            }
        }
    }
    RuleSpec { names, premise, conclusion, filters }
}

const V_FAMILY: [&str; 8] = ["v0", "v1", "v2", "v3", "v4", "v5", "v6", "v10"];
const GENERAL: [&str; 8] = ["X", "Y", "s", "x", "v0", "v1", "v2", "v10"];

fn pick_names(mode: u8, sels: &[u16; 3], rules: &[RuleSpec]) -> Vec<String> {
    let mut pool: Vec<String> = match mode {
        0 | 1 | 2 => V_FAMILY.iter().map(|s| s.to_string()).collect(),
        3 | 4 => GENERAL.iter().map(|s| s.to_string()).collect(),
        _ => {
            let mut p: Vec<String> = vec![];
            for r in rules {
                for n in &r.names {
                    if !p.contains(n) {
                        p.push(n.clone());
                    }
                }
            }
            for n in GENERAL {
                if !p.iter().any(|x| x == n) {
                    p.push(n.to_string());
                }
            }
            p.truncate(6);
            p
        }
    };
    let mut out = vec![];
    for s in sels {
        let i = pick_idx(*s, pool.len());
        out.push(pool.remove(i));
    }
    out
}

fn case_strategy(with_filter: bool, max_facts: usize, acyclic: bool) -> BoxedStrategy<Case> {
    (2usize..=5, if acyclic { 3usize..=3 } else { 1usize..=3 })
        .prop_flat_map(move |(n_ind, n_pred)| {
            let facts = proptest::collection::vec((sel(), sel(), sel()), 1..=max_facts);
            let rules = proptest::collection::vec(raw_rule(), 1..=3);
            // per goal position: (kind 0..5, variable slot, constant selector)
            let pos = || (0u8..5, 0u8..3, sel());
            (Just(n_ind), Just(n_pred), (0u8..3, facts), rules, (0u8..7, sel(), sel(), pos(), (0u8..8, 0u8..3, sel()), pos()), (0u8..7, [sel(), sel(), sel()]))
        })
        .prop_map(move |(n_ind, n_pred, (chain, facts), rules, (gmode, ga, gb, gs, gp, go), (mode, nsel))| {
            let mut facts: Vec<(u8, u8, u8)> = facts
                .iter()
                .enumerate()
                .map(|(i, (s, p, ob))| {
                    if chain == 0 && i + 1 < n_ind {
                        // a path 1 -> 2 -> 3 ... over predicate p0 (deep derivations), the rest random
                        (i as u8, PRED_BASE, i as u8 + 1)
                    } else {
                        (pick_idx(*s, n_ind) as u8, PRED_BASE + pick_idx(*p, n_pred) as u8, pick_idx(*ob, n_ind) as u8)
                    }
                })
                .collect();
            let rules: Vec<RuleSpec> = rules.iter().enumerate().map(|(i, r)| mk_rule(r, n_ind, n_pred, with_filter && (i == 0 || r.fnum < 3), acyclic)).collect();
            let goal_names = pick_names(mode, &nsel, &rules);
            // The goal is built from a fact of the (filter-free) least model - a derived one if there is
            // any, in 5 of 7 cases - generalised position by position; one goal in seven is unrelated to
            // the model. If the estimated search tree does not fit under the cut-off, facts and then rules
            // are taken away from the end until it does (cyclic data under a doubly recursive rule has a
            // doubly exponential depth-10 tree even with one fact).
            let all_facts = facts.clone();
            let mut last = None;
            for nrules in (1..=rules.len()).rev() {
                let rules = &rules[..nrules];
                for nfacts in [8usize, 6, 4, 3, 2, 1] {
                    if nfacts > all_facts.len() && nfacts != 8 {
                        continue;
                    }
                    facts = all_facts[..nfacts.min(all_facts.len())].to_vec();
                    let model = least_model(&facts, rules, false);
                    let mut by_height: Vec<(u32, Fact)> = model.iter().map(|(f, h)| (*h, *f)).collect();
                    by_height.sort();
                    let derived_from = by_height.iter().position(|(h, _)| *h >= 1).unwrap_or(0);
                    let base = if gmode == 0 || by_height.is_empty() {
                        (pick_idx(ga, n_ind) as u32, PRED_BASE as u32 + pick_idx(gb, n_pred) as u32, pick_idx(gs.2, n_ind) as u32)
                    } else {
                        let lo = if gmode == 6 { 0 } else { derived_from };
                        let n = by_height.len() - lo;
                        by_height[lo + pick_idx(ga, n).max(pick_idx(gb, n))].1
                    };
                    let so = |(kind, slot, _): (u8, u8, u16), v: u32| if kind < 3 { T::V(slot) } else { T::C(v as u8) };
                    let goal = (so(gs, base.0), if gp.0 == 0 { T::V(gp.1) } else { T::C(base.1 as u8) }, so(go, base.2));
                    let case = Case { facts: facts.clone(), rules: rules.to_vec(), goal, goal_names: goal_names.clone() };
                    if estimate_sld(&case).0 <= SLD_CUTOFF {
                        return case;
                    }
                    last = Some(case);
                }
            }
            last.unwrap()
        })
        .boxed()
}

struct Random;
impl Part for Random {
    type Case = Case;
    fn name(&self) -> &'static str {
        "random"
    }
    fn cases(&self, tier: Tier) -> u32 {
        tier.pick(6000, 80_000)
    }
    fn strategy(&self, _: Tier) -> BoxedStrategy<Case> {
        case_strategy(false, 8, false)
    }
    fn check(&self, case: &Case) -> Outcome {
        check_case(case)
    }
}

/// Stratified (recursion-free) programs: the search depth is bounded by the number of rules, so this
/// part terminates quickly even against a defective engine; it runs first.
struct Acyclic;
impl Part for Acyclic {
    type Case = Case;
    fn name(&self) -> &'static str {
        "acyclic"
    }
    fn cases(&self, tier: Tier) -> u32 {
        tier.pick(2000, 30_000)
    }
    fn strategy(&self, _: Tier) -> BoxedStrategy<Case> {
        prop_oneof![2 => case_strategy(false, 8, true), 1 => case_strategy(true, 8, true)].boxed()
    }
    fn check(&self, case: &Case) -> Outcome {
        check_case(case)
    }
}

struct Filters;
impl Part for Filters {
    type Case = Case;
    fn name(&self) -> &'static str {
        "filters"
    }
    fn cases(&self, tier: Tier) -> u32 {
        tier.pick(2000, 40_000)
    }
    fn strategy(&self, _: Tier) -> BoxedStrategy<Case> {
        case_strategy(true, 8, false)
    }
    fn check(&self, case: &Case) -> Outcome {
        check_case(case)
    }
}

/// Chains whose derivation heights reach and pass MAX_DEPTH with a linear SLD tree.
struct Deep;
impl Part for Deep {
    type Case = Case;
    fn name(&self) -> &'static str {
        "deep"
    }
    fn cases(&self, _: Tier) -> u32 {
        0
    }
    fn strategy(&self, _: Tier) -> BoxedStrategy<Case> {
        case_strategy(false, 8, false)
    }
    fn check(&self, case: &Case) -> Outcome {
        check_case(case)
    }
}

fn deep_cases() -> Vec<Case> {
    let p = |k: u8| T::C(PRED_BASE + k);
    let (x, y, z) = (T::V(0), T::V(1), T::V(2));
    let nm = |a: [&str; 3]| -> Vec<String> { a.iter().map(|s| s.to_string()).collect() };
    let rule = |prem: Vec<Pat>, concl: Pat, names: [&str; 3]| RuleSpec { names: nm(names), premise: prem, conclusion: vec![concl], filters: vec![] };
    let mut out = vec![];
    for len in 1..=8u8 {
        for template in 0..5u8 {
            for rn in [["X", "Y", "Z"], ["v1", "v0", "v2"]] {
                let rules = match template {
                    // p1 = transitive closure of p0, recursion on the right: heights = path length
                    0 => vec![rule(vec![(x, p(0), y)], (x, p(1), y), rn), rule(vec![(x, p(0), y), (y, p(1), z)], (x, p(1), z), rn)],
                    // same, recursion on the left
                    1 => vec![rule(vec![(x, p(0), y)], (x, p(1), y), rn), rule(vec![(x, p(1), y), (y, p(0), z)], (x, p(1), z), rn)],
                    // two rule applications per step: p1 path n has height 2n-1, p2 path n has height 2n-2
                    2 => vec![
                        rule(vec![(x, p(0), y)], (x, p(1), y), rn),
                        rule(vec![(x, p(0), y), (y, p(1), z)], (x, p(2), z), rn),
                        rule(vec![(x, p(2), y)], (x, p(1), y), rn),
                    ],
                    3 => vec![
                        rule(vec![(x, p(0), y)], (x, p(1), y), rn),
                        rule(vec![(x, p(1), y), (y, p(0), z)], (x, p(2), z), rn),
                        rule(vec![(x, p(2), y)], (x, p(1), y), rn),
                    ],
                    // three copies per step through inverses: p0 -> p1 -> p2 -> p0 (heights up to 5 on one fact)
                    _ => vec![rule(vec![(x, p(0), y)], (y, p(1), x), rn), rule(vec![(x, p(1), y)], (y, p(2), x), rn), rule(vec![(x, p(2), y)], (y, p(0), x), rn)],
                };
                let facts: Vec<(u8, u8, u8)> = (0..len).map(|i| (i, PRED_BASE, i + 1)).collect();
                let last = T::C(len);
                let first = T::C(0);
                let goals: Vec<Pat> = vec![
                    (first, p(1), x),
                    (x, p(1), last),
                    (y, p(1), x),
                    (first, p(2), x),
                    (x, p(2), last),
                    (first, p(1), last),
                    (first, p(2), last),
                    (first, x, last),
                    (x, p(1), x),
                ];
                for g in goals {
                    for gn in [["v1", "v0", "v2"], ["v0", "v1", "v2"], ["v5", "v3", "v4"], ["s", "x", "Y"]] {
                        out.push(Case { facts: facts.clone(), rules: rules.clone(), goal: g, goal_names: nm(gn) });
                    }
                }
            }
        }
    }
    out
}

fn main() {
    let mut s = Session::start(
        "C18",
        "exploration",
        "positive Datalog programs over triples (<=8 facts over <=5 individuals and <=3 predicates, 1-3 safe rules with 1-2 premises drawn from 19 shapes: copy, inverse, symmetric closure, \
         doubly recursive transitivity, left/right linear recursion, joins, constants, repeated variables, two conclusions, predicate variables, free-form) and one goal pattern with 0-3 variables \
         (repeats, constants, predicate variable) whose variable NAMES come from {v0..v6,v10} (3/7), {X,Y,s,x,v0,v1,v2,v10} (2/7) or the rules' own names (2/7). Each goal is asked under 2-3 consistent \
         renamings (X/Y/Z, generated names, generated names rotated); answers = resolve_term of the goal under every returned binding set, compared with an own least-fixpoint model that records \
         derivation heights. Part `acyclic` (run first): the same shapes with stratified predicates (no recursion), a third of them with filters. Part `filters`: the same as `random` with =/!= and numeric filters on rules (individuals have numeric dictionary strings). Part `deep`: enumerated chain programs whose heights reach \
         MAX_DEPTH-1, MAX_DEPTH and MAX_DEPTH+1 with linear search trees. Programs whose estimated depth-10 SLD tree exceeds 8 000 nodes+answers (about one second of engine time for the three renamings) are dropped and counted (skipped_comparisons). \
         Non-trivial = goal has >=1 variable and >=1 expected answer needs a rule; distinct = distinct (program, goal, names).",
    );
    s.assume("depth bound: `MAX_DEPTH = 10` with `depth > MAX_DEPTH => no answers`, top goal at depth 0, premises of a rule at depth+1: every fact whose minimal derivation height (nested rule applications = oracle round) is <= 10 is demanded; misses at height exactly 10 are reported under their own signature c18.completeness.depth_boundary; facts of height > 10 are never demanded (but must still be sound and renaming-invariant if returned)");
    s.assume("a rule filter is part of the rule body: the least model contains only derivations whose bindings satisfy the filter (this is also what infer_new_facts_semi_naive computes; the filter-soundness verdict is given only when that product path agrees with the oracle's model, otherwise the case is counted ambiguous)");
    s.assume("filters are restricted to the unambiguous fragment: `?a = ?b` / `?a != ?b` between premise variables and numeric comparison of a premise variable ranging over individuals whose dictionary strings are integers");
    s.assume("the SLD-size estimator (own memoised count of the depth-limited search) only decides which cases are run; it contributes no expected value");
    s.run(&Acyclic);
    s.run_enum(&Deep, deep_cases().into_iter(), true);
    s.run(&Random);
    s.run(&Filters);
    std::process::exit(s.finish());
}
