//! C12 — incremental cross-window reasoning equals recomputation from scratch.
//!
//! Part `histories`: a window-consistent stream history (2–3 sliding windows, optional static graph,
//! 1–2 output components, rules over annotated predicates) is replayed over an increasing sequence of
//! evaluation times.  At every evaluation time the `Sds` handed to the engine lists, per window, each
//! triple once with its latest arrival time as long as it is alive (plus some already expired
//! leftovers), the state returned by `incremental_sds_plus` is threaded into the next call, and the
//! result is compared with `naive_sds_plus` and with an independent widest-path oracle
//! (expiry(f) = max over derivations of min over premises, base expiry = t + alpha, static = MAX).

use datalog::cross_window_sds::{all_component_iris, sds_with_expiry_to_external, Sds, WindowData, WindowedTriple};
use datalog::reasoning::materialisation::cross_window_incremental::{incremental_sds_plus, SdsWithExpiry};
use datalog::reasoning::materialisation::cross_window_naive::naive_sds_plus;
use kvh::engine::*;
use proptest::prelude::*;
use serde::{Deserialize, Serialize};
use shared::dictionary::Dictionary;
use shared::rule::Rule;
use shared::terms::Term;
use shared::triple::Triple;
use std::collections::{BTreeMap, BTreeSet, HashMap};
use std::sync::{Arc, RwLock};

// ------------------------------------------------------------------------------------------
// case
// ------------------------------------------------------------------------------------------

/// rule term: variable number or constant term index
#[derive(Clone, Copy, Debug, Serialize, Deserialize, PartialEq, Eq)]
enum T {
    V(u8),
    C(u8),
}

#[derive(Clone, Debug, Serialize, Deserialize)]
struct Atom {
    /// component index: windows 0..nw, then the static graph (if any), then the output components
    comp: u8,
    pred: u8,
    s: T,
    o: T,
}

#[derive(Clone, Debug, Serialize, Deserialize)]
struct RuleSpec {
    premise: Vec<Atom>,
    conclusion: Vec<Atom>,
}

#[derive(Clone, Debug, Serialize, Deserialize)]
struct Arrival {
    w: u8,
    s: u8,
    p: u8,
    o: u8,
    /// time since the previous arrival (arrivals are in time order)
    dt: u64,
}

#[derive(Clone, Debug, Serialize, Deserialize)]
struct Case {
    /// 0: http://w0/ ...   1: long common prefix   2: urn style
    iri_style: u8,
    /// window widths (one per window)
    alphas: Vec<u64>,
    /// per window: an expired triple stays listed in the window content this long after its expiry
    linger: Vec<u64>,
    /// static graph content (None: the dataset has no static graph)
    statics: Option<Vec<(u8, u8, u8)>>,
    n_out: u8,
    rules: Vec<RuleSpec>,
    arrivals: Vec<Arrival>,
    /// first evaluation time, then strictly positive increments
    evals: Vec<u64>,
}

const TERMS: [&str; 4] = ["a", "b", "c", "d"];
const PREDS: [&str; 3] = ["p", "q", "r"];
const VARS: [&str; 4] = ["x", "y", "z", "u"];

impl Case {
    fn nw(&self) -> usize {
        self.alphas.len()
    }
    fn ncomp(&self) -> usize {
        self.nw() + self.statics.is_some() as usize + self.n_out as usize
    }
    fn static_idx(&self) -> Option<usize> {
        self.statics.as_ref().map(|_| self.nw())
    }
    fn iri(&self, comp: usize) -> String {
        let nw = self.nw();
        let (kind, k) = if comp < nw {
            (0, comp)
        } else if Some(comp) == self.static_idx() {
            (1, 0)
        } else {
            (2, comp - nw - self.statics.is_some() as usize)
        };
        match (self.iri_style, kind) {
            (0, 0) => format!("http://w{k}/"),
            (0, 1) => "http://st/".to_string(),
            (0, _) => format!("http://o{k}/"),
            (1, 0) => format!("http://example.org/sds/component/win{k}/"),
            (1, 1) => "http://example.org/sds/component/static/".to_string(),
            (1, _) => format!("http://example.org/sds/component/out{k}/"),
            (_, 0) => format!("urn:sds:w{k}:"),
            (_, 1) => "urn:sds:static:".to_string(),
            (_, _) => format!("urn:sds:o{k}:"),
        }
    }
    fn valid(&self) -> bool {
        let nw = self.nw();
        let ncomp = self.ncomp();
        let term_ok = |t: &T| match t {
            T::V(v) => (*v as usize) < VARS.len(),
            T::C(c) => (*c as usize) < TERMS.len(),
        };
        let atom_ok = |a: &Atom| (a.comp as usize) < ncomp && (a.pred as usize) < PREDS.len() && term_ok(&a.s) && term_ok(&a.o);
        (2..=3).contains(&nw)
            && self.linger.len() == nw
            && (1..=2).contains(&self.n_out)
            && self.alphas.iter().all(|a| *a >= 1 && *a < 1 << 20)
            && !self.evals.is_empty()
            && self.evals.iter().skip(1).all(|d| *d >= 1)
            && self.evals.iter().all(|d| *d < 1 << 20)
            && self.arrivals.iter().all(|a| (a.w as usize) < nw && (a.s as usize) < TERMS.len() && (a.o as usize) < TERMS.len() && (a.p as usize) < PREDS.len() && a.dt < 1 << 20)
            && self.statics.as_ref().map_or(true, |v| v.iter().all(|(s, p, o)| (*s as usize) < TERMS.len() && (*o as usize) < TERMS.len() && (*p as usize) < PREDS.len()))
            && self.rules.iter().all(|r| {
                !r.premise.is_empty()
                    && !r.conclusion.is_empty()
                    && r.premise.iter().all(atom_ok)
                    && r.conclusion.iter().all(atom_ok)
                    // range restricted: every conclusion variable is bound by the premise
                    && r.conclusion.iter().all(|c| {
                        [c.s, c.o].iter().all(|t| match t {
                            T::V(_) => r.premise.iter().any(|p| p.s == *t || p.o == *t),
                            T::C(_) => true,
                        })
                    })
            })
    }
}

// ------------------------------------------------------------------------------------------
// oracle (index level; rendered to strings for every comparison)
// ------------------------------------------------------------------------------------------

/// (component, local predicate, subject, object)
type F = (u8, u8, u8, u8);
const INF: u64 = u64::MAX;

struct Derivation {
    premises: Vec<F>,
    min_expiry: u64,
    conclusions: Vec<F>,
}

fn inst(t: &T, b: &[Option<u8>; 4]) -> Option<u8> {
    match t {
        T::C(c) => Some(*c),
        T::V(v) => b[*v as usize],
    }
}

fn enumerate(rules: &[RuleSpec], facts: &BTreeMap<F, u64>) -> Vec<Derivation> {
    let mut by_pred: BTreeMap<(u8, u8), Vec<(u8, u8, u64)>> = BTreeMap::new();
    for ((c, p, s, o), e) in facts {
        by_pred.entry((*c, *p)).or_default().push((*s, *o, *e));
    }
    fn rec(r: &RuleSpec, i: usize, b: &mut [Option<u8>; 4], prem: &mut Vec<F>, m: u64, by_pred: &BTreeMap<(u8, u8), Vec<(u8, u8, u64)>>, out: &mut Vec<Derivation>) {
        if i == r.premise.len() {
            let conclusions = r.conclusion.iter().map(|c| (c.comp, c.pred, inst(&c.s, b).expect("range restricted"), inst(&c.o, b).expect("range restricted"))).collect();
            out.push(Derivation { premises: prem.clone(), min_expiry: m, conclusions });
            return;
        }
        let a = &r.premise[i];
        if let Some(list) = by_pred.get(&(a.comp, a.pred)) {
            for (s, o, e) in list {
                let saved = *b;
                let mut ok = true;
                for (t, val) in [(&a.s, *s), (&a.o, *o)] {
                    match t {
                        T::C(c) => ok &= *c == val,
                        T::V(v) => match b[*v as usize] {
                            Some(x) => ok &= x == val,
                            None => b[*v as usize] = Some(val),
                        },
                    }
                }
                if ok {
                    prem.push((a.comp, a.pred, *s, *o));
                    rec(r, i + 1, b, prem, m.min(*e), by_pred, out);
                    prem.pop();
                }
                *b = saved;
            }
        }
    }
    let mut out = vec![];
    for r in rules.iter() {
        rec(r, 0, &mut [None; 4], &mut vec![], INF, &by_pred, &mut out);
    }
    out
}

/// Least model with, per fact, the latest time until which some derivation stays fully supported.
fn oracle(rules: &[RuleSpec], base: &BTreeMap<F, u64>) -> (BTreeMap<F, u64>, Vec<Derivation>) {
    let mut cur = base.clone();
    loop {
        let mut changed = false;
        for d in enumerate(rules, &cur) {
            for f in &d.conclusions {
                let e = cur.entry(*f).or_insert(0);
                if *e < d.min_expiry {
                    *e = d.min_expiry;
                    changed = true;
                }
            }
        }
        if !changed {
            break;
        }
    }
    let ds = enumerate(rules, &cur);
    (cur, ds)
}

// ------------------------------------------------------------------------------------------
// the check
// ------------------------------------------------------------------------------------------

type SFact = (String, String, String, String); // (component iri, subject, predicate, object)

fn dec(dict: &Arc<RwLock<Dictionary>>, id: u32) -> String {
    dict.read().unwrap().decode(id).map(|s| s.to_string()).unwrap_or_else(|| format!("<undecodable {id}>"))
}

fn external_set(m: &HashMap<String, Vec<Triple>>, dict: &Arc<RwLock<Dictionary>>) -> BTreeSet<SFact> {
    let mut out = BTreeSet::new();
    for (comp, v) in m {
        for t in v {
            out.insert((comp.clone(), dec(dict, t.subject), dec(dict, t.predicate), dec(dict, t.object)));
        }
    }
    out
}

fn diff<'a, T: Ord + std::fmt::Debug>(a: &'a BTreeSet<T>, b: &'a BTreeSet<T>) -> Vec<&'a T> {
    a.difference(b).take(6).collect()
}

fn run_case(c: &Case) -> Outcome {
    let mut out = Outcome::new();
    if !c.valid() {
        out.skipped.push("malformed-case");
        return out;
    }
    let nw = c.nw();
    let ncomp = c.ncomp();
    let iris: Vec<String> = (0..ncomp).map(|i| c.iri(i)).collect();
    let dict = Arc::new(RwLock::new(Dictionary::new()));

    // engine rules: constants are dictionary ids of the full (annotated) predicate IRI, as the N3 front end produces them
    let rules: Vec<Rule> = {
        let mut d = dict.write().unwrap();
        c.rules
            .iter()
            .map(|r| Rule {
                premise: r.premise.iter().map(|a| engine_atom(a, &iris, &mut d)).collect(),
                negative_premise: vec![],
                filters: vec![],
                conclusion: r.conclusion.iter().map(|a| engine_atom(a, &iris, &mut d)).collect(),
            })
            .collect()
    };

    // absolute times
    let mut t = 0u64;
    let arrivals: Vec<(u64, &Arrival)> = c
        .arrivals
        .iter()
        .map(|a| {
            t += a.dt;
            (t, a)
        })
        .collect();
    let mut now = 0u64;
    let evals: Vec<u64> = c
        .evals
        .iter()
        .map(|d| {
            now += d;
            now
        })
        .collect();

    let render = |f: &F| -> SFact { (iris[f.0 as usize].clone(), TERMS[f.2 as usize].to_string(), PREDS[f.1 as usize].to_string(), TERMS[f.3 as usize].to_string()) };
    let render_annotated = |f: &F| -> SFact { (iris[f.0 as usize].clone(), TERMS[f.2 as usize].to_string(), format!("{}{}", iris[f.0 as usize], PREDS[f.1 as usize]), TERMS[f.3 as usize].to_string()) };

    let mut state: SdsWithExpiry = HashMap::new();
    // per evaluation: (now, expiry map, weakest derivation per derived fact, latest arrival per base triple)
    let mut hist: Vec<(u64, BTreeMap<F, u64>, BTreeMap<F, u64>, BTreeMap<F, u64>)> = vec![];

    let (mut l_multi, mut l_outlives, mut l_renew_live, mut l_renew_prop, mut l_rearrive_dead) = (false, false, false, false, false);
    let (mut l_base_exp, mut l_derived_exp, mut l_chain, mut l_join_ww, mut l_join_sw, mut l_leftover, mut l_derived) = (false, false, false, false, false, false, false);
    let (mut l_inf_derived, mut l_boundary) = (false, false);

    for (ei, &now) in evals.iter().enumerate() {
        // ---- window contents at `now`: every triple once, with its latest arrival time
        let mut latest: BTreeMap<F, u64> = BTreeMap::new();
        for (t, a) in &arrivals {
            if *t <= now {
                latest.insert((a.w, a.p, a.s, a.o), *t);
            }
        }
        let mut sds = Sds::new();
        let mut base: BTreeMap<F, u64> = BTreeMap::new();
        for w in 0..nw {
            let alpha = c.alphas[w];
            let mut listed: Vec<(u64, F)> = vec![];
            for (f, t) in latest.iter().filter(|(f, _)| f.0 as usize == w) {
                let expiry = t + alpha;
                if expiry > now {
                    base.insert(*f, expiry);
                    listed.push((*t, *f));
                    l_boundary |= expiry == now + 1;
                } else if now < expiry + c.linger[w] {
                    listed.push((*t, *f));
                    l_leftover = true;
                }
            }
            listed.sort();
            sds.windows.insert(
                iris[w].clone(),
                WindowData {
                    alpha,
                    triples: listed
                        .iter()
                        .map(|(t, f)| WindowedTriple { subject: TERMS[f.2 as usize].to_string(), predicate: PREDS[f.1 as usize].to_string(), object: TERMS[f.3 as usize].to_string(), event_time: *t })
                        .collect(),
                },
            );
        }
        if let (Some(si), Some(st)) = (c.static_idx(), &c.statics) {
            let mut seen = BTreeSet::new();
            let mut v = vec![];
            for (s, p, o) in st {
                if seen.insert((*s, *p, *o)) {
                    base.insert((si as u8, *p, *s, *o), INF);
                    v.push((TERMS[*s as usize].to_string(), PREDS[*p as usize].to_string(), TERMS[*o as usize].to_string()));
                }
            }
            sds.static_graphs.insert(iris[si].clone(), v);
        }
        for k in 0..c.n_out as usize {
            sds.output_iris.insert(iris[ncomp - 1 - k].clone());
        }

        // ---- oracle
        let (exp, derivs) = oracle(&c.rules, &base);
        let mut weakest: BTreeMap<F, u64> = BTreeMap::new();
        for d in &derivs {
            for f in &d.conclusions {
                let w = weakest.entry(*f).or_insert(INF);
                *w = (*w).min(d.min_expiry);
            }
            let comps: BTreeSet<u8> = d.premises.iter().map(|p| p.0).collect();
            let wins = comps.iter().filter(|k| (**k as usize) < nw).count();
            l_join_ww |= wins >= 2;
            l_join_sw |= wins >= 1 && c.static_idx().map_or(false, |s| comps.contains(&(s as u8)));
            l_chain |= d.premises.iter().any(|p| !base.contains_key(p));
        }
        for (f, w) in &weakest {
            l_derived = true;
            l_multi |= *w < exp[f];
            l_inf_derived |= exp[f] == INF;
        }
        if let Some((_, pexp, pweak, platest)) = hist.last() {
            for (f, e) in pexp {
                if !exp.contains_key(f) {
                    if pweak.contains_key(f) {
                        l_derived_exp = true;
                    } else {
                        l_base_exp = true;
                    }
                }
                if let Some(e2) = exp.get(f) {
                    // continuously alive and improved
                    if *e > now && e2 > e && weakest.contains_key(f) {
                        l_renew_prop = true;
                    }
                }
            }
            for (f, t) in &latest {
                if let Some(pt) = platest.get(f) {
                    if pt != t && base.contains_key(f) {
                        if pt + c.alphas[f.0 as usize] > now {
                            l_renew_live = true;
                        } else {
                            l_rearrive_dead = true;
                        }
                    }
                }
            }
        }
        for (pnow, pexp, pweak, _) in &hist {
            debug_assert!(*pnow < now);
            for (f, w) in pweak {
                // the weakest derivation seen earlier is dead by now, yet the expiry computed then says the fact is still alive
                if *w <= now && pexp[f] > now && *w > *pnow {
                    l_outlives = true;
                }
            }
        }

        let want_ext: BTreeSet<SFact> = exp.keys().map(&render).collect();
        let want_state: BTreeMap<SFact, u64> = exp.iter().map(|(f, e)| (render_annotated(f), *e)).collect();

        // ---- from-scratch engine path
        let naive = match catch(|| naive_sds_plus(&rules, &sds, &dict, now)) {
            Ok(v) => v,
            Err(site) => {
                out.panic(&format!("naive_sds_plus at evaluation {ei} (t={now})"), &site);
                return out;
            }
        };
        let naive_set = external_set(&naive, &dict);
        out.inner_evals += 1;
        if naive_set != want_ext {
            let missing = diff(&want_ext, &naive_set);
            let extra = diff(&naive_set, &want_ext);
            let sig = if !missing.is_empty() { "c12.naive_vs_oracle.missing" } else { "c12.naive_vs_oracle.extra" };
            out.fail(sig, format!("evaluation {ei} (t={now}): naive_sds_plus differs from the least model over the alive facts; missing {:?}; not derivable {:?}", missing, extra));
            return out;
        }

        // ---- incremental engine path, state threaded
        let incr = match catch(|| incremental_sds_plus(&rules, &sds, &state, &dict, now)) {
            Ok(v) => v,
            Err(site) => {
                out.panic(&format!("incremental_sds_plus at evaluation {ei} (t={now})"), &site);
                return out;
            }
        };
        let mut got_state: BTreeMap<SFact, u64> = BTreeMap::new();
        for (bucket, m) in &incr {
            for (t, e) in m {
                let key = (bucket.clone(), dec(&dict, t.subject), dec(&dict, t.predicate), dec(&dict, t.object));
                if got_state.insert(key.clone(), *e).is_some() {
                    out.fail("c12.state.duplicate_key", format!("evaluation {ei} (t={now}): {:?} stored twice", key));
                }
            }
        }
        out.inner_evals += 1;
        let mut bad = false;
        for (k, e) in &got_state {
            match want_state.get(k) {
                None if *e <= now => {
                    out.fail("c12.state.expired_survives", format!("evaluation {ei} (t={now}): state keeps {:?} with expiry {e} <= now", k));
                    bad = true;
                }
                None => {
                    out.fail("c12.state.extra_fact", format!("evaluation {ei} (t={now}): state holds {:?} (expiry {e}) which from-scratch reasoning over the alive facts does not yield", k));
                    bad = true;
                }
                Some(w) if w != e => {
                    if *e <= now {
                        out.fail("c12.state.expired_survives", format!("evaluation {ei} (t={now}): state keeps {:?} with expiry {e} <= now (expected expiry {w})", k));
                    } else if e < w {
                        out.fail("c12.state.expiry_low", format!("evaluation {ei} (t={now}): {:?} has expiry {e}, but some derivation stays fully supported until {w}", k));
                    } else {
                        out.fail("c12.state.expiry_high", format!("evaluation {ei} (t={now}): {:?} has expiry {e}, but no derivation stays fully supported beyond {w}", k));
                    }
                    bad = true;
                }
                Some(_) => {}
            }
        }
        for (k, w) in &want_state {
            if !got_state.contains_key(k) {
                out.fail("c12.state.missing_fact", format!("evaluation {ei} (t={now}): state lacks {:?} (expected expiry {w})", k));
                bad = true;
            }
        }
        let comp_iris = all_component_iris(&sds);
        let ext = match catch(|| sds_with_expiry_to_external(&incr, &dict, &comp_iris)) {
            Ok(v) => v,
            Err(site) => {
                out.panic(&format!("sds_with_expiry_to_external at evaluation {ei} (t={now})"), &site);
                return out;
            }
        };
        let ext_set = external_set(&ext, &dict);
        if ext_set != want_ext {
            out.fail(
                "c12.external.incr_vs_oracle",
                format!("evaluation {ei} (t={now}): external view of the incremental state: missing {:?}; not derivable {:?}", diff(&want_ext, &ext_set), diff(&ext_set, &want_ext)),
            );
            bad = true;
        }
        if ext_set != naive_set {
            out.fail(
                "c12.external.incr_vs_naive",
                format!("evaluation {ei} (t={now}): incremental lacks {:?}; incremental adds {:?}", diff(&naive_set, &ext_set), diff(&ext_set, &naive_set)),
            );
            bad = true;
        }
        if bad {
            return out;
        }
        state = incr;
        hist.push((now, exp, weakest, latest));
    }

    out.class_if(evals.len() >= 3, "evals>=3");
    out.class_if(l_derived, "derived-fact");
    out.class_if(l_multi, "several-derivations-different-expiry");
    out.class_if(l_outlives, "outlives-a-support");
    out.class_if(l_renew_live, "renewal-while-alive");
    out.class_if(l_renew_prop, "renewal-raises-derived-expiry");
    out.class_if(l_rearrive_dead, "rearrival-after-expiry");
    out.class_if(l_base_exp, "base-fact-expires-between-evals");
    out.class_if(l_derived_exp, "derived-fact-expires-between-evals");
    out.class_if(l_chain, "chain-through-derived-fact");
    out.class_if(l_join_ww, "join-of-two-windows");
    out.class_if(l_join_sw, "static-x-window-join");
    out.class_if(l_leftover, "expired-leftover-listed");
    out.class_if(l_inf_derived, "derived-from-static-only");
    out.class_if(l_boundary, "alive-by-one-tick");
    out.class_if(c.rules.iter().any(|r| r.conclusion.iter().any(|a| (a.comp as usize) < ncomp - c.n_out as usize)), "conclusion-into-window-or-static");
    out.class_if(c.rules.iter().any(|r| r.premise.len() >= 3), "three-premises");
    out.nontrivial = evals.len() >= 3 && l_outlives && (l_renew_live || l_renew_prop) && l_derived_exp;
    out.class_if(out.nontrivial, "nontrivial-conjunction");
    out
}

fn engine_term(t: &T, d: &mut Dictionary) -> Term {
    match t {
        T::V(v) => Term::Variable(VARS[*v as usize].to_string()),
        T::C(k) => Term::Constant(d.encode(TERMS[*k as usize])),
    }
}

fn engine_atom(a: &Atom, iris: &[String], d: &mut Dictionary) -> (Term, Term, Term) {
    let p = Term::Constant(d.encode(&format!("{}{}", iris[a.comp as usize], PREDS[a.pred as usize])));
    (engine_term(&a.s, d), p, engine_term(&a.o, d))
}

// ------------------------------------------------------------------------------------------
// generator
// ------------------------------------------------------------------------------------------

/// One rule plus, per premise position, a selector that may later re-point the premise at the conclusion predicate of
/// some rule of the set (chains window -> output -> output, recursion).
fn rule_strategy(nw: usize, ncomp: usize, out_lo: usize, npred: usize, nterms: usize, any_target: bool) -> impl Strategy<Value = (RuleSpec, [u16; 4])> {
    (0u8..12, 0u8..6, proptest::array::uniform16(sel()), proptest::array::uniform4(sel())).prop_map(move |(shape, join, r, link)| {
        // 55% of the premises read a window, 15% the static graph (if present), the rest any component
        let comp = |x: u16| match x % 20 {
            0..=10 => pick_idx(x, nw) as u8,
            11..=13 if out_lo > nw => nw as u8,
            _ => pick_idx(x, ncomp) as u8,
        };
        let pred = |x: u16| pick_idx(x, npred) as u8;
        let konst = |x: u16| T::C(pick_idx(x, nterms) as u8);
        let mut premise = vec![];
        let mut nvars: u8;
        match shape {
            2 => {
                premise.push(Atom { comp: comp(r[0]), pred: pred(r[1]), s: T::V(0), o: konst(r[2]) });
                nvars = 1;
            }
            3 => {
                premise.push(Atom { comp: comp(r[0]), pred: pred(r[1]), s: konst(r[2]), o: T::V(0) });
                nvars = 1;
            }
            _ => {
                premise.push(Atom { comp: comp(r[0]), pred: pred(r[1]), s: T::V(0), o: T::V(1) });
                nvars = 2;
            }
        }
        if shape >= 4 {
            let (s, o) = match (shape, join) {
                (10, _) => (T::V(1), konst(r[5])),
                (_, 0) => (T::V(1), T::V(2)),
                (_, 1) => (T::V(0), T::V(2)),
                (_, 2) => (T::V(2), T::V(1)),
                (_, 3) => (T::V(2), T::V(0)),
                (_, 4) => (T::V(0), T::V(1)),
                _ => (T::V(1), T::V(0)),
            };
            if s == T::V(2) || o == T::V(2) {
                nvars = 3;
            }
            premise.push(Atom { comp: comp(r[3]), pred: pred(r[4]), s, o });
        }
        if shape == 11 {
            let last = T::V(nvars - 1);
            let fresh = T::V(nvars);
            nvars += 1;
            let (s, o) = if r[8] & 1 == 0 { (last, fresh) } else { (fresh, last) };
            premise.push(Atom { comp: comp(r[6]), pred: pred(r[7]), s, o });
        }
        let target = |x: u16| if any_target { pick_idx(x, ncomp) as u8 } else { (out_lo + pick_idx(x, ncomp - out_lo)) as u8 };
        let var = |x: u16| T::V(pick_idx(x, nvars as usize) as u8);
        let mut conclusion = vec![Atom { comp: target(r[9]), pred: pred(r[10]), s: var(r[11]), o: if r[12] < 8000 { konst(r[12]) } else { var(r[12]) } }];
        if r[13] < 6000 {
            conclusion.push(Atom { comp: target(r[14]), pred: pred(r[15]), s: var(r[13].wrapping_mul(7)), o: var(r[15]) });
        }
        (RuleSpec { premise, conclusion }, link)
    })
}

struct Histories;
impl Part for Histories {
    type Case = Case;
    fn name(&self) -> &'static str {
        "histories"
    }
    fn cases(&self, tier: Tier) -> u32 {
        tier.pick(60_000, 1_500_000)
    }
    fn replay_repeats(&self) -> u32 {
        4
    }
    fn strategy(&self, tier: Tier) -> BoxedStrategy<Case> {
        let max_arr = tier.pick(30usize, 45usize);
        (2usize..=3, any::<bool>(), 1usize..=2, 1usize..=2, 2usize..=3, 0u8..6, 0u8..3)
            .prop_flat_map(move |(nw, has_static, n_out, npred, nterms, anyw, iri_style)| {
                let out_lo = nw + has_static as usize;
                let ncomp = out_lo + n_out;
                let statics = proptest::collection::vec((sel(), sel(), sel()), 1..=4);
                let rules = proptest::collection::vec(rule_strategy(nw, ncomp, out_lo, npred, nterms, anyw == 0), 1..=5);
                let arrival = (sel(), sel(), sel(), sel(), prop_oneof![3 => Just(0u64), 3 => Just(1u64), 1 => Just(2u64), 1 => 3u64..=6], prop_oneof![2 => Just(None), 1 => sel().prop_map(Some)]);
                let arrivals = proptest::collection::vec(arrival, 8..=max_arr);
                let evals = (0u64..=6, proptest::collection::vec(1u64..=5, 1..=9));
                (Just((nw, has_static, n_out, npred, nterms, iri_style)), proptest::collection::vec(2u64..=12, nw), proptest::collection::vec(0u64..=4, nw), statics, rules, arrivals, evals)
            })
            .prop_map(|((nw, has_static, n_out, npred, nterms, iri_style), alphas, linger, statics, rules, raw, (e0, ed))| {
                let mut arrivals: Vec<Arrival> = vec![];
                for (w, s, p, o, dt, rep) in raw {
                    let mut a = Arrival { w: pick_idx(w, nw) as u8, s: pick_idx(s, nterms) as u8, p: pick_idx(p, npred) as u8, o: pick_idx(o, nterms) as u8, dt };
                    if let (Some(r), false) = (rep, arrivals.is_empty()) {
                        // re-arrival of an earlier triple (support renewal or resurrection)
                        let prev = &arrivals[pick_idx(r, arrivals.len())];
                        a = Arrival { w: prev.w, s: prev.s, p: prev.p, o: prev.o, dt };
                    }
                    arrivals.push(a);
                }
                let statics = if has_static { Some(statics.into_iter().map(|(s, p, o)| (pick_idx(s, nterms) as u8, pick_idx(p, npred) as u8, pick_idx(o, nterms) as u8)).collect()) } else { None };
                // a third of the premises are re-pointed at the conclusion predicate of a rule of the set
                let heads: Vec<(u8, u8)> = rules.iter().map(|(r, _)| (r.conclusion[0].comp, r.conclusion[0].pred)).collect();
                let all_heads: Vec<Vec<Atom>> = rules.iter().map(|(r, _)| r.conclusion.clone()).collect();
                let rules: Vec<RuleSpec> = rules
                    .into_iter()
                    .enumerate()
                    .map(|(ri, (mut r, link))| {
                        if ri == 0 {
                            // the first rule always reads windows directly
                            for (k, a) in r.premise.iter_mut().enumerate() {
                                a.comp = pick_idx(link[k], nw) as u8;
                            }
                            return r;
                        }
                        // a third of the rules take over the complete head of a rule of the set: same fact, different supports
                        if link[3] % 3 == 0 {
                            let h = &all_heads[pick_idx(link[3], all_heads.len())];
                            let bound = |t: &T| matches!(t, T::C(_)) || r.premise.iter().any(|p| p.s == *t || p.o == *t);
                            if h.iter().all(|a| bound(&a.s) && bound(&a.o)) {
                                r.conclusion = h.clone();
                            }
                        }
                        for (k, a) in r.premise.iter_mut().enumerate() {
                            if link[k] % 3 == 0 {
                                let (hc, hp) = heads[pick_idx(link[k], heads.len())];
                                a.comp = hc;
                                a.pred = hp;
                            }
                        }
                        r
                    })
                    .collect();
                let mut evals = vec![e0];
                evals.extend(ed);
                Case { iri_style, alphas, linger, statics, n_out: n_out as u8, rules, arrivals, evals }
            })
            .boxed()
    }
    fn check(&self, case: &Case) -> Outcome {
        run_case(case)
    }
}

fn main() {
    let mut s = Session::start(
        "C12",
        "exploration",
        "Part `histories`: generated window-consistent stream histories: 2-3 sliding windows (alpha 2..=12), optional static graph (1-4 triples, constant over the history), 1-2 output components, \
         1-5 range-restricted positive rules over annotated predicates (copy, constant-restricted, two-premise joins in six variable patterns, three-premise chains, 1-2 conclusions; premises over any component incl. outputs = chains and recursion; \
         conclusions in output components, in 1/6 of the cases in any component; a third of the premises are re-pointed at a head predicate of the rule set and a third of the rules take over the complete head of another rule = several derivations of one fact), \
         universe of 2-3 terms x 1-2 local predicate names per component, 8-30 (thorough 45) arrivals in time order (gaps 0-6) with one third forced re-arrivals of an earlier triple, 2-10 strictly increasing evaluation times (first 0-6, steps 1-5). \
         At each evaluation time every window lists each triple once with its latest arrival time while t+alpha > now, plus expired leftovers for `linger` ticks; the state returned by incremental_sds_plus is fed to the next call (one shared dictionary per history). \
         Checked at every evaluation time against an independent widest-path oracle (expiry = max over derivations of min over premises; base t+alpha; static u64::MAX): naive_sds_plus == oracle fact set per component; every (component, fact, expiry) of the incremental state == oracle map (both directions); \
         nothing with expiry <= now stored; sds_with_expiry_to_external(incremental) == oracle == naive. inner = engine evaluations (naive + incremental per evaluation time). \
         Non-trivial = >=3 evaluation times AND a derived fact that outlives the weakest of its derivations (that derivation dead at a later evaluation time while the expiry computed earlier keeps the fact) AND a renewal (re-arrival of a still alive triple, or a derived expiry raised while continuously alive) AND a derived fact that expires between two evaluations; distinct = distinct history.",
    );
    s.assume("alive convention of the input filter is the documented one (tests translate_filters_expired / translate_includes_alive): a window triple is alive at `now` iff event_time + alpha > now; static triples never expire (expiry u64::MAX)");
    s.assume("histories stay inside the property's window-consistent class: each window lists a triple once with its latest arrival time (arrival times <= now), alive triples are always listed, the static graph and the rule set are constant over a history");
    s.assume("component IRIs are pairwise prefix-free and local predicate names contain no IRI separator, so the annotated predicate determines its component uniquely; rules are positive, range-restricted, constant predicates, no filters (join-engine corner cases belong to C05)");
    s.assume("the engine's Dictionary is a bijection between the strings used and ids (decode(encode(s)) == s); comparisons are made on decoded strings");
    s.run(&Histories);
    std::process::exit(s.finish());
}
