//! C02 — query answers do not depend on the plan the optimizer happens to choose.
//! Metamorphic + differential: the same query is pushed through the public planning pipeline under
//! permuted pattern order, fresh/empty/stale/adversarial statistics, every join-algorithm assignment
//! of the chosen plan, flipped scan strategies and several thread-pool sizes; every variant must give
//! the baseline's solution multiset, which must equal the reference evaluator's.

use kolibrie::execute_query::execute_sparql_query;
use kolibrie::parser::parse_combined_query;
use kolibrie::sparql_database::SparqlDatabase;
use kolibrie::streamertail_optimizer::{build_logical_plan_from_group, compile_graph_term, DatabaseStats, DatasetView, ExecutionEngine, PhysicalOperator, Streamertail};
use kvh::engine::*;
use kvh::sparql::*;
use proptest::prelude::*;
use serde::{Deserialize, Serialize};
use serde_json::json;
use shared::dataset_index::{GraphId, GraphTerm};
use shared::query::SparqlOperation;
use std::collections::BTreeMap;
use std::sync::{Arc, OnceLock};

#[derive(Clone, Debug, Serialize, Deserialize)]
struct Case {
    data: DataSet,
    /// source of stale statistics / mutation batch for the end-to-end cache scenario
    data2: DataSet,
    query: Select,
    use_prefix: bool,
    perm_seeds: Vec<u64>,
    adv: Vec<u32>,
    assign_seeds: Vec<u64>,
}

type Row = Vec<(String, String)>;

fn pools() -> &'static Vec<(usize, rayon::ThreadPool)> {
    static P: OnceLock<Vec<(usize, rayon::ThreadPool)>> = OnceLock::new();
    P.get_or_init(|| (1usize..=16).collect::<Vec<_>>().iter().map(|n| (*n, rayon::ThreadPoolBuilder::new().num_threads(*n).build().expect("pool"))).collect())
}

#[derive(Clone)]
enum StatsKind {
    Fresh,
    Empty,
    Given(Arc<DatabaseStats>),
}

struct Run {
    rows: Vec<Row>,
    plan: String,
    joins: usize,
}

/// Deterministic Fisher-Yates driven by a splitmix stream (seed comes from the proptest case).
fn shuffle<T>(v: &mut [T], seed: u64) {
    let mut s = seed;
    for i in (1..v.len()).rev() {
        s = mix(s, i as u64);
        let j = (s % (i as u64 + 1)) as usize;
        v.swap(i, j);
    }
}

fn permute_bgps(elems: &[Elem], seed: u64) -> Vec<Elem> {
    elems
        .iter()
        .enumerate()
        .map(|(i, e)| match e {
            Elem::Bgp(ts) => {
                let mut t = ts.clone();
                shuffle(&mut t, mix(seed, i as u64));
                Elem::Bgp(t)
            }
            Elem::Group(g) => Elem::Group(permute_bgps(g, mix(seed, 100 + i as u64))),
            Elem::Union(bs) => Elem::Union(bs.iter().enumerate().map(|(j, b)| permute_bgps(b, mix(seed, 200 + (i * 7 + j) as u64))).collect()),
            Elem::Graph(n, g) => Elem::Graph(n.clone(), permute_bgps(g, mix(seed, 300 + i as u64))),
            Elem::Sub(q) => {
                let mut q2 = (**q).clone();
                q2.body = permute_bgps(&q.body, mix(seed, 400 + i as u64));
                Elem::Sub(Box::new(q2))
            }
            other => other.clone(),
        })
        .collect()
}

fn count_joins(p: &PhysicalOperator) -> usize {
    match p {
        PhysicalOperator::BindJoin { left, right } | PhysicalOperator::HashJoin { left, right } | PhysicalOperator::NestedLoopJoin { left, right } => 1 + count_joins(left) + count_joins(right),
        PhysicalOperator::Union { branches } => branches.iter().map(count_joins).sum(),
        PhysicalOperator::Graph { input, .. }
        | PhysicalOperator::Filter { input, .. }
        | PhysicalOperator::Projection { input, .. }
        | PhysicalOperator::Bind { input, .. }
        | PhysicalOperator::MLPredict { input, .. } => count_joins(input),
        PhysicalOperator::Subquery { inner, .. } => count_joins(inner),
        _ => 0,
    }
}

/// Rewrite the tree: the k-th join node (pre-order) gets algorithm `assign[k] % 3`
/// (0 bind, 1 hash, 2 nested-loop); scans flip Table<->Index when `flip_scans`.
fn rewrite(p: &PhysicalOperator, assign: &[u8], k: &mut usize, flip_scans: bool) -> PhysicalOperator {
    let mut rec = |x: &PhysicalOperator, k: &mut usize| Box::new(rewrite(x, assign, k, flip_scans));
    match p {
        PhysicalOperator::BindJoin { left, right } | PhysicalOperator::HashJoin { left, right } | PhysicalOperator::NestedLoopJoin { left, right } => {
            let a = assign.get(*k).copied().unwrap_or(0) % 3;
            *k += 1;
            let l = rec(left, k);
            let r = rec(right, k);
            match a {
                0 => PhysicalOperator::BindJoin { left: l, right: r },
                1 => PhysicalOperator::HashJoin { left: l, right: r },
                _ => PhysicalOperator::NestedLoopJoin { left: l, right: r },
            }
        }
        PhysicalOperator::TableScan { pattern } if flip_scans => PhysicalOperator::IndexScan { pattern: pattern.clone() },
        PhysicalOperator::IndexScan { pattern } if flip_scans => PhysicalOperator::TableScan { pattern: pattern.clone() },
        PhysicalOperator::Union { branches } => PhysicalOperator::Union { branches: branches.iter().map(|b| rewrite(b, assign, k, flip_scans)).collect() },
        PhysicalOperator::Graph { input, graph } => PhysicalOperator::Graph { input: rec(input, k), graph: graph.clone() },
        PhysicalOperator::Filter { input, condition } => PhysicalOperator::Filter { input: rec(input, k), condition: condition.clone() },
        PhysicalOperator::Projection { input, variables } => PhysicalOperator::Projection { input: rec(input, k), variables: variables.clone() },
        PhysicalOperator::Subquery { inner, spec } => PhysicalOperator::Subquery { inner: rec(inner, k), spec: spec.clone() },
        PhysicalOperator::Bind { input, function_name, arguments, output_variable } => {
            PhysicalOperator::Bind { input: rec(input, k), function_name: function_name.clone(), arguments: arguments.clone(), output_variable: output_variable.clone() }
        }
        other => other.clone(),
    }
}

fn adversarial_stats(db: &SparqlDatabase, adv: &[u32]) -> DatabaseStats {
    let mut st = DatabaseStats::new();
    let mut it = adv.iter().cycle();
    let mut nx = || (*it.next().unwrap() as u64) % 1_000_001;
    st.total_triples = nx();
    st.quoted_triple_count = nx();
    st.named_graph_count = nx() % 8;
    st.distinct_subjects = nx();
    st.distinct_objects = nx();
    // ids present in the dictionary, some of them missing, some never issued
    let n = db.dictionary.read().unwrap().string_to_id.len() as u32;
    for id in 0..n + 3 {
        if nx() % 3 != 0 {
            st.predicate_cardinalities.insert(id, nx());
        }
        if nx() % 3 != 0 {
            st.subject_cardinalities.insert(id, nx());
        }
        if nx() % 3 != 0 {
            st.object_cardinalities.insert(id, nx());
        }
        if nx() % 3 != 0 {
            st.predicate_distinct_subjects.insert(id, nx());
        }
        if nx() % 3 != 0 {
            st.predicate_distinct_objects.insert(id, nx());
        }
        if nx() % 4 == 0 {
            // graph catalog that disagrees with the data
            st.graph_cardinalities.insert(GraphId::Named(id), nx());
        }
    }
    if nx() % 2 == 0 {
        st.graph_cardinalities.insert(GraphId::Default, nx());
    }
    st
}

/// The pipeline execute_select uses, driven by hand so that the plan can be inspected and rewritten.
fn pipeline(db: &mut SparqlDatabase, text: &str, stats: StatsKind, assign: Option<(&[u8], bool)>, threads: usize) -> Result<Run, String> {
    let (rest, combined) = parse_combined_query(text).map_err(|e| format!("parse: {e:?}"))?;
    if !rest.trim().is_empty() {
        return Err(format!("trailing input: {rest}"));
    }
    let Some(SparqlOperation::Select(query)) = combined.sparql.as_ref() else {
        return Err("not a SELECT".into());
    };
    let mut prefixes = db.prefixes.clone();
    prefixes.extend(combined.prefixes.clone());
    db.prefixes.extend(combined.prefixes.clone());
    let dataset = if query.from.is_empty() && query.from_named.is_empty() {
        DatasetView::from_database(db)
    } else {
        let mut d = vec![];
        for g in &query.from {
            match compile_graph_term(g, &prefixes, db)? {
                GraphTerm::Named(id) => d.push(GraphId::Named(id)),
                _ => return Err("bad FROM".into()),
            }
        }
        let mut n = vec![];
        for g in &query.from_named {
            match compile_graph_term(g, &prefixes, db)? {
                GraphTerm::Named(id) => n.push(GraphId::Named(id)),
                _ => return Err("bad FROM NAMED".into()),
            }
        }
        DatasetView::new(d, n)
    };
    let logical = build_logical_plan_from_group(&query.pattern, &prefixes, db)?;
    let stats = match stats {
        StatsKind::Fresh => Arc::new(DatabaseStats::gather_stats_fast(db)),
        StatsKind::Empty => Arc::new(DatabaseStats::new()),
        StatsKind::Given(s) => s,
    };
    let mut opt = Streamertail::with_cached_stats_and_dataset(stats, dataset.clone());
    let chosen = opt.find_best_plan(&logical);
    let joins = count_joins(&chosen);
    let plan = match assign {
        Some((a, flip)) => {
            let mut k = 0;
            rewrite(&chosen, a, &mut k, flip)
        }
        None => chosen,
    };
    let pool = &pools().iter().find(|(n, _)| *n == threads).expect("pool size").1;
    let bindings = pool.install(|| ExecutionEngine::execute_with_ids_and_dataset(&plan, db, &dataset));
    let mut rows: Vec<Row> = bindings
        .into_iter()
        .map(|b| {
            let mut r: Row = b.into_iter().map(|(k, v)| (k.trim_start_matches(['?', '$']).to_string(), db.decode_any(v).unwrap_or_default())).collect();
            r.sort();
            r
        })
        .collect();
    rows.sort();
    Ok(Run { rows, plan: format!("{:?}", plan), joins })
}

fn oracle_rows(data: &LexData, q: &Select) -> Option<Vec<Row>> {
    let ctx = EvalCtx::new(data, &q.from, &q.from_named);
    let sols = eval_group(&q.body, &ctx, &Active::Default);
    if ctx.out_of_fragment.get() > 0 || ctx.ambiguous.get() > 0 {
        return None;
    }
    let mut rows: Vec<Row> = sols.into_iter().map(|s| s.into_iter().collect::<Row>()).collect();
    for r in rows.iter_mut() {
        for c in r.iter_mut() {
            c.1 = canon_num(&c.1);
        }
        r.sort();
    }
    rows.sort();
    Some(rows)
}

fn canon(rows: &[Row]) -> Vec<Row> {
    let mut v: Vec<Row> = rows.iter().map(|r| r.iter().map(|(k, x)| (k.clone(), canon_num(x))).collect()).collect();
    v.sort();
    v
}

fn diff(a: &[Row], b: &[Row]) -> String {
    let mut cnt: BTreeMap<&Row, i64> = BTreeMap::new();
    for r in a {
        *cnt.entry(r).or_default() += 1;
    }
    for r in b {
        *cnt.entry(r).or_default() -= 1;
    }
    let only_a: Vec<_> = cnt.iter().filter(|(_, c)| **c > 0).take(4).collect();
    let only_b: Vec<_> = cnt.iter().filter(|(_, c)| **c < 0).take(4).collect();
    format!("{} vs {} rows; only/more in first: {:?}; only/more in second: {:?}", a.len(), b.len(), only_a, only_b)
}

fn check_case(c: &Case) -> Outcome {
    let mut o = Outcome::new();
    let pr = Printer { use_prefix: c.use_prefix };
    let text = pr.query(&c.query);
    let lex = c.data.lexical();
    let Some(expected) = oracle_rows(&lex, &c.query) else {
        o.ambiguous += 1;
        return o;
    };
    let fsig = features(&c.query).join(",");
    for f in features(&c.query) {
        o.class(f);
    }
    let mk_db = |d: &DataSet| -> SparqlDatabase {
        let mut db = SparqlDatabase::new();
        load_into(&mut db, d);
        db
    };
    // ---- baseline ----
    let base = match catch(|| pipeline(&mut mk_db(&c.data), &text, StatsKind::Fresh, None, 1)) {
        Err(site) => {
            o.panic(&format!("baseline pipeline: {text}"), &site);
            return o;
        }
        Ok(Err(e)) => {
            o.fail(format!("c02.baseline.err[{fsig}]"), format!("{e}\nquery: {text}"));
            return o;
        }
        Ok(Ok(r)) => r,
    };
    o.inner_evals += 1;
    let base_rows = canon(&base.rows);
    if base_rows != expected {
        o.fail(format!("c02.baseline_vs_reference[{fsig}]"), format!("{}\nquery: {text}\nplan: {}\ndata: {:?}", diff(&base_rows, &expected), base.plan, lex));
        return o;
    }
    let mut plans: std::collections::BTreeSet<String> = Default::default();
    plans.insert(base.plan.clone());
    o.class_if(base.plan.contains("StarJoin"), "plan:star-join");
    o.class_if(base.plan.contains("HashJoin"), "plan:chosen-hash-join");
    o.class_if(base.plan.contains("NestedLoopJoin"), "plan:chosen-nested-loop");
    o.class_if(c.data.default.len() > 64, "data:wide");

    let mut variant = |o: &mut Outcome, name: &str, qtext: &str, stats: StatsKind, assign: Option<(&[u8], bool)>, threads: usize, plans: &mut std::collections::BTreeSet<String>| -> bool {
        let r = catch(|| pipeline(&mut mk_db(&c.data), qtext, stats, assign, threads));
        o.inner_evals += 1;
        match r {
            Err(site) => {
                o.panic(&format!("variant {name}: {qtext}"), &site);
                false
            }
            Ok(Err(e)) => {
                o.fail(format!("c02.{}.err", name.split(':').next().unwrap()), format!("variant {name} failed: {e}\nquery: {qtext}"));
                false
            }
            Ok(Ok(run)) => {
                plans.insert(run.plan.clone());
                let rows = canon(&run.rows);
                if rows != base_rows {
                    o.fail(
                        format!("c02.{}[{fsig}]", name.split(':').next().unwrap()),
                        format!("variant {name} changed the answer: {}\nquery: {qtext}\nvariant plan: {}\nbaseline plan: {}\ndata: {:?}", diff(&rows, &base_rows), run.plan, base.plan, lex),
                    );
                    false
                } else {
                    true
                }
            }
        }
    };

    // ---- 1. pattern order ----
    for (i, s) in c.perm_seeds.iter().enumerate() {
        let mut q2 = c.query.clone();
        q2.body = permute_bgps(&c.query.body, *s);
        // SELECT * column order changes with the text; rows are compared as variable->value maps, so that is fine
        let t2 = pr.query(&q2);
        if t2 == text {
            continue;
        }
        if !variant(&mut o, &format!("pattern-order:{i}"), &t2, StatsKind::Fresh, None, 1, &mut plans) {
            return o;
        }
        o.class("variant:pattern-order");
    }
    // ---- 2. statistics ----
    if !variant(&mut o, "stats-empty", &text, StatsKind::Empty, None, 1, &mut plans) {
        return o;
    }
    {
        let stale = Arc::new(DatabaseStats::gather_stats_fast(&mk_db(&c.data2)));
        let before = plans.len();
        if !variant(&mut o, "stats-stale", &text, StatsKind::Given(stale), None, 1, &mut plans) {
            return o;
        }
        o.class_if(plans.len() > before, "stale-stats-plan-differs");
        let adv = Arc::new(adversarial_stats(&mk_db(&c.data), &c.adv));
        let before = plans.len();
        if !variant(&mut o, "stats-adversarial", &text, StatsKind::Given(adv), None, 1, &mut plans) {
            return o;
        }
        o.class_if(plans.len() > before, "adversarial-stats-plan-differs");
    }
    // ---- 3. join algorithms of the chosen plan ----
    let j = base.joins;
    o.class_if(j >= 1, "has-join-node");
    if j >= 1 {
        let mut assigns: Vec<Vec<u8>> = vec![];
        if j <= 3 {
            let total = 3usize.pow(j as u32);
            for mut k in 0..total {
                let mut a = vec![];
                for _ in 0..j {
                    a.push((k % 3) as u8);
                    k /= 3;
                }
                assigns.push(a);
            }
            o.class("joins:all-assignments");
        } else {
            assigns.push(vec![0; j]);
            assigns.push(vec![1; j]);
            assigns.push(vec![2; j]);
            for s in &c.assign_seeds {
                let mut a = vec![];
                let mut x = *s;
                for i in 0..j {
                    x = mix(x, i as u64);
                    a.push((x % 3) as u8);
                }
                assigns.push(a);
            }
            o.class("joins:sampled-assignments");
        }
        for (i, a) in assigns.iter().enumerate() {
            let flip = i % 2 == 1;
            if !variant(&mut o, &format!("join-assignment:{:?}{}", a, if flip { "+scan-flip" } else { "" }), &text, StatsKind::Fresh, Some((a, flip)), 1, &mut plans) {
                return o;
            }
        }
        o.class_if(assigns.iter().any(|a| a.contains(&1)), "executed:hash-join");
        o.class_if(assigns.iter().any(|a| a.contains(&2)), "executed:nested-loop-join");
    }
    // ---- 4. threads ----
    // quick: pools of 2, 3, 8, 16 workers; thorough: every size 2..=16 (size 1 is the baseline of every other variant)
    let thorough = std::env::var("VERIF_TIER").map_or(false, |t| t == "thorough");
    let sizes: Vec<usize> = if thorough { (2..=16).collect() } else { vec![2, 3, 8, 16] };
    for n in sizes {
        if !variant(&mut o, &format!("threads:{n}"), &text, StatsKind::Fresh, None, n, &mut plans) {
            return o;
        }
        if j >= 1 {
            let a = vec![0u8; j];
            if !variant(&mut o, &format!("threads-bind:{n}"), &text, StatsKind::Fresh, Some((&a, false)), n, &mut plans) {
                return o;
            }
        }
    }
    o.class_if(c.data.default.len() > 64 && j >= 1, "chunked-bind-join-possible");
    // ---- 5. end to end: cached statistics that the mutation APIs do not invalidate ----
    {
        let r = catch(|| -> Result<(Vec<Vec<String>>, Vec<Vec<String>>), String> {
            let mut db = mk_db(&c.data);
            let first = execute_sparql_query(&text, &mut db)?; // fills cached_stats
            load_into(&mut db, &c.data2); // API inserts: the cache stays
            let second = execute_sparql_query(&text, &mut db)?;
            Ok((first, second))
        });
        o.inner_evals += 2;
        match r {
            Err(site) => {
                o.panic(&format!("stale-cache scenario: {text}"), &site);
                return o;
            }
            Ok(Err(e)) => {
                o.fail("c02.stale-cache.err", format!("{e}\nquery: {text}"));
                return o;
            }
            Ok(Ok((_first, second))) => {
                // final dataset = data followed by data2 (named graph lists merged)
                let mut merged = c.data.clone();
                merged.default.extend(c.data2.default.iter().cloned());
                merged.named.extend(c.data2.named.iter().cloned());
                let lex2 = merged.lexical();
                let ctx = EvalCtx::new(&lex2, &c.query.from, &c.query.from_named);
                let full = eval_select_full(&c.query, &ctx, &Active::Default);
                if ctx.ambiguous.get() == 0 && ctx.out_of_fragment.get() == 0 {
                    if let Err((s, d)) = check_answer(&c.query, &full, &second) {
                        o.fail(format!("c02.stale-cache.{s}[{fsig}]"), format!("query after API mutations with a cached (stale) statistics object: {d}\nquery: {text}"));
                        return o;
                    }
                    o.class("variant:stale-cache-end-to-end");
                }
            }
        }
    }
    o.class_if(plans.len() >= 2, "distinct-plans>=2");
    o.nontrivial = j >= 1 && !expected.is_empty() && plans.len() >= 2;
    o
}

struct Variants;
impl Part for Variants {
    type Case = Case;
    fn name(&self) -> &'static str {
        "variants"
    }
    fn cases(&self, tier: Tier) -> u32 {
        tier.pick(1500, 20_000)
    }
    fn strategy(&self, tier: Tier) -> BoxedStrategy<Case> {
        let depth = tier.pick(1, 2);
        let small = (dataset_strategy(22, 8), dataset_strategy(12, 5), raw_select_cfg(depth, true, 5));
        // wide datasets: the left side of a bind join exceeds BIND_JOIN_MIN_CHUNK = 64 rows
        let wide = (
            (proptest::collection::vec(data_triple(), 100..420), dataset_strategy(0, 10)).prop_map(|(d, mut rest)| {
                rest.default = d;
                rest
            }),
            dataset_strategy(30, 5),
            raw_select_cfg(0, true, 2),
        );
        let finish = |(data, data2, raw): (DataSet, DataSet, RawSelect)| {
            let mut q = Builder::new(&data).select(&raw, true);
            // plan independence is about the pattern: no top-level modifiers
            q.distinct = false;
            q.proj = Proj::Star;
            q.group_by.clear();
            q.order.clear();
            q.limit = None;
            (data, data2, q)
        };
        let base = prop_oneof![
            7 => small.prop_map(finish),
            3 => wide.prop_map(finish),
        ];
        (base, any::<bool>(), proptest::collection::vec(any::<u64>(), 3), proptest::collection::vec(any::<u32>(), 16), proptest::collection::vec(any::<u64>(), tier.pick(8, 40)))
            .prop_map(|((data, data2, query), use_prefix, perm_seeds, adv, assign_seeds)| Case { data, data2, query, use_prefix, perm_seeds, adv, assign_seeds })
            .boxed()
    }
    fn check(&self, c: &Case) -> Outcome {
        check_case(c)
    }
    fn describe(&self, c: &Case) -> serde_json::Value {
        json!({"query": Printer { use_prefix: c.use_prefix }.query(&c.query), "default_triples": c.data.default.len(), "named_graphs": c.data.named.len()})
    }
    fn max_shrink_iters(&self, tier: Tier) -> u32 {
        tier.pick(300, 1500)
    }
}

/// `GRAPH ?g { ... }` joins whose patterns use the graph variable as a term (see `graph_var_term_strategy`), through all
/// the variants of the main part.
struct GraphVarTerm;
impl Part for GraphVarTerm {
    type Case = Case;
    fn name(&self) -> &'static str {
        "graph-var-term"
    }
    fn cases(&self, tier: Tier) -> u32 {
        tier.pick(400, 6_000)
    }
    fn strategy(&self, tier: Tier) -> BoxedStrategy<Case> {
        (graph_var_term_strategy(), dataset_strategy(6, 4), any::<bool>(), proptest::collection::vec(any::<u64>(), 3), proptest::collection::vec(any::<u32>(), 16), proptest::collection::vec(any::<u64>(), tier.pick(8, 40)))
            .prop_map(|((data, query), data2, use_prefix, perm_seeds, adv, assign_seeds)| Case { data, data2, query, use_prefix, perm_seeds, adv, assign_seeds })
            .boxed()
    }
    fn check(&self, c: &Case) -> Outcome {
        check_case(c)
    }
    fn describe(&self, c: &Case) -> serde_json::Value {
        json!({"query": Printer { use_prefix: c.use_prefix }.query(&c.query), "default_triples": c.data.default.len(), "named_graphs": c.data.named.len()})
    }
    fn max_shrink_iters(&self, tier: Tier) -> u32 {
        tier.pick(150, 400)
    }
}

fn main() {
    let mut s = Session::start(
        "C02",
        "exploration",
        "generated (dataset, join-heavy SELECT * pattern) pairs (BGPs of 2-5 patterns incl. stars and chains, nested in GRAPH/UNION/sub-SELECT/VALUES; 30% wide datasets of 100-420 default triples so bind-join chunking is reachable); \
         per case the public planning pipeline (parse_combined_query -> build_logical_plan_from_group -> Streamertail::with_cached_stats_and_dataset -> find_best_plan -> ExecutionEngine::execute_with_ids_and_dataset) is run as: baseline (source order, fresh stats, chosen plan, 1 thread); \
         3 random permutations of every BGP; empty / stale (gathered from another dataset) / adversarial (every public DatabaseStats field filled with generated values <= 10^6, missing and never-issued ids, disagreeing graph catalog) statistics; \
         every assignment of {bind, hash, nested-loop} to the join nodes of the chosen plan when there are <=3 (else all-bind/all-hash/all-NL + sampled), alternating TableScan<->IndexScan flips; rayon pools of 2,3,8,16 threads (thorough tier: every size 2..16; size 1 is the baseline); \
         plus end-to-end: query, mutate through the API (statistics cache stays), query again. Every variant's solution multiset must equal the baseline's, which must equal the reference evaluator's. \
         Non-trivial = the chosen plan has >=1 join node, the answer is non-empty and >=2 distinct physical plans were executed; inner_evaluations counts pipeline executions.",
    );
    s.assume("C01 fragment restriction (a): FILTER/BIND only mention variables certainly bound in their own group - the condition under which bind, hash and nested-loop joins are specified to agree");
    s.assume("thread schedules are perturbed only through pool sizes; the harness does not own the OS scheduler");
    s.run(&Variants);
    s.run(&GraphVarTerm);
    std::process::exit(s.finish());
}
