//! C08 — hybrid probability results never certify a wrong decision.
//!
//! Part `dags`: generated lineage DAGs over <= 12 seeds (independent seeds and exclusive groups),
//! generated `HybridConfig`s, and for every case a complete clock-fault enumeration: the case is run
//! once with a counting clock that never expires to learn the number R of clock readings, then once
//! for every n in 0..=R with a clock that returns the base instant for the first n readings and
//! base + 1 h afterwards.  The same sweep is done for `compile_lineage_to_sdd_with_clock`; a bounded
//! two-jump sweep (top-k deadline AND SDD deadline expiring) and a node-budget sweep are added.
//! Oracle: explicit enumeration of all 2^n seed assignments over the harness' own copy of the
//! formula (never read back from `LineageStore`).

use kvh::engine::*;
use proptest::collection::vec;
use proptest::prelude::*;
use serde::{Deserialize, Serialize};
use shared::hybrid::{
    compile_lineage_to_sdd_with_clock, evaluate_hybrid_with_clock, evaluate_topk, AlertDecision, HybridClock, HybridConfig,
    HybridProbabilityResult, HybridReason, LineageId, LineageStore, SeedId, SeedSnapshot, ThresholdPolicyKind,
};
use shared::seed_spec::{ExclusiveChoice, SeedSpec};
use shared::triple::Triple;
use std::collections::BTreeMap;
use std::sync::atomic::{AtomicU64, Ordering};
use std::sync::{Arc, Mutex};
use std::time::{Duration, Instant};

const MAX_SEEDS: usize = 12;
const WORDS: usize = 64; // 4096 assignment bits
/// cap on the readings of one run (the engine's own deadline mechanism bounds pathological DAGs)
const MAXR: u64 = 2500;
const HOUR: Duration = Duration::from_secs(3600);

// ------------------------------------------------------------------------------------------
// case
// ------------------------------------------------------------------------------------------

/// Probability written as an exact rational so replays are bit-identical.
#[derive(Clone, Debug, Serialize, Deserialize, PartialEq)]
enum P {
    F16(u8),     // k/16, k in 0..=16 (dyadic, includes 0 and 1)
    Milli(u16),  // k/1000
    Tiny(u16),   // k * 1e-7
    NearOne(u16), // 1 - k * 1e-7
}

impl P {
    fn val(&self) -> f64 {
        match self {
            P::F16(k) => (*k).min(16) as f64 / 16.0,
            P::Milli(k) => (*k).min(1000) as f64 / 1000.0,
            P::Tiny(k) => *k as f64 * 1e-7,
            P::NearOne(k) => 1.0 - *k as f64 * 1e-7,
        }
    }
}

/// One DAG node. Seeds 0..n are implicit literal nodes 0..n; node j of `nodes` has index n + j.
/// Child selectors are resolved with `pick_idx(sel, n + j)` over everything defined before the node.
#[derive(Clone, Debug, Serialize, Deserialize, PartialEq)]
enum Nd {
    Conj(u16), // and of the seed literals in the bit mask (empty = TRUE)
    Disj(u16), // or of the seed literals in the bit mask (empty = FALSE)
    And(Vec<u16>),
    Or(Vec<u16>),
    Not(u16),
}

/// Threshold choice. The nudge code c in -8..=8 adds sign(c) * [0, 1ulp, 1e-13, 1e-10, 3e-9, 1e-7, 1e-4, 1e-2, 1e-1][|c|].
#[derive(Clone, Debug, Serialize, Deserialize, PartialEq)]
enum Th {
    Milli(u16),
    F64th(u8),
    /// the true probability of the root, nudged
    True(i8),
    /// the true probability of some node of the DAG, nudged
    Node(u16, i8),
    /// P(or of the j most probable minimal proofs), nudged — aims at the intermediate lower bounds
    TopJ(u8, i8),
}

#[derive(Clone, Debug, Serialize, Deserialize, PartialEq)]
enum Sm {
    Zero,
    Milli(u16),
    Micro(u16),
    Huge,
}

#[derive(Clone, Debug, Serialize, Deserialize, PartialEq)]
struct CfgC {
    th: Th,
    cost_policy: bool,
    band: Sm,
    floor: Sm,
    k_initial: u16,
    k_extra: u16, // k_max = k_initial + k_extra
    k_growth: u16,
    topk_us: u32,
    sdd_us: u32,
    node_budget: u32,
}

#[derive(Clone, Debug, Serialize, Deserialize)]
struct Case {
    indep: Vec<P>,
    /// one entry per exclusive group: cut points in 0..=64; the members' probabilities are the
    /// successive differences of [0, sorted cuts.., 64] / 64 (dyadic, sum exactly 1)
    groups: Vec<Vec<u8>>,
    /// raw seed id of seed i = id_perm[i] * id_stride + id_off (permutation of 0..n)
    id_perm: Vec<u8>,
    id_stride: u8,
    id_off: u8,
    nodes: Vec<Nd>,
    cfg: CfgC,
    /// Some(code): the configuration is made invalid in one field
    invalid: Option<u8>,
    compile_nodes: u32,
    topk_ks: Vec<u16>,
    /// extra first-jump positions for the two-jump sweep
    jump_sel: Vec<u16>,
}

// ------------------------------------------------------------------------------------------
// oracle: seeds, formula mirror, truth tables, world weights
// ------------------------------------------------------------------------------------------

struct Seeds {
    n: usize,
    prob: Vec<f64>,
    group_of: Vec<Option<usize>>,
    members: Vec<Vec<usize>>,
    raw_id: Vec<u32>,
}

fn derive_seeds(c: &Case) -> Seeds {
    let mut prob = vec![];
    let mut group_of = vec![];
    let mut members: Vec<Vec<usize>> = vec![];
    for p in c.indep.iter().take(MAX_SEEDS) {
        prob.push(p.val());
        group_of.push(None);
    }
    for cuts in &c.groups {
        let m = cuts.len() + 1;
        if prob.len() + m > MAX_SEEDS {
            break; // only reachable from hand-edited replay files
        }
        let mut cs: Vec<u32> = cuts.iter().map(|x| (*x).min(64) as u32).collect();
        cs.sort_unstable();
        cs.push(64);
        let g = members.len();
        let mut mem = vec![];
        let mut prev = 0u32;
        for cpt in cs {
            mem.push(prob.len());
            prob.push((cpt - prev) as f64 / 64.0);
            group_of.push(Some(g));
            prev = cpt;
        }
        members.push(mem);
    }
    if prob.is_empty() {
        prob.push(0.5);
        group_of.push(None);
    }
    let n = prob.len();
    let mut sorted: Vec<u8> = c.id_perm.clone();
    sorted.sort_unstable();
    let is_perm = sorted.len() == n && sorted.iter().enumerate().all(|(i, v)| *v as usize == i);
    let stride = c.id_stride.clamp(1, 3) as u32;
    let off = c.id_off.min(2) as u32;
    let raw_id = (0..n).map(|i| (if is_perm { c.id_perm[i] as u32 } else { i as u32 }) * stride + off).collect();
    Seeds { n, prob, group_of, members, raw_id }
}

/// weight of every assignment a in 0..2^n (bit i = seed i true).
/// ASSUMPTION (stated in the evidence): an exclusive group means exactly one member is true, member i
/// with probability p_i; assignments with zero or several true members of a group have weight 0.
fn world_weights(s: &Seeds) -> Vec<f64> {
    let mut w = vec![0.0f64; 1usize << s.n];
    for (a, slot) in w.iter_mut().enumerate() {
        let mut x = 1.0f64;
        for i in 0..s.n {
            if s.group_of[i].is_none() {
                x *= if a >> i & 1 == 1 { s.prob[i] } else { 1.0 - s.prob[i] };
            }
        }
        for mem in &s.members {
            let on: Vec<usize> = mem.iter().copied().filter(|i| a >> i & 1 == 1).collect();
            if on.len() == 1 {
                x *= s.prob[on[0]];
            } else {
                x = 0.0;
            }
        }
        *slot = x;
    }
    w
}

#[derive(Clone, Debug)]
enum F {
    True,
    False,
    Lit(usize),
    Not(usize),
    And(Vec<usize>),
    Or(Vec<usize>),
}

fn lowmask(n: usize) -> u16 {
    if n >= 16 {
        u16::MAX
    } else {
        (1u16 << n) - 1
    }
}

fn bits(mask: u16) -> Vec<usize> {
    (0..16).filter(|i| mask >> i & 1 == 1).collect()
}

/// The harness' own copy of the formula: entries 0..n are the literals, then one entry per `Nd`.
fn mirror(c: &Case, n: usize) -> Vec<F> {
    let mut f: Vec<F> = (0..n).map(F::Lit).collect();
    for nd in c.nodes.iter().take(80) {
        let pool = f.len();
        let m = match nd {
            Nd::Conj(mask) => {
                let ch = bits(mask & lowmask(n));
                if ch.is_empty() {
                    F::True
                } else {
                    F::And(ch)
                }
            }
            Nd::Disj(mask) => {
                let ch = bits(mask & lowmask(n));
                if ch.is_empty() {
                    F::False
                } else {
                    F::Or(ch)
                }
            }
            Nd::And(sels) => F::And(sels.iter().map(|s| pick_idx(*s, pool)).collect()),
            Nd::Or(sels) => F::Or(sels.iter().map(|s| pick_idx(*s, pool)).collect()),
            Nd::Not(s) => F::Not(pick_idx(*s, pool)),
        };
        f.push(m);
    }
    f
}

type Tt = Vec<u64>;

fn lit_table(i: usize) -> Tt {
    let mut t = vec![0u64; WORDS];
    for a in 0..(WORDS * 64) {
        if a >> i & 1 == 1 {
            t[a / 64] |= 1u64 << (a % 64);
        }
    }
    t
}

fn tables(f: &[F]) -> Vec<Tt> {
    let mut out: Vec<Tt> = Vec::with_capacity(f.len());
    for node in f {
        let t = match node {
            F::True => vec![u64::MAX; WORDS],
            F::False => vec![0u64; WORDS],
            F::Lit(i) => lit_table(*i),
            F::Not(x) => out[*x].iter().map(|w| !w).collect(),
            F::And(ch) => {
                let mut t = vec![u64::MAX; WORDS];
                for x in ch {
                    for (a, b) in t.iter_mut().zip(out[*x].iter()) {
                        *a &= *b;
                    }
                }
                t
            }
            F::Or(ch) => {
                let mut t = vec![0u64; WORDS];
                for x in ch {
                    for (a, b) in t.iter_mut().zip(out[*x].iter()) {
                        *a |= *b;
                    }
                }
                t
            }
        };
        out.push(t);
    }
    out
}

fn holds(t: &Tt, a: usize) -> bool {
    t[a / 64] >> (a % 64) & 1 == 1
}

fn prob_of(t: &Tt, w: &[f64]) -> f64 {
    let mut s = 0.0;
    for (a, x) in w.iter().enumerate() {
        if holds(t, a) {
            s += *x;
        }
    }
    s
}

/// reachable from root?
fn reachable(f: &[F], root: usize) -> Vec<bool> {
    let mut r = vec![false; f.len()];
    let mut stack = vec![root];
    while let Some(x) = stack.pop() {
        if r[x] {
            continue;
        }
        r[x] = true;
        match &f[x] {
            F::Not(c) => stack.push(*c),
            F::And(ch) | F::Or(ch) => stack.extend(ch.iter().copied()),
            _ => {}
        }
    }
    r
}

/// number of root-to-leaf expansion paths the proof enumeration may have to walk (saturating)
fn expansion_paths(f: &[F], root: usize) -> u64 {
    let mut p: Vec<u64> = Vec::with_capacity(f.len());
    for node in f {
        let v = match node {
            F::True | F::Lit(_) => 1,
            F::False => 0,
            F::Not(x) => p[*x].max(1),
            F::And(ch) => ch.iter().fold(1u64, |acc, x| acc.saturating_mul(p[*x].max(1))),
            F::Or(ch) => ch.iter().fold(0u64, |acc, x| acc.saturating_add(p[*x])),
        };
        p.push(v);
    }
    p[root]
}

fn close(a: f64, b: f64) -> bool {
    (a - b).abs() <= 1e-9 * 1f64.max(a.abs()).max(b.abs())
}
fn eps_for(a: f64, b: f64) -> f64 {
    1e-9 * 1f64.max(a.abs()).max(b.abs())
}

fn nudge(x: f64, code: i8) -> f64 {
    let m = (code.unsigned_abs() as usize).min(8);
    let up = code > 0;
    let y = match m {
        0 => x,
        1 => {
            if up {
                f64::from_bits(x.to_bits() + 1)
            } else if x > 0.0 {
                f64::from_bits(x.to_bits() - 1)
            } else {
                0.0
            }
        }
        _ => {
            let d = [0.0, 0.0, 1e-13, 1e-10, 3e-9, 1e-7, 1e-4, 1e-2, 1e-1][m];
            if up {
                x + d
            } else {
                x - d
            }
        }
    };
    if y.is_finite() {
        y.clamp(0.0, 1.0)
    } else {
        x.clamp(0.0, 1.0)
    }
}

// ------------------------------------------------------------------------------------------
// engine side
// ------------------------------------------------------------------------------------------

struct Built {
    store: Arc<Mutex<LineageStore>>,
    snapshot: Arc<SeedSnapshot>,
    root: LineageId,
    base: Instant,
}

fn build(s: &Seeds, f: &[F], root: usize) -> Result<Built, String> {
    let tr = |i: usize| Triple { subject: 100 + i as u32, predicate: 7, object: 200 + i as u32 };
    let mut specs = vec![];
    for i in 0..s.n {
        if s.group_of[i].is_none() {
            specs.push(SeedSpec::Independent { triple: tr(i), prob: s.prob[i], seed_id: s.raw_id[i] });
        }
    }
    for (g, mem) in s.members.iter().enumerate() {
        specs.push(SeedSpec::ExclusiveGroup {
            group_id: 40 + g as u32,
            choices: mem.iter().map(|i| ExclusiveChoice { triple: tr(*i), prob: s.prob[*i], choice_id: s.raw_id[*i] }).collect(),
        });
    }
    let snapshot = SeedSnapshot::from_seed_specs(&specs).map_err(|e| format!("{e}"))?;
    let by_raw: BTreeMap<u32, SeedId> = snapshot.records().map(|r| (r.id.get(), r.id)).collect();
    let mut store = LineageStore::new();
    let mut eng: Vec<LineageId> = Vec::with_capacity(f.len());
    for node in f {
        let id = match node {
            F::True => LineageId::TRUE,
            F::False => LineageId::FALSE,
            F::Lit(i) => {
                let sid = *by_raw.get(&s.raw_id[*i]).ok_or_else(|| "seed id missing from snapshot".to_string())?;
                store.literal(sid)
            }
            F::Not(x) => store.not(eng[*x]),
            F::And(ch) => store.and(ch.iter().map(|x| eng[*x])),
            F::Or(ch) => store.or(ch.iter().map(|x| eng[*x])),
        };
        eng.push(id);
    }
    Ok(Built { store: Arc::new(Mutex::new(store)), snapshot: Arc::new(snapshot), root: eng[root], base: Instant::now() })
}

/// Returns `base` for the first `j1` readings, `base + 1h` for readings j1..j2, `base + 2h` afterwards.
struct FaultClock {
    base: Instant,
    j1: u64,
    j2: u64,
    count: AtomicU64,
}

impl FaultClock {
    fn new(base: Instant, j1: u64, j2: u64) -> Self {
        FaultClock { base, j1, j2, count: AtomicU64::new(0) }
    }
    fn readings(&self) -> u64 {
        self.count.load(Ordering::Relaxed)
    }
}

impl HybridClock for FaultClock {
    fn now(&self) -> Instant {
        let c = self.count.fetch_add(1, Ordering::Relaxed);
        if c < self.j1 {
            self.base
        } else if c < self.j2 {
            self.base + HOUR
        } else {
            self.base + HOUR + HOUR
        }
    }
}

fn sm_val(s: &Sm, huge: f64) -> f64 {
    match s {
        Sm::Zero => 0.0,
        Sm::Milli(k) => (*k).min(1000) as f64 / 1000.0,
        Sm::Micro(k) => *k as f64 * 1e-6,
        Sm::Huge => huge,
    }
}

fn make_cfg(c: &CfgC, threshold: f64) -> HybridConfig {
    let k_initial = c.k_initial.max(1) as usize;
    HybridConfig {
        threshold,
        threshold_policy: if c.cost_policy { ThresholdPolicyKind::CostRatio } else { ThresholdPolicyKind::Explicit },
        band_epsilon: sm_val(&c.band, 1.0).clamp(0.0, 1.0),
        marginal_gain_floor: sm_val(&c.floor, 1e300),
        k_initial,
        k_max: k_initial + (c.k_extra as usize).min(4096),
        k_growth: c.k_growth.max(2) as usize,
        // budgets stay strictly between 0 and 1 h so that the 1 h clock jump expires them
        topk_budget: Duration::from_micros((c.topk_us as u64).clamp(1, 3_000_000_000)),
        sdd_budget: Duration::from_micros((c.sdd_us as u64).clamp(1, 3_000_000_000)),
        sdd_node_budget: (c.node_budget as usize).max(2),
    }
}

const INVALID_KINDS: u8 = 18;
fn invalidate(cfg: &mut HybridConfig, code: u8) -> &'static str {
    match code % INVALID_KINDS {
        0 => {
            cfg.threshold = f64::NAN;
            "threshold NaN"
        }
        1 => {
            cfg.threshold = -1e-9;
            "threshold < 0"
        }
        2 => {
            cfg.threshold = 1.0 + 1e-9;
            "threshold > 1"
        }
        3 => {
            cfg.threshold = f64::INFINITY;
            "threshold inf"
        }
        4 => {
            cfg.band_epsilon = -1e-9;
            "band_epsilon < 0"
        }
        5 => {
            cfg.band_epsilon = f64::NAN;
            "band_epsilon NaN"
        }
        6 => {
            cfg.band_epsilon = 1.5;
            "band_epsilon > 1"
        }
        7 => {
            cfg.marginal_gain_floor = -1e-12;
            "marginal_gain_floor < 0"
        }
        8 => {
            cfg.marginal_gain_floor = f64::INFINITY;
            "marginal_gain_floor inf"
        }
        9 => {
            cfg.marginal_gain_floor = f64::NAN;
            "marginal_gain_floor NaN"
        }
        10 => {
            cfg.k_initial = 0;
            "k_initial 0"
        }
        11 => {
            cfg.k_initial = cfg.k_max + 1;
            "k_initial > k_max"
        }
        12 => {
            cfg.k_growth = 1;
            "k_growth 1"
        }
        13 => {
            cfg.k_growth = 0;
            "k_growth 0"
        }
        14 => {
            cfg.topk_budget = Duration::ZERO;
            "topk_budget 0"
        }
        15 => {
            cfg.sdd_budget = Duration::ZERO;
            "sdd_budget 0"
        }
        16 => {
            cfg.sdd_node_budget = 1;
            "sdd_node_budget 1"
        }
        _ => {
            cfg.sdd_node_budget = 0;
            "sdd_node_budget 0"
        }
    }
}

fn eval(b: &Built, cfg: &HybridConfig, j1: u64, j2: u64) -> Result<(HybridProbabilityResult, u64), PanicSite> {
    let clock = FaultClock::new(b.base, j1, j2);
    let r = catch(|| evaluate_hybrid_with_clock(&b.store, &b.snapshot, b.root, cfg, &clock))?;
    Ok((r, clock.readings()))
}

fn brief(r: &HybridProbabilityResult) -> String {
    let m = r.metrics();
    let head = match r {
        HybridProbabilityResult::Exact { probability, decision, reason, .. } => format!("Exact{{p={probability:e}, {decision:?}, {}}}", reason.as_str()),
        HybridProbabilityResult::LowerBound { lower_bound, decision, reason, .. } => format!("LowerBound{{lo={lower_bound:e}, {decision:?}, {}}}", reason.as_str()),
        HybridProbabilityResult::Bounded { interval, decision, reason, .. } => {
            format!("Bounded{{[{:e},{:e}], {decision:?}, {}}}", interval.lower, interval.upper, reason.as_str())
        }
        HybridProbabilityResult::NeedsExact { lower_bound, upper_bound, reason, .. } => format!("NeedsExact{{lo={lower_bound:?}, up={upper_bound:?}, {}}}", reason.as_str()),
        HybridProbabilityResult::UnsafeApproximation { estimate, reason, .. } => format!("UnsafeApproximation{{{estimate:e}, {}}}", reason.as_str()),
    };
    format!("{head} k_used={} cap_hit={} exhausted={} exact_used={}", m.k_used, m.cap_hit, m.frontier_exhausted, m.exact_used)
}

/// The contract of the property, applied to one result. `tag` distinguishes the entry point / fault kind.
fn check_result(o: &mut Outcome, tag: &str, ctx: &str, r: &HybridProbabilityResult, tp: f64, th: f64) {
    check_result_vs(o, tag, None, ctx, r, tp, th)
}

/// `base`: status key of the fault-free baseline run; a faulted run that produced the very same result is
/// reported under the baseline's tag `hybrid` (one root cause = one signature).
fn check_result_vs(o: &mut Outcome, tag: &str, base: Option<&str>, ctx: &str, r: &HybridProbabilityResult, tp: f64, th: f64) {
    let tag = if base.is_some_and(|b| b == status_key(r)) { "hybrid" } else { tag };
    let e = eps_for(tp, th);
    let bad = |o: &mut Outcome, what: &str, why: String| {
        o.fail(format!("c08.{tag}.{what}"), format!("{ctx}: {why}; true probability {tp:e}, threshold {th:e}; result {}", brief(r)));
    };
    match r {
        HybridProbabilityResult::Exact { probability, .. } => {
            if !close(*probability, tp) {
                bad(o, "exact_off", format!("Exact probability {probability:e} differs from the true probability"));
            }
        }
        HybridProbabilityResult::LowerBound { lower_bound, .. } => {
            if *lower_bound > tp + eps_for(*lower_bound, tp) {
                bad(o, "lower_bound_above_true", format!("LowerBound {lower_bound:e} exceeds the true probability"));
            }
        }
        HybridProbabilityResult::Bounded { interval, .. } => {
            if interval.lower > tp + eps_for(interval.lower, tp) || interval.upper < tp - eps_for(interval.upper, tp) {
                bad(o, "interval_excludes_true", format!("Bounded interval [{:e},{:e}] does not contain the true probability", interval.lower, interval.upper));
            }
        }
        HybridProbabilityResult::NeedsExact { lower_bound, upper_bound, .. } => {
            if let Some(lo) = lower_bound {
                if *lo > tp + eps_for(*lo, tp) {
                    bad(o, "needs_exact_bounds_exclude_true", format!("NeedsExact lower bound {lo:e} exceeds the true probability"));
                }
            }
            if let Some(up) = upper_bound {
                if *up < tp - eps_for(*up, tp) {
                    bad(o, "needs_exact_bounds_exclude_true", format!("NeedsExact upper bound {up:e} is below the true probability"));
                }
            }
        }
        HybridProbabilityResult::UnsafeApproximation { .. } => {
            bad(o, "unsafe_approximation", "UnsafeApproximation produced by a certified entry point".to_string());
        }
    }
    match r.decision() {
        AlertDecision::Alert => {
            if tp < th - e {
                bad(o, "alert_below_threshold", "Alert although the true probability is below the threshold".to_string());
            }
        }
        AlertDecision::NoAlert => {
            if !(tp < th + e) {
                bad(o, "noalert_at_or_above_threshold", "NoAlert although the true probability reaches the threshold".to_string());
            }
        }
        AlertDecision::Indeterminate => {}
    }
}

fn status_key(r: &HybridProbabilityResult) -> String {
    let iv = r.interval();
    format!("{}|{:?}|{:?}|{:?}", r.status(), r.decision(), r.reason(), iv.map(|i| (i.lower.to_bits(), i.upper.to_bits())))
}

/// evenly spaced sample of lo..=hi with at most `max` points (all points when the span is small)
fn sample_range(lo: u64, hi: u64, max: u64) -> Vec<u64> {
    if hi < lo {
        return vec![];
    }
    let span = hi - lo + 1;
    if span <= max {
        return (lo..=hi).collect();
    }
    let mut v: Vec<u64> = (0..max).map(|i| lo + i * (span - 1) / (max - 1)).collect();
    v.dedup();
    v
}

// ------------------------------------------------------------------------------------------
// the check
// ------------------------------------------------------------------------------------------

fn run_case(c: &Case) -> Outcome {
    let mut o = Outcome::new();
    let seeds = derive_seeds(c);
    let n = seeds.n;
    let f = mirror(c, n);
    let root = f.len() - 1;
    let tt = tables(&f);
    let w = world_weights(&seeds);
    let tp = prob_of(&tt[root], &w);
    let reach = reachable(&f, root);
    let has_not = f.iter().enumerate().any(|(i, x)| reach[i] && matches!(x, F::Not(_)));
    let root_vars: Vec<usize> = (0..n).filter(|i| reach[*i]).collect();
    let has_group = root_vars.iter().any(|i| seeds.group_of[*i].is_some());
    let paths = expansion_paths(&f, root);

    // minimal proofs (minimal true points) of a negation-free formula
    let mut proofs: Vec<usize> = vec![];
    if !has_not {
        for a in 0..(1usize << n) {
            if holds(&tt[root], a) && (0..n).all(|i| a >> i & 1 == 0 || !holds(&tt[root], a & !(1 << i))) {
                proofs.push(a);
            }
        }
    }
    let shared_seed = (0..n).any(|i| proofs.iter().filter(|a| *a >> i & 1 == 1).count() >= 2);
    let many_proofs_shared = proofs.len() >= 3 && shared_seed;
    let proof_p = |a: usize| -> f64 { (0..n).filter(|i| a >> i & 1 == 1).map(|i| seeds.prob[i]).product() };

    // threshold
    let th = match &c.cfg.th {
        Th::Milli(k) => (*k).min(1000) as f64 / 1000.0,
        Th::F64th(k) => (*k).min(64) as f64 / 64.0,
        Th::True(code) => nudge(tp, *code),
        Th::Node(s, code) => nudge(prob_of(&tt[pick_idx(*s, f.len())], &w), *code),
        Th::TopJ(j, code) => {
            if proofs.is_empty() {
                nudge(tp, *code)
            } else {
                let mut order: Vec<usize> = proofs.clone();
                order.sort_by(|a, b| proof_p(*b).partial_cmp(&proof_p(*a)).unwrap_or(std::cmp::Ordering::Equal).then(a.cmp(b)));
                let take = (*j as usize).min(order.len() - 1) + 1;
                let mut t = vec![0u64; WORDS];
                for a in order.iter().take(take) {
                    let mut ct = vec![u64::MAX; WORDS];
                    for i in (0..n).filter(|i| a >> i & 1 == 1) {
                        for (x, y) in ct.iter_mut().zip(lit_table(i).iter()) {
                            *x &= *y;
                        }
                    }
                    for (x, y) in t.iter_mut().zip(ct.iter()) {
                        *x |= *y;
                    }
                }
                nudge(prob_of(&t, &w), *code)
            }
        }
    };
    let th = if th.is_finite() { th.clamp(0.0, 1.0) } else { 0.5 };

    let b = match build(&seeds, &f, root) {
        Ok(b) => b,
        Err(_) => {
            o.skipped.push("snapshot-rejected");
            return o;
        }
    };
    let mut cfg = make_cfg(&c.cfg, th);

    o.class_if(!has_not && !has_group, "lineage:monotone-independent");
    o.class_if(has_not, "lineage:negation");
    o.class_if(has_group, "lineage:exclusive-group");
    o.class_if(many_proofs_shared, "proofs>=3-with-shared-seed");
    o.class_if(proofs.len() > cfg.k_initial, "proofs>k_initial");
    o.class_if(proofs.len() > cfg.k_max, "proofs>k_max");
    o.class_if(proofs.iter().any(|a| a.count_ones() >= 6), "long-conjunction(>=6)");
    o.class_if(!has_not && paths > proofs.len() as u64, "subsumed-or-duplicate-paths");
    o.class_if((tp - th).abs() <= 1e-6, "threshold-within-1e-6-of-true");
    o.class_if((tp - th).abs() <= eps_for(tp, th), "threshold-within-eps(decision-free)");

    // ---- invalid configurations: never a decision -------------------------------------------
    if let Some(code) = c.invalid {
        let what = invalidate(&mut cfg, code);
        o.class("invalid-config");
        match eval(&b, &cfg, u64::MAX, u64::MAX) {
            Err(site) => o.panic(&format!("evaluate_hybrid_with_clock, invalid config ({what})"), &site),
            Ok((r, _)) => {
                o.inner_evals += 1;
                if !matches!(r, HybridProbabilityResult::NeedsExact { .. }) || r.decision() != AlertDecision::Indeterminate {
                    o.fail("c08.invalid_config.decision", format!("invalid configuration ({what}) was evaluated instead of NeedsExact: {}", brief(&r)));
                }
                if let HybridProbabilityResult::NeedsExact { .. } = &r {
                    check_result(&mut o, "invalid_config", what, &r, tp, if cfg.threshold.is_finite() { cfg.threshold } else { 0.5 });
                }
            }
        }
        return o;
    }
    if cfg.validate().is_err() {
        // generator / replay produced something the engine declares invalid: nothing is promised
        o.skipped.push("config-rejected-by-validate");
        return o;
    }

    // ---- baseline: counting clock that never expires within MAXR readings --------------------
    let (r0, count0) = match eval(&b, &cfg, MAXR, u64::MAX) {
        Ok(x) => x,
        Err(site) => {
            o.panic("evaluate_hybrid_with_clock (clock never expires)", &site);
            return o;
        }
    };
    o.inner_evals += 1;
    let huge = count0 > MAXR;
    let r_total = count0.min(MAXR);
    check_result(&mut o, if huge { "hybrid_expired" } else { "hybrid" }, &format!("clock never expires (R={count0})"), &r0, tp, th);
    o.class_if(huge, "R>MAXR(sweep-sampled)");
    o.class(match count0 {
        0..=50 => "R:0-50",
        51..=200 => "R:51-200",
        201..=600 => "R:201-600",
        601..=1200 => "R:601-1200",
        _ => "R:>1200",
    });
    match &r0 {
        HybridProbabilityResult::Exact { metrics, .. } if !metrics.exact_used => o.class("baseline:Exact-by-topk-exhaustion"),
        HybridProbabilityResult::Exact { .. } => o.class("baseline:Exact-by-sdd"),
        HybridProbabilityResult::Bounded { decision: AlertDecision::Alert, .. } => o.class("baseline:Bounded-Alert"),
        HybridProbabilityResult::Bounded { .. } => o.class("baseline:Bounded-NoAlert"),
        HybridProbabilityResult::NeedsExact { .. } => o.class("baseline:NeedsExact"),
        _ => o.class("baseline:other"),
    }
    let mut k_grew = r0.metrics().k_used > cfg.k_initial;
    let mut cap_hit = r0.metrics().cap_hit;
    let mut expiry_in_topk = false;
    let mut needs_exact_with_bounds = false;
    let base_key = status_key(&r0);
    let topk_decided = !r0.metrics().exact_used;

    // ---- fault enumeration: expiry at every clock reading n in 0..=R --------------------------
    let points: Vec<u64> = if huge {
        o.skipped.push("full-sweep(R>MAXR: 400 evenly spaced n instead)");
        sample_range(0, MAXR, 400)
    } else {
        (0..=r_total).collect()
    };
    let mut first_jump_runs: Vec<(u64, u64)> = vec![]; // (n, readings of that run)
    for &nn in &points {
        let (r, cnt) = match eval(&b, &cfg, nn, u64::MAX) {
            Ok(x) => x,
            Err(site) => {
                o.panic(&format!("evaluate_hybrid_with_clock (clock expires at reading {nn} of {r_total})"), &site);
                return o;
            }
        };
        o.inner_evals += 1;
        let expired = nn < cnt;
        check_result_vs(&mut o, if expired { "hybrid_expired" } else { "hybrid" }, Some(&base_key), &format!("clock expires at reading {nn} (baseline R={count0}, this run read {cnt})"), &r, tp, th);
        let m = r.metrics();
        k_grew |= m.k_used > cfg.k_initial;
        cap_hit |= m.cap_hit;
        if topk_decided && nn >= 1 && nn < r_total && m.exact_used {
            expiry_in_topk = true;
        }
        if let HybridProbabilityResult::NeedsExact { lower_bound, upper_bound, .. } = &r {
            needs_exact_with_bounds |= lower_bound.is_some() || upper_bound.is_some();
        }
        if !huge && nn == r_total && status_key(&r) != base_key {
            // the engine is not reproducible for this input (nothing the property forbids)
            o.ambiguous += 1;
            o.class("rerun-differs-from-baseline");
        }
        first_jump_runs.push((nn, cnt));
    }

    // ---- two-jump sweep: the top-k deadline expires at n1, the SDD deadline at n2 > n1 --------
    {
        let mut n1s: Vec<u64> = sample_range(0, r_total.saturating_sub(1), 10);
        for s in c.jump_sel.iter().take(4) {
            n1s.push(pick_idx(*s, r_total as usize + 1) as u64);
        }
        n1s.sort_unstable();
        n1s.dedup();
        for n1 in n1s {
            let r1 = first_jump_runs.iter().find(|(x, _)| *x == n1).map(|(_, cnt)| *cnt);
            let r1 = match r1 {
                Some(x) => x.min(n1 + MAXR),
                None => match eval(&b, &cfg, n1, u64::MAX) {
                    Ok((_, cnt)) => cnt.min(n1 + MAXR),
                    Err(site) => {
                        o.panic(&format!("evaluate_hybrid_with_clock (clock expires at reading {n1})"), &site);
                        return o;
                    }
                },
            };
            for n2 in sample_range(n1 + 1, r1, 24) {
                let (r, cnt) = match eval(&b, &cfg, n1, n2) {
                    Ok(x) => x,
                    Err(site) => {
                        o.panic(&format!("evaluate_hybrid_with_clock (clock jumps at readings {n1} and {n2})"), &site);
                        return o;
                    }
                };
                o.inner_evals += 1;
                check_result_vs(&mut o, "hybrid_expired", Some(&base_key), &format!("clock jumps +1h at reading {n1} and +2h at reading {n2} (run read {cnt})"), &r, tp, th);
                if let HybridProbabilityResult::NeedsExact { lower_bound, upper_bound, .. } = &r {
                    needs_exact_with_bounds |= lower_bound.is_some() || upper_bound.is_some();
                }
                cap_hit |= r.metrics().cap_hit;
                k_grew |= r.metrics().k_used > cfg.k_initial;
            }
        }
    }

    // ---- node-budget sweep (clock never expires) ----------------------------------------------
    {
        let mut ample = cfg.clone();
        ample.sdd_node_budget = 1_000_000;
        let top = match eval(&b, &ample, MAXR, u64::MAX) {
            Ok((r, _)) => {
                o.inner_evals += 1;
                check_result_vs(&mut o, "hybrid_nodes", Some(&base_key), "sdd_node_budget=1000000, clock never expires", &r, tp, th);
                if r.metrics().exact_used {
                    r.metrics().sdd_nodes as u64 + 2
                } else {
                    40
                }
            }
            Err(site) => {
                o.panic("evaluate_hybrid_with_clock (ample node budget)", &site);
                return o;
            }
        };
        for nb in sample_range(2, top.clamp(8, 400), 64) {
            let mut cn = cfg.clone();
            cn.sdd_node_budget = nb as usize;
            match eval(&b, &cn, MAXR, u64::MAX) {
                Ok((r, _)) => {
                    o.inner_evals += 1;
                    check_result_vs(&mut o, "hybrid_nodes", Some(&base_key), &format!("sdd_node_budget={nb}, clock never expires"), &r, tp, th);
                    if let HybridProbabilityResult::NeedsExact { lower_bound, upper_bound, reason, .. } = &r {
                        needs_exact_with_bounds |= lower_bound.is_some() || upper_bound.is_some();
                        o.class_if(*reason == HybridReason::SddNodeBudget, "node-budget-exhausted");
                    }
                }
                Err(site) => {
                    o.panic(&format!("evaluate_hybrid_with_clock (sdd_node_budget={nb})"), &site);
                    return o;
                }
            }
        }
    }

    // ---- compile_lineage_to_sdd_with_clock: same fault enumeration ----------------------------
    {
        let budget = cfg.sdd_budget;
        let nodes = (c.compile_nodes as usize).max(2);
        let compile_at = |j1: u64| -> Result<(Result<f64, HybridReason>, u64), PanicSite> {
            let clock = FaultClock::new(b.base, j1, u64::MAX);
            let r = catch(|| {
                let guard = b.store.lock().unwrap();
                compile_lineage_to_sdd_with_clock(&guard, &b.snapshot, b.root, budget, nodes, &clock).map(|cs| cs.manager.wmc(cs.root))
            })?;
            Ok((r, clock.readings()))
        };
        match compile_at(u64::MAX) {
            Err(site) => {
                o.panic("compile_lineage_to_sdd_with_clock (clock never expires)", &site);
                return o;
            }
            Ok((r, rc)) => {
                o.inner_evals += 1;
                let r0c = r.clone();
                match &r {
                    Ok(v) => {
                        o.class("compile:ok");
                        if !close(*v, tp) {
                            o.fail("c08.compile.wmc_off", format!("compiled SDD has wmc {v:e}, true probability {tp:e} (node budget {nodes}, clock never expires)"));
                        }
                    }
                    Err(reason) => {
                        o.class_if(*reason == HybridReason::SddNodeBudget, "compile:err-node-budget");
                        o.class_if(*reason != HybridReason::SddNodeBudget, "compile:err-other");
                    }
                }
                for nn in sample_range(0, rc.min(MAXR), MAXR + 1) {
                    match compile_at(nn) {
                        Err(site) => {
                            o.panic(&format!("compile_lineage_to_sdd_with_clock (clock expires at reading {nn} of {rc})"), &site);
                            return o;
                        }
                        Ok((r, cnt)) => {
                            o.inner_evals += 1;
                            match r {
                                Ok(v) => {
                                    if !close(v, tp) {
                                        let same_as_fault_free = matches!(&r0c, Ok(v0) if v0.to_bits() == v.to_bits());
                                        let tag = if nn < cnt && !same_as_fault_free { "compile_expired" } else { "compile" };
                                        o.fail(format!("c08.{tag}.wmc_off"), format!("compiled SDD has wmc {v:e}, true probability {tp:e} (clock expires at reading {nn} of {rc}, node budget {nodes})"));
                                    }
                                }
                                Err(reason) => o.class_if(reason == HybridReason::SddBudget, "compile:err-deadline"),
                            }
                        }
                    }
                }
            }
        }
    }

    // ---- evaluate_topk (system clock), ample budgets only -------------------------------------
    if paths <= 20_000 {
        for k in c.topk_ks.iter().take(4) {
            let k = *k as usize;
            let r = catch(|| {
                let guard = b.store.lock().unwrap();
                evaluate_topk(&guard, &b.snapshot, b.root, k, Duration::from_secs(60), 1_000_000)
            });
            o.inner_evals += 1;
            match r {
                Err(site) => {
                    o.panic(&format!("evaluate_topk(k={k})"), &site);
                    return o;
                }
                Ok(Err(_)) => o.class("topk:err"),
                Ok(Ok(t)) => {
                    o.class("topk:ok");
                    o.class_if(t.cap_hit, "topk:cap-hit");
                    o.class_if(t.frontier_exhausted, "topk:exhausted");
                    let d = format!("evaluate_topk(k={k}) = {{lower_bound {:e}, interval [{:e},{:e}], k_used {}, exhausted {}, cap_hit {}}}; true probability {tp:e}", t.lower_bound, t.interval.lower, t.interval.upper, t.k_used, t.frontier_exhausted, t.cap_hit);
                    if t.lower_bound > tp + eps_for(t.lower_bound, tp) {
                        o.fail("c08.topk.lower_bound_above_true", d.clone());
                    }
                    if t.interval.lower > tp + eps_for(t.interval.lower, tp) || t.interval.upper < tp - eps_for(t.interval.upper, tp) {
                        o.fail("c08.topk.interval_excludes_true", d.clone());
                    }
                    if t.frontier_exhausted && !close(t.lower_bound, tp) {
                        o.fail("c08.topk.exhausted_not_exact", d);
                    }
                }
            }
        }
    } else {
        o.skipped.push("evaluate_topk(expansion>20000 paths: no system-clock run)");
    }

    o.class_if(k_grew, "adaptive:k-grew");
    o.class_if(cap_hit, "adaptive:cap-hit");
    o.class_if(expiry_in_topk, "expiry-inside-topk-phase");
    o.class_if(needs_exact_with_bounds, "NeedsExact-with-bounds");
    // DESIGN rule: >= 3 proofs with a shared seed AND (k grew | cap hit | an expiry strictly inside the
    // top-k phase changed the path). "inside the enumeration" is approximated by "inside the top-k
    // phase" (the clock readings of enumeration and retained-proof counting are not distinguishable).
    o.nontrivial = many_proofs_shared && !has_group && (k_grew || cap_hit || expiry_in_topk);
    o
}

// ------------------------------------------------------------------------------------------
// generators
// ------------------------------------------------------------------------------------------

/// smallest selector s with pick_idx(s, len) == target
fn sel_for(target: usize, len: usize) -> u16 {
    debug_assert!(target < len && len <= 65536);
    (((target << 16) + len - 1) / len) as u16
}

/// profile 0: mixed; 1: low probabilities (many cheap proofs with little mass each, the regime where the
/// residual/probe bound and the adaptive loop matter); 2: low to middle
fn p_strategy(profile: u8) -> BoxedStrategy<P> {
    match profile {
        1 => prop_oneof![
            5 => (1u16..=200).prop_map(P::Milli),
            3 => (0u8..=3).prop_map(P::F16),
            1 => (0u16..=50000).prop_map(P::Tiny),
        ]
        .boxed(),
        2 => prop_oneof![
            5 => (30u16..=450).prop_map(P::Milli),
            3 => (1u8..=7).prop_map(P::F16),
        ]
        .boxed(),
        _ => prop_oneof![
            5 => (0u8..=16).prop_map(P::F16),
            3 => (0u16..=1000).prop_map(P::Milli),
            1 => (0u16..=50000).prop_map(P::Tiny),
            1 => (0u16..=50000).prop_map(P::NearOne),
        ]
        .boxed(),
    }
}

fn sparse_mask() -> BoxedStrategy<u16> {
    (any::<u16>(), any::<u16>()).prop_map(|(a, b)| a & b).boxed()
}

#[derive(Clone, Debug)]
enum Pg {
    Single(u16),
    Pair(u16, u16),
    Hub(u16),
    Dense(u16),
    Sup(u16, u16),
}

/// or of conjunctions: shared hub seed, subsumed proofs, a long conjunction, many cheap proofs
fn dnf_shape(n: usize, maxp: usize) -> BoxedStrategy<Vec<Nd>> {
    let pg = prop_oneof![
        1 => sel().prop_map(Pg::Single),
        3 => (sel(), sel()).prop_map(|(a, b)| Pg::Pair(a, b)),
        5 => sparse_mask().prop_map(Pg::Hub),
        2 => (any::<u16>(), any::<u16>()).prop_map(|(a, b)| Pg::Dense(a | b)),
        2 => (sel(), sparse_mask()).prop_map(|(s, m)| Pg::Sup(s, m)),
    ];
    (sel(), vec(pg, 3..=maxp), 0u8..10, sparse_mask())
        .prop_map(move |(hub, pgs, top, m)| {
            let low = lowmask(n);
            let hubbit = 1u16 << pick_idx(hub, n);
            let mut masks: Vec<u16> = vec![];
            for pg in pgs {
                let mk = match pg {
                    Pg::Single(s) => 1u16 << pick_idx(s, n),
                    Pg::Pair(a, b) => (1u16 << pick_idx(a, n)) | (1u16 << pick_idx(b, n)),
                    Pg::Hub(x) => (x & low) | hubbit,
                    Pg::Dense(x) => {
                        if x & low == 0 {
                            hubbit
                        } else {
                            x & low
                        }
                    }
                    Pg::Sup(s, extra) => (if masks.is_empty() { hubbit } else { masks[pick_idx(s, masks.len())] }) | (extra & low),
                };
                masks.push(mk);
            }
            let k = masks.len();
            let mut nodes: Vec<Nd> = masks.iter().map(|m| Nd::Conj(*m)).collect();
            let pool = n + k;
            nodes.push(Nd::Or((0..k).map(|i| sel_for(n + i, pool)).collect()));
            match top {
                0 => nodes.push(Nd::Not(sel_for(pool, pool + 1))),
                1 => {
                    nodes.push(Nd::Disj(if m & low == 0 { hubbit } else { m }));
                    nodes.push(Nd::And(vec![sel_for(pool, pool + 2), sel_for(pool + 1, pool + 2)]));
                }
                _ => {}
            }
            nodes
        })
        .boxed()
}

/// and of disjunctions (shared sub-DAGs, product of choices) or-ed with a few conjunctions
fn layered_shape(n: usize) -> BoxedStrategy<Vec<Nd>> {
    (vec(sparse_mask(), 2..=4), vec(sparse_mask(), 0..=3), 0u8..8)
        .prop_map(move |(ors, conjs, top)| {
            let low = lowmask(n);
            let mut nodes: Vec<Nd> = vec![];
            for (i, m) in ors.iter().enumerate() {
                nodes.push(Nd::Disj(if m & low == 0 { 1u16 << (i % n) } else { *m }));
            }
            let k = ors.len();
            let pool = n + k;
            nodes.push(Nd::And((0..k).map(|i| sel_for(n + i, pool)).collect())); // index n + k
            for m in &conjs {
                nodes.push(Nd::Conj(if m & low == 0 { 1 } else { *m }));
            }
            let pool2 = n + k + 1 + conjs.len();
            nodes.push(Nd::Or((n + k..pool2).map(|i| sel_for(i, pool2)).collect()));
            if top == 0 {
                nodes.push(Nd::Not(sel_for(pool2, pool2 + 1)));
            }
            nodes
        })
        .boxed()
}

fn random_shape(maxn: usize, with_not: bool) -> BoxedStrategy<Vec<Nd>> {
    let positive = prop_oneof![
        3 => sparse_mask().prop_map(Nd::Conj),
        2 => sparse_mask().prop_map(Nd::Disj),
        3 => vec(sel(), 2..=3).prop_map(Nd::And),
        4 => vec(sel(), 2..=4).prop_map(Nd::Or),
    ];
    if with_not {
        vec(prop_oneof![6 => positive, 1 => sel().prop_map(Nd::Not)], 2..=maxn).boxed()
    } else {
        vec(positive, 2..=maxn).boxed()
    }
}

fn nudge_code() -> BoxedStrategy<i8> {
    // |code| <= 3 stays within the comparison epsilon (either decision is acceptable), |code| >= 4 is decisive
    prop_oneof![2 => -3i8..=3, 5 => prop_oneof![4i8..=8, -8i8..=-4]].boxed()
}

fn cfg_strategy() -> BoxedStrategy<CfgC> {
    let th = prop_oneof![
        2 => (0u16..=1000).prop_map(Th::Milli),
        1 => (0u8..=64).prop_map(Th::F64th),
        5 => nudge_code().prop_map(Th::True),
        2 => (sel(), nudge_code()).prop_map(|(s, c)| Th::Node(s, c)),
        3 => (0u8..12, nudge_code()).prop_map(|(j, c)| Th::TopJ(j, c)),
    ];
    let sm = || prop_oneof![2 => Just(Sm::Zero), 3 => (0u16..=1000).prop_map(Sm::Milli), 3 => (0u16..=60000).prop_map(Sm::Micro), 1 => Just(Sm::Huge)];
    let k_initial = prop_oneof![8 => 1u16..=3, 3 => 4u16..=12, 1 => 13u16..=80];
    let k_extra = prop_oneof![1 => Just(0u16), 6 => 1u16..=16, 2 => 17u16..=200, 1 => 200u16..=4000];
    let k_growth = prop_oneof![7 => 2u16..=4, 1 => 5u16..=100];
    let node_budget = prop_oneof![5 => Just(100_000u32), 3 => 2u32..=60, 2 => 60u32..=400];
    (th, any::<bool>(), sm(), sm(), k_initial, k_extra, k_growth, 1u32..=3_000_000_000, 1u32..=3_000_000_000, node_budget)
        .prop_map(|(th, cost_policy, band, floor, k_initial, k_extra, k_growth, topk_us, sdd_us, node_budget)| CfgC { th, cost_policy, band, floor, k_initial, k_extra, k_growth, topk_us, sdd_us, node_budget })
        .boxed()
}

fn case_strategy(tier: Tier) -> BoxedStrategy<Case> {
    let maxp = tier.pick(14usize, 24usize);
    let maxn = tier.pick(12usize, 20usize);
    let groups = prop_oneof![3 => Just(Vec::<Vec<u8>>::new()), 2 => vec(vec(0u8..=64, 0..=3), 1..=3)];
    (groups, prop_oneof![4 => Just(0u8), 3 => Just(1u8), 2 => Just(2u8)], any::<bool>())
        .prop_flat_map(|(groups, profile, roomy)| {
            let g: usize = groups.iter().map(|c| c.len() + 1).sum();
            // without groups at least 3 independent seeds (so that >= 3 proofs can exist), usually >= 6
            let lo = if g == 0 { if roomy { 6 } else { 3 } } else { 0 };
            (Just(groups), vec(p_strategy(profile), lo..=(MAX_SEEDS - g)))
        })
        .prop_flat_map(move |(groups, indep)| {
            let g: usize = groups.iter().map(|c| c.len() + 1).sum();
            let n = (g + indep.len()).max(1);
            let shape = prop_oneof![
                6 => dnf_shape(n, maxp),
                2 => layered_shape(n),
                2 => random_shape(maxn, false),
                2 => random_shape(maxn, true),
            ];
            let perm: Vec<u8> = (0..n as u8).collect();
            (
                (Just(groups), Just(indep), Just(perm).prop_shuffle(), 1u8..=3, 0u8..=2),
                shape,
                cfg_strategy(),
                prop_oneof![24 => Just(None), 1 => (0u8..INVALID_KINDS).prop_map(Some)],
                prop_oneof![2 => Just(100_000u32), 1 => 2u32..=80],
                vec(prop_oneof![8 => 1u16..=6, 3 => 7u16..=40, 1 => Just(0u16)], 1..=3),
                vec(sel(), 0..=3),
            )
        })
        .prop_map(|((groups, indep, id_perm, id_stride, id_off), nodes, cfg, invalid, compile_nodes, topk_ks, jump_sel)| Case {
            indep,
            groups,
            id_perm,
            id_stride,
            id_off,
            nodes,
            cfg,
            invalid,
            compile_nodes,
            topk_ks,
            jump_sel,
        })
        .boxed()
}

struct Dags;
impl Part for Dags {
    type Case = Case;
    fn name(&self) -> &'static str {
        "dags"
    }
    fn cases(&self, tier: Tier) -> u32 {
        tier.pick(2500, 40_000)
    }
    fn strategy(&self, tier: Tier) -> BoxedStrategy<Case> {
        case_strategy(tier)
    }
    fn check(&self, case: &Case) -> Outcome {
        run_case(case)
    }
}

// ------------------------------------------------------------------------------------------
// part `e2e`: Reasoner::infer_new_facts_with_hybrid on small acyclic rule programs
// ------------------------------------------------------------------------------------------

const NPRED: u8 = 6;

#[derive(Clone, Debug, Serialize, Deserialize, PartialEq)]
struct FactC {
    s: u8,
    p: u8,
    o: u8,
}

#[derive(Clone, Debug, Serialize, Deserialize, PartialEq)]
enum TermC {
    Var(u8),
    Const(u8),
}

#[derive(Clone, Debug, Serialize, Deserialize, PartialEq)]
struct PatC {
    s: TermC,
    p: u8,
    o: TermC,
}

#[derive(Clone, Debug, Serialize, Deserialize, PartialEq)]
struct RuleC {
    body: Vec<PatC>,
    head: PatC,
}

#[derive(Clone, Debug, Serialize, Deserialize)]
struct E2eCase {
    nconst: u8,
    certain: Vec<FactC>,
    indep: Vec<(FactC, P)>,
    /// exclusive groups: (fact, cut); member probabilities from the sorted cuts as in `Case::groups`
    groups: Vec<Vec<(FactC, u8)>>,
    rules: Vec<RuleC>,
    cfg: CfgC,
    /// threshold = true probability of the sel-th derived fact, nudged (None: use cfg.th Milli/F64th, else 0.5)
    th_fact: Option<(u16, i8)>,
    invalid: Option<u8>,
}

fn fact_index(nc: usize, f: &FactC) -> usize {
    ((f.p as usize % NPRED as usize) * nc + (f.s as usize % nc)) * nc + (f.o as usize % nc)
}

fn run_e2e(c: &E2eCase) -> Outcome {
    use datalog::reasoning::Reasoner;
    use shared::rule::Rule;
    use shared::terms::Term;

    let mut o = Outcome::new();
    let nc = (c.nconst as usize).clamp(1, 4);
    let universe = NPRED as usize * nc * nc; // <= 96 facts, one bit each
    let norm = |f: &FactC| FactC { s: f.s % nc as u8, p: f.p % NPRED, o: f.o % nc as u8 };

    // ---- seeds (a triple may carry several seeds; the engine disjoins them) --------------------
    let mut seed_fact: Vec<FactC> = vec![];
    let mut prob: Vec<f64> = vec![];
    let mut group_of: Vec<Option<usize>> = vec![];
    let mut members: Vec<Vec<usize>> = vec![];
    for (f, p) in c.indep.iter().take(8) {
        seed_fact.push(norm(f));
        prob.push(p.val());
        group_of.push(None);
    }
    for grp in c.groups.iter().take(2) {
        let m = grp.len().min(4);
        if m == 0 || seed_fact.len() + m > 10 {
            continue;
        }
        let mut cuts: Vec<u32> = grp.iter().take(m - 1).map(|(_, cut)| (*cut).min(64) as u32).collect();
        cuts.sort_unstable();
        cuts.push(64);
        let g = members.len();
        let mut mem = vec![];
        let mut prev = 0;
        for (i, cut) in cuts.iter().enumerate() {
            mem.push(seed_fact.len());
            seed_fact.push(norm(&grp[i].0));
            prob.push((cut - prev) as f64 / 64.0);
            group_of.push(Some(g));
            prev = *cut;
        }
        members.push(mem);
    }
    let n = seed_fact.len();
    let seeds = Seeds { n, prob: prob.clone(), group_of: group_of.clone(), members: members.clone(), raw_id: (0..n as u32).collect() };
    let w = world_weights(&seeds);
    let seed_bits: Vec<u128> = seed_fact.iter().map(|f| 1u128 << fact_index(nc, f)).collect();
    let all_seed_bits: u128 = seed_bits.iter().fold(0, |a, b| a | b);
    // certain facts never coincide with a seed triple (the engine would re-tag them as uncertain)
    let certain_bits: u128 = c.certain.iter().take(8).map(|f| 1u128 << fact_index(nc, &norm(f))).filter(|b| b & all_seed_bits == 0).fold(0, |a, b| a | b);

    // ---- rules: head variables must be bound by the body; layered predicates (no recursion) ---
    struct R {
        body: Vec<(TermC, u8, TermC)>,
        head: (TermC, u8, TermC),
    }
    let nt = |t: &TermC| match t {
        TermC::Var(v) => TermC::Var(*v % 3),
        TermC::Const(k) => TermC::Const(*k % nc as u8),
    };
    let mut rules: Vec<R> = vec![];
    for r in c.rules.iter().take(5) {
        if r.body.is_empty() {
            continue;
        }
        let body: Vec<(TermC, u8, TermC)> = r.body.iter().take(3).map(|p| (nt(&p.s), p.p % NPRED, nt(&p.o))).collect();
        let bound: Vec<u8> = body.iter().flat_map(|(s, _, o)| [s.clone(), o.clone()]).filter_map(|t| if let TermC::Var(v) = t { Some(v) } else { None }).collect();
        let ht = |t: &TermC| match nt(t) {
            TermC::Var(v) if !bound.contains(&v) => TermC::Const(v % nc as u8),
            x => x,
        };
        rules.push(R { body, head: (ht(&r.head.s), r.head.p % NPRED, ht(&r.head.o)) });
    }
    let layered = rules.iter().all(|r| r.body.iter().all(|b| b.1 < r.head.1));

    // ---- oracle: naive fixpoint in every world ---------------------------------------------------
    let val = |t: &TermC, env: &[usize; 3]| -> usize {
        match t {
            TermC::Var(v) => env[*v as usize],
            TermC::Const(k) => *k as usize,
        }
    };
    let bit = |p: u8, s: usize, ob: usize| -> u128 { 1u128 << ((p as usize * nc + s) * nc + ob) };
    let closure = |start: u128| -> u128 {
        let mut facts = start;
        loop {
            let before = facts;
            for r in &rules {
                for e in 0..nc * nc * nc {
                    let env = [e % nc, e / nc % nc, e / (nc * nc)];
                    if r.body.iter().all(|(s, p, ob)| facts & bit(*p, val(s, &env), val(ob, &env)) != 0) {
                        facts |= bit(r.head.1, val(&r.head.0, &env), val(&r.head.2, &env));
                    }
                }
            }
            if facts == before {
                return facts;
            }
        }
    };
    let mut p_fact = vec![0.0f64; universe];
    let mut table: Vec<Vec<bool>> = vec![vec![false; 1 << n]; universe];
    for a in 0..(1usize << n) {
        let mut start = certain_bits;
        for i in 0..n {
            if a >> i & 1 == 1 {
                start |= seed_bits[i];
            }
        }
        let cl = closure(start);
        for (u, pf) in p_fact.iter_mut().enumerate() {
            if cl >> u & 1 == 1 {
                table[u][a] = true;
                *pf += w[a];
            }
        }
    }
    let initial = certain_bits | all_seed_bits;
    let derived: Vec<usize> = (0..universe).filter(|u| initial >> u & 1 == 0 && table[*u].iter().any(|x| *x)).collect();
    let relevant_seeds = |u: usize| -> usize { (0..n).filter(|i| (0..(1usize << n)).any(|a| table[u][a] != table[u][a ^ (1 << i)])).count() };

    let th = match (&c.th_fact, &c.cfg.th) {
        (Some((s, code)), _) if !derived.is_empty() => nudge(p_fact[derived[pick_idx(*s, derived.len())]], *code),
        (_, Th::Milli(k)) => (*k).min(1000) as f64 / 1000.0,
        (_, Th::F64th(k)) => (*k).min(64) as f64 / 64.0,
        _ => 0.5,
    };
    let mut cfg = make_cfg(&c.cfg, th.clamp(0.0, 1.0));
    // the system clock is used on this path: budgets that cannot expire in practice (an expiry is accepted anyway)
    cfg.topk_budget = Duration::from_secs(20);
    cfg.sdd_budget = Duration::from_secs(20);
    let invalid_what = c.invalid.map(|code| invalidate(&mut cfg, code));
    if invalid_what.is_none() && cfg.validate().is_err() {
        o.skipped.push("config-rejected-by-validate");
        return o;
    }

    // ---- engine ----------------------------------------------------------------------------------
    let mut reasoner = Reasoner::new();
    let (const_ids, pred_ids): (Vec<u32>, Vec<u32>) = {
        let mut d = reasoner.dictionary.write().unwrap();
        ((0..nc).map(|i| d.encode(&format!("http://e/c{i}"))).collect(), (0..NPRED).map(|i| d.encode(&format!("http://e/p{i}"))).collect())
    };
    let triple_of = |u: usize| Triple { subject: const_ids[u / nc % nc], predicate: pred_ids[u / (nc * nc)], object: const_ids[u % nc] };
    let index_of = |t: &Triple| -> Option<usize> {
        let s = const_ids.iter().position(|x| *x == t.subject)?;
        let p = pred_ids.iter().position(|x| *x == t.predicate)?;
        let ob = const_ids.iter().position(|x| *x == t.object)?;
        Some((p * nc + s) * nc + ob)
    };
    for u in 0..universe {
        if certain_bits >> u & 1 == 1 {
            reasoner.insert_ground_triple(triple_of(u));
        }
    }
    let term = |t: &TermC| match t {
        TermC::Var(v) => Term::Variable(format!("x{v}")),
        TermC::Const(k) => Term::Constant(const_ids[*k as usize]),
    };
    for r in &rules {
        let rule = Rule {
            premise: r.body.iter().map(|(s, p, ob)| (term(s), Term::Constant(pred_ids[*p as usize]), term(ob))).collect(),
            negative_premise: vec![],
            filters: vec![],
            conclusion: vec![(term(&r.head.0), Term::Constant(pred_ids[r.head.1 as usize]), term(&r.head.2))],
        };
        if reasoner.try_add_rule(rule).is_err() {
            o.skipped.push("rule-rejected");
            return o;
        }
    }
    let mut specs = vec![];
    for i in 0..n {
        if group_of[i].is_none() {
            specs.push(SeedSpec::Independent { triple: triple_of(fact_index(nc, &seed_fact[i])), prob: prob[i], seed_id: i as u32 });
        }
    }
    for (g, mem) in members.iter().enumerate() {
        specs.push(SeedSpec::ExclusiveGroup {
            group_id: 70 + g as u32,
            choices: mem.iter().map(|i| ExclusiveChoice { triple: triple_of(fact_index(nc, &seed_fact[*i])), prob: prob[*i], choice_id: *i as u32 }).collect(),
        });
    }
    let snapshot = match SeedSnapshot::from_seed_specs(&specs) {
        Ok(s) => s,
        Err(_) => {
            o.skipped.push("snapshot-rejected");
            return o;
        }
    };
    let run = catch(|| reasoner.infer_new_facts_with_hybrid(snapshot, &cfg).map(|(facts, results, _)| (facts, results)));
    o.inner_evals += 1;
    let (new_facts, results) = match run {
        Err(site) => {
            o.panic("Reasoner::infer_new_facts_with_hybrid", &site);
            return o;
        }
        Ok(Err(_)) => {
            // invalid configuration / recursion rejected: no result, nothing certified
            o.class_if(invalid_what.is_some(), "e2e:invalid-config-rejected");
            o.class_if(invalid_what.is_none(), "e2e:err");
            return o;
        }
        Ok(Ok(x)) => x,
    };
    if let Some(what) = invalid_what {
        o.fail("c08.e2e.invalid_config_accepted", format!("invalid configuration ({what}) was accepted by infer_new_facts_with_hybrid"));
        return o;
    }
    o.class_if(!layered, "e2e:non-layered-accepted");
    let mut seen = 0u128;
    for (t, r) in &results {
        let Some(u) = index_of(t) else {
            o.skipped.push("result-for-triple-outside-universe");
            continue;
        };
        seen |= 1u128 << u;
        o.inner_evals += 1;
        let tp = p_fact[u];
        check_result(&mut o, "e2e", &format!("derived fact (c{} p{} c{})", u / nc % nc, u / (nc * nc), u % nc), r, tp, cfg.threshold);
        match r {
            HybridProbabilityResult::Exact { metrics, .. } if metrics.exact_used => o.class("e2e:Exact-by-sdd"),
            HybridProbabilityResult::Exact { .. } => o.class("e2e:Exact-by-topk"),
            HybridProbabilityResult::Bounded { .. } => o.class("e2e:Bounded"),
            HybridProbabilityResult::NeedsExact { .. } => o.class("e2e:NeedsExact"),
            _ => {}
        }
    }
    // completeness is C05/C06's subject; recorded as a class only
    o.class_if(derived.iter().any(|u| seen >> u & 1 == 0), "e2e:oracle-derived-fact-without-result");
    o.class_if(new_facts.len() != results.len(), "e2e:duplicate-new-facts");
    o.class_if(!members.is_empty(), "e2e:exclusive-group");
    o.class_if((0..n).any(|i| (0..i).any(|j| seed_fact[i] == seed_fact[j])), "e2e:several-seeds-one-triple");
    o.class_if((0..universe).any(|u| all_seed_bits >> u & 1 == 1 && (0..(1usize << n)).any(|a| table[u][a] && (0..n).all(|i| a >> i & 1 == 0 || fact_index(nc, &seed_fact[i]) != u))), "e2e:seed-fact-also-derivable");
    let deep = derived.iter().filter(|u| seen >> **u & 1 == 1).map(|u| relevant_seeds(*u)).max().unwrap_or(0);
    o.class_if(deep >= 2, "e2e:fact-depending-on>=2-seeds");
    o.class_if(deep >= 4, "e2e:fact-depending-on>=4-seeds");
    o.nontrivial = n >= 2 && derived.iter().any(|u| seen >> u & 1 == 1 && p_fact[*u] > 0.0 && p_fact[*u] < 1.0 && relevant_seeds(*u) >= 2);
    o
}

fn e2e_strategy(tier: Tier) -> BoxedStrategy<E2eCase> {
    let maxrules = tier.pick(4usize, 5usize);
    (prop_oneof![2 => Just(2u8), 3 => Just(3u8), 1 => Just(4u8)], prop_oneof![2 => Just(0u8), 1 => Just(1u8), 1 => Just(2u8)])
        .prop_flat_map(move |(nc, profile)| {
            let base_pred = || prop_oneof![8 => 0u8..2, 1 => 2u8..NPRED];
            let fact = move || (0..nc, base_pred(), 0..nc).prop_map(|(s, p, o)| FactC { s, p, o });
            let tm = move || prop_oneof![6 => (0u8..3).prop_map(TermC::Var), 1 => (0..nc).prop_map(TermC::Const)];
            let pat = move || (tm(), prop_oneof![5 => 0u8..2, 2 => 2u8..NPRED - 1], tm()).prop_map(|(s, p, o)| PatC { s, p, o });
            // head: terms chosen among the body's variables (selector) or a constant; predicate above all body predicates
            let rule = (vec(pat(), 1..=3), sel(), sel(), sel(), 0..nc, 0u8..4).prop_map(move |(body, hs, ho, hp, k, kind)| {
                let vars: Vec<u8> = body.iter().flat_map(|p| [p.s.clone(), p.o.clone()]).filter_map(|t| if let TermC::Var(v) = t { Some(v) } else { None }).collect();
                let pickv = |s: u16| if vars.is_empty() { TermC::Const(k) } else { TermC::Var(vars[pick_idx(s, vars.len())]) };
                let top = body.iter().map(|p| p.p).max().unwrap_or(0);
                let head_p = top + 1 + pick_idx(hp, (NPRED - 1 - top) as usize) as u8;
                let (s, o) = match kind {
                    0 => (TermC::Const(k), pickv(ho)),
                    1 => (pickv(hs), TermC::Const(k)),
                    _ => (pickv(hs), pickv(ho)),
                };
                RuleC { body, head: PatC { s, p: head_p, o } }
            });
            (
                Just(nc),
                vec(fact(), 0..=4),
                vec((fact(), p_strategy(profile)), 2..=7),
                vec(vec((fact(), 0u8..=64), 2..=3), 0..=1),
                vec(rule, 2..=maxrules),
                cfg_strategy(),
                prop_oneof![1 => Just(None), 2 => (sel(), nudge_code()).prop_map(Some)],
                prop_oneof![30 => Just(None), 1 => (0u8..INVALID_KINDS).prop_map(Some)],
            )
        })
        .prop_map(|(nconst, certain, indep, groups, rules, cfg, th_fact, invalid)| E2eCase { nconst, certain, indep, groups, rules, cfg, th_fact, invalid })
        .boxed()
}

struct E2e;
impl Part for E2e {
    type Case = E2eCase;
    fn name(&self) -> &'static str {
        "e2e"
    }
    fn cases(&self, tier: Tier) -> u32 {
        tier.pick(3000, 60_000)
    }
    fn strategy(&self, tier: Tier) -> BoxedStrategy<E2eCase> {
        e2e_strategy(tier)
    }
    fn check(&self, case: &E2eCase) -> Outcome {
        run_e2e(case)
    }
}

fn main() {
    let mut s = Session::start(
        "C08",
        "fault_enumeration",
        "Part `dags`: lineage DAGs over <= 12 seeds built with LineageStore::{literal,and,or,not} (or-of-conjunctions with a hub seed, subsumed proofs, long conjunctions and more cheap proofs than k; \
         and-of-disjunctions with shared sub-DAGs; random DAGs with and without `not`), seeds Independent (p in {k/16 incl. 0 and 1, k/1000, k*1e-7, 1-k*1e-7}) or members of ExclusiveGroups with dyadic probabilities summing to 1, \
         ids permuted/strided; HybridConfig drawn from its valid ranges (threshold also = true probability / a sub-formula's probability / the probability of the j best proofs, each nudged by 0, +-1 ulp, +-1e-13 .. +-0.1). \
         For every case: one run of evaluate_hybrid_with_clock with a counting clock that never expires gives R readings, then one run for EVERY n in 0..=R with a clock that jumps +1h after n readings \
         (inner evaluations; the 2-4% of cases with R > 2500 are swept at 400 evenly spaced n and counted under skipped_comparisons), a bounded two-jump sweep (top-k deadline at n1, SDD deadline at n2), a node-budget sweep 2..=nodes+2, the same every-n sweep for compile_lineage_to_sdd_with_clock, and evaluate_topk with ample budgets. \
         About 4% of the cases carry an invalid configuration (must give NeedsExact). Non-trivial = negation-free independent lineage with >= 3 minimal proofs two of which share a seed AND (k grew | cap_hit reported | an expiry strictly \
         inside the top-k phase forced the exact path); distinct = distinct case value. \
         Part `e2e`: Reasoner::infer_new_facts_with_hybrid (system clock, 20 s budgets) on acyclic positive rule programs (1-5 rules, 1-3 premises, 2-4 constants, 6 layered predicates) over certain facts, independent tagged facts, \
         several seeds on one triple and exclusive groups; every per-fact result is judged against world enumeration + naive fixpoint; non-trivial = some judged fact has 0 < P < 1 and depends on >= 2 seeds.",
    );
    s.assume("possible-worlds semantics: independent seed i is true with probability p_i; an ExclusiveGroup means EXACTLY ONE member is true, member i with probability p_i (probabilities of a group sum to 1) — this is what compile_lineage_to_sdd's exactly_one constraint with weights (p_i, 1.0) encodes and what the unit test exclusive_group_is_compiled_with_exactly_one_constraint expects");
    s.assume("oracle: truth table of the harness' own formula copy over all 2^n assignments, probability = explicit sum of world weights (f64); comparisons use |a-b| <= 1e-9*max(1,|a|,|b|), a decision is wrong only beyond that epsilon");
    s.assume("every seed referenced by the lineage is present in the snapshot (missing seeds have no defined probability); k_max <= 4096+80 (larger values only allocate); budgets are in (0, 1h) so that a 1h jump expires them");
    s.assume("the invalid-configuration rule (NeedsExact, never a decision) is taken from HybridConfig::validate and DESIGN.md, it is not part of the property sentence");
    s.assume("part e2e: rule programs are positive, filter-free, with constant layered predicates (head predicate above all body predicates) and head variables bound by the body; certain facts never coincide with a seed triple; the oracle is a naive fixpoint per world over a <= 96-fact universe; only facts that received a result are judged (completeness of the materialisation is C05/C06's subject)");
    // C08_PART=dags|e2e restricts a run to one part (debugging aid; the default runs both)
    let only = std::env::var("C08_PART").ok();
    if only.as_deref().map_or(true, |p| p == "dags") {
        s.run(&Dags);
    }
    if only.as_deref().map_or(true, |p| p == "e2e") {
        s.run(&E2e);
    }
    std::process::exit(s.finish());
}
