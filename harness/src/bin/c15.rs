//! C15 — term identifiers are a stable bijection, also across database union.
//!
//! Part `dict`: model-based operation sequences over ONE SparqlDatabase whose dictionary and quoted
//! triple store are driven through all three API levels (Dictionary::encode/decode/decode_term/merge,
//! QuotedTripleStore::encode/decode, SparqlDatabase::encode_term_star/decode_any) against an
//! id-level model (term -> id, id -> term, issue order).
//! Part `union`: pairs of independently built databases; the lexical dataset denoted by
//! `a.union(&b)` is compared with the set union of two lexical models that are built from the
//! operation lists alone (never from engine output).

use kolibrie::sparql_database::SparqlDatabase;
use kvh::engine::*;
use proptest::prelude::*;
use serde::{Deserialize, Serialize};
use shared::dataset_index::{GraphId, Quad};
use shared::dictionary::Dictionary;
use shared::quoted_triple_store::{is_quoted_triple_id, QuotedTripleStore, QUOTED_TRIPLE_ID_BIT};
use shared::triple::Triple;
use std::collections::{BTreeMap, BTreeSet, HashMap};

// ------------------------------------------------------------------------------------------
// string pool
// ------------------------------------------------------------------------------------------

/// ~30 lexical forms: plain names, IRIs, strings that look like identifiers (decimal ids, the
/// quoted-range boundary), unicode (precomposed vs decomposed must stay distinct), the empty string,
/// strings with significant blanks, and strings that look like the engine's own syntax.
const BASE_POOL: [&str; 30] = [
    "a",
    "b",
    "c",
    "p",
    "q",
    "A",
    "urn:x",
    "urn:y",
    "http://example.org/s",
    "http://example.org/p#q",
    "_:b0",
    "0",
    "1",
    "2",
    "31",
    "2147483648",
    "4294967295",
    "-1",
    "0x80000000",
    "\u{e9}",
    "\u{65e5}\u{672c}\u{8a9e}",
    "\u{1f600}",
    "e\u{301}",
    "",
    " a",
    "a ",
    "a b",
    "<a>",
    "\"a\"",
    "<< a b c >>",
];

/// The string pool: the 30 short strings above plus long terms (large literal payloads) whose lengths sit on and
/// around 1 KiB and 4 KiB — a dictionary must treat them like any other term.
fn pool() -> &'static [&'static str] {
    static P: std::sync::OnceLock<Vec<&'static str>> = std::sync::OnceLock::new();
    P.get_or_init(|| {
        let mut v: Vec<&'static str> = BASE_POOL.to_vec();
        for (n, c) in [(1023usize, 'k'), (1024, 'l'), (1025, 'm'), (1500, 'n'), (4097, 'w')] {
            let s: String = std::iter::once('L').chain(std::iter::repeat(c).take(n - 1)).collect();
            v.push(Box::leak(s.into_boxed_str()));
        }
        v
    })
}


/// Usable as a bare word or inside `<...>` in the `<< s p o >>` surface syntax of encode_term_star:
/// the documented normalisation (trim, strip <>, strip "") leaves exactly this string.
fn star_safe(s: &str) -> bool {
    !s.is_empty() && !s.chars().any(|c| c.is_whitespace() || matches!(c, '<' | '>' | '"' | '\\'))
}
/// Usable as the content of a `"..."` literal without needing escapes (top level).
fn lit_top_ok(s: &str) -> bool {
    !s.chars().any(|c| matches!(c, '"' | '\\'))
}
/// ... and inside a quoted triple (the component splitter is only specified for literals without
/// angle brackets; that is input syntax, not the property under test).
fn lit_nested_ok(s: &str) -> bool {
    lit_top_ok(s) && !s.chars().any(|c| matches!(c, '<' | '>'))
}
/// encode_term_star(raw) at top level stores exactly `raw.trim()` for these.
fn star_raw_ok(s: &str) -> bool {
    let t = s.trim();
    !t.starts_with('<') && !t.starts_with('"')
}

fn idx_where(f: fn(&str) -> bool) -> Vec<usize> {
    (0..pool().len()).filter(|i| f(pool()[*i])).collect()
}

#[derive(Clone, Copy, Debug, Serialize, Deserialize, PartialEq, Eq)]
enum Form {
    Bare,
    Iri,
    Lit,
}

/// Surface term handed to encode_term_star.
#[derive(Clone, Debug, Serialize, Deserialize, PartialEq)]
enum Tm {
    A(Form, usize),
    Q(Box<Tm>, Box<Tm>, Box<Tm>),
}

impl Tm {
    fn surface(&self) -> String {
        match self {
            Tm::A(Form::Bare, i) => pool()[*i].to_string(),
            Tm::A(Form::Iri, i) => format!("<{}>", pool()[*i]),
            Tm::A(Form::Lit, i) => format!("\"{}\"", pool()[*i]),
            Tm::Q(s, p, o) => format!("<< {} {} {} >>", s.surface(), p.surface(), o.surface()),
        }
    }
    fn depth(&self) -> u32 {
        match self {
            Tm::A(..) => 0,
            Tm::Q(s, p, o) => 1 + s.depth().max(p.depth()).max(o.depth()),
        }
    }
    /// same term, other spelling: bare <-> <iri> (literals stay)
    fn respell(&self) -> Tm {
        match self {
            Tm::A(Form::Bare, i) => Tm::A(Form::Iri, *i),
            Tm::A(Form::Iri, i) => Tm::A(Form::Bare, *i),
            Tm::A(Form::Lit, i) => Tm::A(Form::Lit, *i),
            Tm::Q(s, p, o) => Tm::Q(Box::new(s.respell()), Box::new(p.respell()), Box::new(o.respell())),
        }
    }
    fn lt(&self) -> LT {
        match self {
            Tm::A(_, i) => LT::P(pool()[*i].to_string()),
            Tm::Q(s, p, o) => LT::Q(Box::new((s.lt(), p.lt(), o.lt()))),
        }
    }
}

/// Lexical (id-free) term: what a database denotes.
#[derive(Clone, Debug, PartialEq, Eq, PartialOrd, Ord)]
enum LT {
    P(String),
    Q(Box<(LT, LT, LT)>),
}

impl LT {
    /// Rendering documented for Dictionary::decode_term / decode_any.
    fn render(&self) -> String {
        match self {
            LT::P(s) => s.clone(),
            LT::Q(b) => format!("<< {} {} {} >>", b.0.render(), b.1.render(), b.2.render()),
        }
    }
    fn collect_quoted(&self, into: &mut BTreeSet<LT>) {
        if let LT::Q(b) = self {
            into.insert(self.clone());
            b.0.collect_quoted(into);
            b.1.collect_quoted(into);
            b.2.collect_quoted(into);
        }
    }
    fn depth(&self) -> u32 {
        match self {
            LT::P(_) => 0,
            LT::Q(b) => 1 + b.0.depth().max(b.1.depth()).max(b.2.depth()),
        }
    }
}

/// `vocab`: pool indices the atoms may use (whole pool for part dict).
fn atom_strategy(vocab: &[usize], nested: bool) -> BoxedStrategy<Tm> {
    let safe: Vec<usize> = vocab.iter().copied().filter(|i| star_safe(pool()[*i])).collect();
    let lit: Vec<usize> = vocab.iter().copied().filter(|i| if nested { lit_nested_ok(pool()[*i]) } else { lit_top_ok(pool()[*i]) }).collect();
    assert!(!safe.is_empty());
    (0u8..6, sel())
        .prop_map(move |(f, s)| match f {
            0..=2 => Tm::A(Form::Bare, safe[pick_idx(s, safe.len())]),
            3 | 4 => Tm::A(Form::Iri, safe[pick_idx(s, safe.len())]),
            _ => {
                if lit.is_empty() {
                    Tm::A(Form::Bare, safe[pick_idx(s, safe.len())])
                } else {
                    Tm::A(Form::Lit, lit[pick_idx(s, lit.len())])
                }
            }
        })
        .boxed()
}

fn tm_strategy(vocab: &[usize], depth: u32, nested: bool, quoted_weight: u32) -> BoxedStrategy<Tm> {
    let atom = atom_strategy(vocab, nested);
    if depth == 0 {
        return atom;
    }
    let sub = tm_strategy(vocab, depth - 1, true, 2);
    let q = (sub.clone(), sub.clone(), sub).prop_map(|(a, b, c)| Tm::Q(Box::new(a), Box::new(b), Box::new(c)));
    prop_oneof![5 => atom, quoted_weight => q].boxed()
}

// ------------------------------------------------------------------------------------------
// part dict
// ------------------------------------------------------------------------------------------

#[derive(Clone, Debug, Serialize, Deserialize, PartialEq)]
enum IdSel {
    /// an issued plain id (by issue order)
    Plain(u16),
    /// an issued quoted id
    Quoted(u16),
    /// just past what has been issued so far: plain (even) / quoted (odd) range
    Near(u8),
    /// arbitrary number
    Raw(u32),
}

#[derive(Clone, Debug, Serialize, Deserialize, PartialEq)]
enum DOp {
    /// Dictionary::encode(pool()[i]) on the database's dictionary
    DictEnc(usize),
    /// Dictionary::decode / decode_term
    DictDec(IdSel),
    /// QuotedTripleStore::encode(s,p,o) on ids
    QtEnc(IdSel, IdSel, IdSel),
    QtDec(IdSel),
    /// SparqlDatabase::encode_term_star(surface syntax)
    Star(Tm),
    /// encode_term_star of the term of an earlier Star operation (selector over those), optionally with
    /// bare words and <iri> spellings swapped: the same term must get the same id again
    StarAgain(u16, bool),
    /// SparqlDatabase::encode_term_star(pool()[i]) for strings whose documented normalisation is trim()
    StarRaw(usize),
    DecodeAny(IdSel),
    /// fork the dictionary, encode these pool strings plus `fresh` new ones in the fork, Dictionary::merge it back
    MergeFork(Vec<usize>, u8),
    /// remember a copy of the dictionary ...
    Snapshot,
    /// ... and Dictionary::merge that (older, id-compatible) copy into the current one
    MergeOld,
}

#[derive(Clone, Debug, Serialize, Deserialize)]
struct DCase {
    ops: Vec<DOp>,
}

type Fail = (String, String);

#[derive(Default)]
struct IdModel {
    plain: HashMap<String, u32>,
    plain_rev: HashMap<u32, String>,
    plain_order: Vec<u32>,
    quoted: HashMap<(u32, u32, u32), u32>,
    quoted_rev: HashMap<u32, (u32, u32, u32)>,
    quoted_order: Vec<u32>,
    /// a known term was encoded again after newer terms had been issued
    reencoded_after_growth: bool,
}

impl IdModel {
    /// The engine says `s` has plain id `id`. Returns Ok(true) when the term is new.
    fn note_plain(&mut self, s: &str, id: u32, ctx: &str) -> Result<bool, Fail> {
        if is_quoted_triple_id(id) {
            return Err(("c15.dict.plain.range".into(), format!("{ctx}: plain term {:?} got id {id:#x} inside the quoted range (bit 31 set)", s)));
        }
        if let Some(k) = self.plain.get(s) {
            if *k != id {
                return Err(("c15.dict.plain.same_term_other_id".into(), format!("{ctx}: term {:?} was issued id {k} earlier and id {id} now", s)));
            }
            if self.plain_order.last() != Some(k) {
                self.reencoded_after_growth = true;
            }
            return Ok(false);
        }
        if let Some(t) = self.plain_rev.get(&id) {
            return Err(("c15.dict.plain.id_shared".into(), format!("{ctx}: new term {:?} got id {id}, which was issued earlier for the distinct term {:?}", s, t)));
        }
        self.plain.insert(s.to_string(), id);
        self.plain_rev.insert(id, s.to_string());
        self.plain_order.push(id);
        Ok(true)
    }

    fn note_quoted(&mut self, key: (u32, u32, u32), id: u32, ctx: &str) -> Result<bool, Fail> {
        if !is_quoted_triple_id(id) {
            return Err(("c15.dict.quoted.range".into(), format!("{ctx}: quoted triple {:?} got id {id:#x} outside the quoted range (bit 31 clear)", key)));
        }
        if let Some(k) = self.quoted.get(&key) {
            if *k != id {
                return Err(("c15.dict.quoted.same_term_other_id".into(), format!("{ctx}: quoted triple {:?} was issued id {k:#x} earlier and id {id:#x} now", key)));
            }
            if self.quoted_order.last() != Some(k) {
                self.reencoded_after_growth = true;
            }
            return Ok(false);
        }
        if let Some(t) = self.quoted_rev.get(&id) {
            return Err(("c15.dict.quoted.id_shared".into(), format!("{ctx}: new quoted triple {:?} got id {id:#x}, which was issued earlier for the distinct triple {:?}", key, t)));
        }
        self.quoted.insert(key, id);
        self.quoted_rev.insert(id, key);
        self.quoted_order.push(id);
        Ok(true)
    }

    /// Expected decode_any / decode_term rendering (None when a component is not a known id).
    fn render(&self, id: u32) -> Option<String> {
        if is_quoted_triple_id(id) {
            let (s, p, o) = *self.quoted_rev.get(&id)?;
            // components of a quoted id were issued before it: the recursion terminates
            Some(format!("<< {} {} {} >>", self.render(s)?, self.render(p)?, self.render(o)?))
        } else {
            self.plain_rev.get(&id).cloned()
        }
    }

    fn resolve(&self, sel: &IdSel) -> u32 {
        match sel {
            IdSel::Plain(s) => {
                if self.plain_order.is_empty() {
                    0
                } else {
                    self.plain_order[pick_idx(*s, self.plain_order.len())]
                }
            }
            IdSel::Quoted(s) => {
                if self.quoted_order.is_empty() {
                    QUOTED_TRIPLE_ID_BIT
                } else {
                    self.quoted_order[pick_idx(*s, self.quoted_order.len())]
                }
            }
            IdSel::Near(k) => {
                if k % 2 == 0 {
                    self.plain_order.len() as u32 + (*k as u32) / 2
                } else {
                    QUOTED_TRIPLE_ID_BIT + self.quoted_order.len() as u32 + (*k as u32) / 2
                }
            }
            IdSel::Raw(x) => *x,
        }
    }

    /// Component of a quoted triple handed to QuotedTripleStore::encode: any plain-range number or an
    /// ISSUED quoted id (an unissued quoted id could make the store cyclic, which no caller can produce).
    fn resolve_component(&self, sel: &IdSel) -> u32 {
        let id = self.resolve(sel);
        if is_quoted_triple_id(id) && !self.quoted_rev.contains_key(&id) {
            id & !QUOTED_TRIPLE_ID_BIT
        } else {
            id
        }
    }
}

struct DictState {
    db: SparqlDatabase,
    m: IdModel,
    snapshot: Option<Dictionary>,
    fresh_counter: u32,
    stars: Vec<Tm>,
}

impl DictState {
    /// Match the surface term against the id the engine returned, learning the ids of components.
    fn learn(&mut self, tm: &Tm, id: u32, ctx: &str) -> Result<(), Fail> {
        match tm {
            Tm::A(_, i) => {
                self.m.note_plain(pool()[*i], id, ctx)?;
                let got = self.db.dictionary.read().unwrap().decode(id).map(|s| s.to_string());
                if got.as_deref() != Some(pool()[*i]) {
                    return Err(("c15.dict.plain.roundtrip".into(), format!("{ctx}: decode(encode({:?})) = {:?} (id {id})", pool()[*i], got)));
                }
                Ok(())
            }
            Tm::Q(s, p, o) => {
                if !is_quoted_triple_id(id) {
                    return Err(("c15.dict.quoted.range".into(), format!("{ctx}: quoted term {} got id {id:#x} outside the quoted range", tm.surface())));
                }
                let comps = self.db.quoted_triple_store.read().unwrap().decode(id);
                let Some((si, pi, oi)) = comps else {
                    return Err(("c15.dict.quoted.roundtrip".into(), format!("{ctx}: QuotedTripleStore::decode({id:#x}) = None right after encoding {}", tm.surface())));
                };
                self.learn(s, si, ctx)?;
                self.learn(p, pi, ctx)?;
                self.learn(o, oi, ctx)?;
                self.m.note_quoted((si, pi, oi), id, ctx)?;
                Ok(())
            }
        }
    }

    fn check_decode_any(&self, id: u32, ctx: &str) -> Result<(), Fail> {
        let exp = self.m.render(id);
        let got = self.db.decode_any(id);
        if got != exp {
            return Err(("c15.dict.decode_any".into(), format!("{ctx}: decode_any({id:#x}) = {:?}, expected {:?}", got, exp)));
        }
        let got2 = {
            let d = self.db.dictionary.read().unwrap();
            let q = self.db.quoted_triple_store.read().unwrap();
            d.decode_term(id, &q)
        };
        if got2 != exp {
            return Err(("c15.dict.decode_term".into(), format!("{ctx}: Dictionary::decode_term({id:#x}) = {:?}, expected {:?}", got2, exp)));
        }
        Ok(())
    }

    /// Every id handed out so far still means the same term; probes of never-issued ids answer None.
    fn sweep(&self, step: usize, full_render: bool) -> Result<u64, Fail> {
        let mut n = 0u64;
        {
            let d = self.db.dictionary.read().unwrap();
            let q = self.db.quoted_triple_store.read().unwrap();
            for id in &self.m.plain_order {
                let exp = &self.m.plain_rev[id];
                n += 1;
                if d.decode(*id) != Some(exp.as_str()) {
                    return Err(("c15.dict.plain.stability".into(), format!("after step {step}: id {id} was issued for {:?} and now decodes to {:?}", exp, d.decode(*id))));
                }
                if d.string_to_id.get(exp.as_str()) != Some(id) {
                    return Err(("c15.dict.plain.stability_fwd".into(), format!("after step {step}: term {:?} was issued id {id}; the forward map now says {:?}", exp, d.string_to_id.get(exp.as_str()))));
                }
                if q.decode(*id).is_some() {
                    return Err(("c15.dict.quoted.phantom".into(), format!("after step {step}: QuotedTripleStore::decode({id}) of a plain id = {:?}", q.decode(*id))));
                }
            }
            for id in &self.m.quoted_order {
                let exp = self.m.quoted_rev[id];
                n += 1;
                if q.decode(*id) != Some(exp) {
                    return Err(("c15.dict.quoted.stability".into(), format!("after step {step}: quoted id {id:#x} was issued for {:?} and now decodes to {:?}", exp, q.decode(*id))));
                }
                if q.components_to_id.get(&exp) != Some(id) {
                    return Err(("c15.dict.quoted.stability_fwd".into(), format!("after step {step}: quoted triple {:?} was issued id {id:#x}; the forward map now says {:?}", exp, q.components_to_id.get(&exp))));
                }
                if d.decode(*id).is_some() {
                    return Err(("c15.dict.plain.phantom".into(), format!("after step {step}: Dictionary::decode({id:#x}) of a quoted id = {:?}", d.decode(*id))));
                }
            }
            // never-issued probes around the counters and at the range borders
            let np = self.m.plain_order.len() as u32;
            let nq = self.m.quoted_order.len() as u32;
            let probes = [np, np + 1, np + 7, np.wrapping_mul(2) + 3, 0x7fff_ffff, 0x7fff_fffe, QUOTED_TRIPLE_ID_BIT + nq, QUOTED_TRIPLE_ID_BIT + nq + 1, QUOTED_TRIPLE_ID_BIT + nq * 2 + 5, 0xffff_ffff];
            for id in probes {
                n += 1;
                if !self.m.plain_rev.contains_key(&id) && d.decode(id).is_some() {
                    return Err(("c15.dict.plain.phantom".into(), format!("after step {step}: Dictionary::decode({id:#x}) = {:?} but that id was never issued", d.decode(id))));
                }
                if !self.m.quoted_rev.contains_key(&id) && q.decode(id).is_some() {
                    return Err(("c15.dict.quoted.phantom".into(), format!("after step {step}: QuotedTripleStore::decode({id:#x}) = {:?} but that id was never issued", q.decode(id))));
                }
            }
        }
        // rendering through decode_any / decode_term: rotating window every step, everything at the end
        let all: Vec<u32> = self.m.plain_order.iter().chain(self.m.quoted_order.iter()).copied().collect();
        if full_render {
            for id in &all {
                n += 1;
                self.check_decode_any(*id, &format!("after step {step}"))?;
            }
        } else if !all.is_empty() {
            for k in 0..12usize.min(all.len()) {
                let id = all[(step * 12 + k) % all.len()];
                n += 1;
                self.check_decode_any(id, &format!("after step {step}"))?;
            }
        }
        Ok(n)
    }

    fn step(&mut self, i: usize, op: &DOp, out: &mut Outcome) -> Result<(), Fail> {
        let ctx = format!("step {i} {:?}", op);
        match op {
            DOp::DictEnc(p) => {
                let id = self.db.dictionary.write().unwrap().encode(pool()[*p]);
                self.m.note_plain(pool()[*p], id, &ctx)?;
                let got = self.db.dictionary.read().unwrap().decode(id).map(|s| s.to_string());
                if got.as_deref() != Some(pool()[*p]) {
                    return Err(("c15.dict.plain.roundtrip".into(), format!("{ctx}: decode(encode({:?})) = {:?} (id {id})", pool()[*p], got)));
                }
            }
            DOp::DictDec(sel) => {
                let id = self.m.resolve(sel);
                let exp = self.m.plain_rev.get(&id).cloned();
                let got = self.db.dictionary.read().unwrap().decode(id).map(|s| s.to_string());
                out.class_if(exp.is_none(), "decode-never-issued");
                if got != exp {
                    let sig = if exp.is_none() { "c15.dict.plain.phantom" } else { "c15.dict.plain.stability" };
                    return Err((sig.into(), format!("{ctx}: Dictionary::decode({id:#x}) = {:?}, expected {:?}", got, exp)));
                }
                self.check_decode_any(id, &ctx)?;
            }
            DOp::QtEnc(a, b, c) => {
                let key = (self.m.resolve_component(a), self.m.resolve_component(b), self.m.resolve_component(c));
                let id = self.db.quoted_triple_store.write().unwrap().encode(key.0, key.1, key.2);
                let fresh = self.m.note_quoted(key, id, &ctx)?;
                let got = self.db.quoted_triple_store.read().unwrap().decode(id);
                if got != Some(key) {
                    return Err(("c15.dict.quoted.roundtrip".into(), format!("{ctx}: decode(encode({:?})) = {:?} (id {id:#x})", key, got)));
                }
                out.class_if(fresh && (is_quoted_triple_id(key.0) || is_quoted_triple_id(key.1) || is_quoted_triple_id(key.2)), "qt-nested-by-id");
                out.class_if(self.m.render(id).is_none(), "qt-dangling-component");
                self.check_decode_any(id, &ctx)?;
            }
            DOp::QtDec(sel) => {
                let id = self.m.resolve(sel);
                let exp = self.m.quoted_rev.get(&id).copied();
                let got = self.db.quoted_triple_store.read().unwrap().decode(id);
                out.class_if(exp.is_none(), "decode-never-issued");
                if got != exp {
                    let sig = if exp.is_none() { "c15.dict.quoted.phantom" } else { "c15.dict.quoted.stability" };
                    return Err((sig.into(), format!("{ctx}: QuotedTripleStore::decode({id:#x}) = {:?}, expected {:?}", got, exp)));
                }
            }
            DOp::Star(tm) => {
                let text = tm.surface();
                let before = self.m.plain_order.len() + self.m.quoted_order.len();
                let id = self.db.encode_term_star(&text);
                self.learn(tm, id, &ctx)?;
                let after = self.m.plain_order.len() + self.m.quoted_order.len();
                let got = self.db.decode_any(id);
                let exp = tm.lt().render();
                if got.as_deref() != Some(exp.as_str()) {
                    return Err(("c15.dict.star.roundtrip".into(), format!("{ctx}: decode_any(encode_term_star({:?})) = {:?}, expected {:?}", text, got, exp)));
                }
                out.class_if(tm.depth() >= 2, "star-nested>=2");
                out.class_if(tm.depth() == 3, "star-nested=3");
                out.class_if(tm.depth() >= 1 && after == before, "star-quoted-fully-known");
                out.class_if(tm.depth() >= 1 && after > before && before > 0, "star-quoted-partly-new");
                self.stars.push(tm.clone());
            }
            DOp::StarAgain(k, swap) => {
                if !self.stars.is_empty() {
                    let orig = self.stars[pick_idx(*k, self.stars.len())].clone();
                    let tm = if *swap { orig.respell() } else { orig };
                    let text = tm.surface();
                    let before = self.m.plain_order.len() + self.m.quoted_order.len();
                    let id = self.db.encode_term_star(&text);
                    self.learn(&tm, id, &ctx)?;
                    let after = self.m.plain_order.len() + self.m.quoted_order.len();
                    if after != before {
                        // learn() accepted every id as known or new; "new" is impossible for a term encoded before
                        return Err(("c15.dict.star.same_term_other_id".into(), format!("{ctx}: encoding {:?} again issued {} new identifiers", text, after - before)));
                    }
                    out.class_if(tm.depth() >= 1, "star-quoted-again");
                    out.class_if(tm.depth() >= 1 && *swap, "star-quoted-again-respelled");
                }
            }
            DOp::StarRaw(p) => {
                let stored = pool()[*p].trim();
                let id = self.db.encode_term_star(pool()[*p]);
                self.m.note_plain(stored, id, &ctx)?;
                let got = self.db.decode_any(id);
                if got.as_deref() != Some(stored) {
                    return Err(("c15.dict.star.roundtrip".into(), format!("{ctx}: decode_any(encode_term_star({:?})) = {:?}, expected {:?}", pool()[*p], got, stored)));
                }
            }
            DOp::DecodeAny(sel) => {
                let id = self.m.resolve(sel);
                out.class_if(self.m.render(id).is_none(), "decode-never-issued");
                self.check_decode_any(id, &ctx)?;
            }
            DOp::MergeFork(extra, fresh) => {
                let mut fork: Dictionary = self.db.dictionary.read().unwrap().clone();
                let mut learned: Vec<(String, u32)> = vec![];
                for e in extra {
                    learned.push((pool()[*e].to_string(), fork.encode(pool()[*e])));
                }
                for _ in 0..*fresh {
                    self.fresh_counter += 1;
                    let s = format!("fresh-{}", self.fresh_counter);
                    let id = fork.encode(&s);
                    learned.push((s, id));
                }
                self.db.dictionary.write().unwrap().merge(&fork);
                let mut grew = false;
                for (s, id) in learned {
                    grew |= self.m.note_plain(&s, id, &ctx)?;
                }
                out.class_if(grew, "merge-fork-grew");
            }
            DOp::Snapshot => {
                self.snapshot = Some(self.db.dictionary.read().unwrap().clone());
            }
            DOp::MergeOld => {
                if let Some(old) = &self.snapshot {
                    let older = old.id_to_string.len() < self.m.plain_order.len();
                    self.db.dictionary.write().unwrap().merge(old);
                    out.class_if(older, "merge-older-snapshot");
                }
            }
        }
        Ok(())
    }

    /// End of the history: every term re-encodes to its id through every API level, nothing was added
    /// by that, and the stores hold exactly the issued ids.
    fn finale(&mut self) -> Result<u64, Fail> {
        let mut n = 0u64;
        for id in self.m.plain_order.clone() {
            let s = self.m.plain_rev[&id].clone();
            let got = self.db.dictionary.write().unwrap().encode(&s);
            n += 1;
            if got != id {
                return Err(("c15.dict.plain.same_term_other_id".into(), format!("finale: Dictionary::encode({:?}) = {got}, issued earlier as {id}", s)));
            }
            if star_raw_ok(&s) && s.trim() == s {
                let got = self.db.encode_term_star(&s);
                if got != id {
                    return Err(("c15.dict.plain.same_term_other_id".into(), format!("finale: encode_term_star({:?}) = {got}, issued earlier as {id}", s)));
                }
            }
        }
        for id in self.m.quoted_order.clone() {
            let k = self.m.quoted_rev[&id];
            let got = self.db.quoted_triple_store.write().unwrap().encode(k.0, k.1, k.2);
            n += 1;
            if got != id {
                return Err(("c15.dict.quoted.same_term_other_id".into(), format!("finale: QuotedTripleStore::encode{:?} = {got:#x}, issued earlier as {id:#x}", k)));
            }
        }
        let mut pk: Vec<u32> = self.db.dictionary.read().unwrap().id_to_string.keys().copied().collect();
        pk.sort_unstable();
        for id in &pk {
            if !self.m.plain_rev.contains_key(id) {
                return Err(("c15.dict.plain.phantom".into(), format!("finale: the dictionary decodes id {id:#x}, which was never issued")));
            }
        }
        let mut qk: Vec<u32> = self.db.quoted_triple_store.read().unwrap().id_to_components.keys().copied().collect();
        qk.sort_unstable();
        for id in &qk {
            if !self.m.quoted_rev.contains_key(id) {
                return Err(("c15.dict.quoted.phantom".into(), format!("finale: the quoted store decodes id {id:#x}, which was never issued")));
            }
        }
        if pk.len() != self.m.plain_order.len() || qk.len() != self.m.quoted_order.len() {
            return Err(("c15.dict.lost_ids".into(), format!("finale: {} plain / {} quoted ids issued, stores hold {} / {}", self.m.plain_order.len(), self.m.quoted_order.len(), pk.len(), qk.len())));
        }
        Ok(n)
    }
}

fn run_dict(c: &DCase) -> Outcome {
    let mut out = Outcome::new();
    let mut st = DictState { db: SparqlDatabase::new(), m: IdModel::default(), snapshot: None, fresh_counter: 0, stars: vec![] };
    let mut quoted_encodes = 0;
    for (i, op) in c.ops.iter().enumerate() {
        match catch(|| st.step(i, op, &mut out)) {
            Err(site) => {
                out.panic(&format!("step {i} {:?}", op), &site);
                return out;
            }
            Ok(Err((sig, d))) => {
                out.fail(sig, d);
                return out;
            }
            Ok(Ok(())) => {}
        }
        if matches!(op, DOp::QtEnc(..)) || matches!(op, DOp::Star(t) if t.depth() >= 1) || matches!(op, DOp::StarAgain(..)) {
            quoted_encodes += 1;
        }
        match catch(|| st.sweep(i, i + 1 == c.ops.len())) {
            Err(site) => {
                out.panic(&format!("re-check after step {i} {:?}", op), &site);
                return out;
            }
            Ok(Err((sig, d))) => {
                out.fail(sig, format!("{d} (last operation: {:?})", op));
                return out;
            }
            Ok(Ok(n)) => out.inner_evals += n,
        }
    }
    match catch(|| st.finale()) {
        Err(site) => {
            out.panic("finale", &site);
            return out;
        }
        Ok(Err((sig, d))) => {
            out.fail(sig, d);
            return out;
        }
        Ok(Ok(n)) => out.inner_evals += n,
    }
    out.nontrivial = st.m.reencoded_after_growth && quoted_encodes > 0;
    out.class_if(st.m.reencoded_after_growth, "reencode-after-growth");
    out.class_if(st.m.plain_order.len() >= 25, "plain>=25");
    out.class_if(st.m.quoted_order.len() >= 20, "quoted>=20");
    let has = |f: &dyn Fn(&DOp) -> bool| c.ops.iter().any(|o| f(o));
    out.class_if(has(&|o| matches!(o, DOp::MergeFork(..))), "merge-fork");
    out.class_if(has(&|o| matches!(o, DOp::DictEnc(p) if pool()[*p].is_empty())), "empty-string");
    out.class_if(has(&|o| matches!(o, DOp::DictEnc(p) if pool()[*p].parse::<i64>().is_ok())), "looks-like-id");
    out.class_if(st.m.plain.contains_key("\u{e9}") && st.m.plain.contains_key("e\u{301}"), "unicode-nfc-nfd-pair");
    out.class_if(st.m.plain.contains_key("a") && st.m.plain.contains_key("a ") || st.m.plain.contains_key("a") && st.m.plain.contains_key(" a"), "blank-variants");
    out
}

struct DictPart;
impl Part for DictPart {
    type Case = DCase;
    fn name(&self) -> &'static str {
        "dict"
    }
    fn cases(&self, tier: Tier) -> u32 {
        tier.pick(15_000, 100_000)
    }
    fn strategy(&self, tier: Tier) -> BoxedStrategy<DCase> {
        let all: Vec<usize> = (0..pool().len()).collect();
        let raw_ok = idx_where(star_raw_ok);
        let idsel = prop_oneof![
            4 => sel().prop_map(IdSel::Plain),
            4 => sel().prop_map(IdSel::Quoted),
            2 => (0u8..12).prop_map(IdSel::Near),
            1 => prop_oneof![Just(0u32), Just(1), Just(0x7fff_ffff), Just(0x8000_0000), Just(0xffff_ffff), any::<u32>()].prop_map(IdSel::Raw),
        ];
        let tm = tm_strategy(&all, 3, false, 5);
        let op = prop_oneof![
            6 => sel().prop_map(|s| DOp::DictEnc(pick_idx(s, pool().len()))),
            2 => idsel.clone().prop_map(DOp::DictDec),
            5 => (idsel.clone(), idsel.clone(), idsel.clone()).prop_map(|(a, b, c)| DOp::QtEnc(a, b, c)),
            2 => idsel.clone().prop_map(DOp::QtDec),
            6 => tm.prop_map(DOp::Star),
            3 => (sel(), any::<bool>()).prop_map(|(k, w)| DOp::StarAgain(k, w)),
            2 => sel().prop_map(move |s| DOp::StarRaw(raw_ok[pick_idx(s, raw_ok.len())])),
            2 => idsel.prop_map(DOp::DecodeAny),
            1 => (proptest::collection::vec(sel().prop_map(|s| pick_idx(s, pool().len())), 0..4), 0u8..3).prop_map(|(e, f)| DOp::MergeFork(e, f)),
            1 => Just(DOp::Snapshot),
            1 => Just(DOp::MergeOld),
        ];
        let maxlen = tier.pick(120usize, 300usize);
        proptest::collection::vec(op, 1..=maxlen).prop_map(|ops| DCase { ops }).boxed()
    }
    fn check(&self, case: &DCase) -> Outcome {
        run_dict(case)
    }
}

// ------------------------------------------------------------------------------------------
// part union
// ------------------------------------------------------------------------------------------

#[derive(Clone, Debug, Serialize, Deserialize, PartialEq)]
enum UOp {
    /// add_triple_parts(raw, raw, raw): strings stored as given
    TripleParts(usize, usize, usize),
    /// add_quad_parts(surface, surface, surface, raw graph name)
    QuadParts(Tm, Tm, Tm, usize),
    /// encode_term_star x3 + add_triple (default graph)
    StarTriple(Tm, Tm, Tm),
    /// encode_term_star x3 + Dictionary::encode(graph name) + add_quad
    StarQuad(Tm, Tm, Tm, usize),
    /// dataset_index.create_graph(Named(dictionary id of the name)): graph that may stay empty
    CreateGraph(usize),
    /// add_tagged_triple(raw, raw, raw, prob(lexical triple))
    Tagged(usize, usize, usize),
    /// encode_term_star x3 + add_triple + probability_seeds.insert
    TaggedStar(Tm, Tm, Tm),
    /// encode_term_star only: a quoted term no quad refers to
    EncodeOnly(Tm),
    /// Dictionary::encode only: shifts the identifiers of everything that follows
    EncodeRaw(usize),
}

#[derive(Clone, Debug, Serialize, Deserialize)]
struct UCase {
    a: Vec<UOp>,
    b: Vec<UOp>,
}

/// Lexical dataset.
#[derive(Default, Clone, Debug, PartialEq, Eq)]
struct Lex {
    quads: BTreeSet<(Option<String>, LT, LT, LT)>,
    named: BTreeSet<String>,
    seeds: BTreeMap<(LT, LT, LT), u64>,
    quoted: BTreeSet<LT>,
}

impl Lex {
    fn union(&self, o: &Lex) -> Lex {
        let mut r = self.clone();
        r.quads.extend(o.quads.iter().cloned());
        r.named.extend(o.named.iter().cloned());
        for (k, v) in &o.seeds {
            r.seeds.insert(k.clone(), *v);
        }
        r.quoted.extend(o.quoted.iter().cloned());
        r
    }
}

fn fnv64(s: &str) -> u64 {
    let mut h: u64 = 0xcbf29ce484222325;
    for b in s.as_bytes() {
        h ^= *b as u64;
        h = h.wrapping_mul(0x100000001b3);
    }
    h
}

/// The probability of a tagged triple is a function of the lexical triple, so the two sides (and
/// repeated tags on one side) can never disagree about it.
fn prob_of(s: &LT, p: &LT, o: &LT) -> f64 {
    const P: [f64; 7] = [0.05, 0.125, 0.25, 0.5, 0.75, 0.9, 1.0];
    let h = fnv64(&format!("{:?}|{:?}|{:?}", s, p, o));
    P[(h % 7) as usize]
}

fn raw(i: usize) -> LT {
    LT::P(pool()[i].to_string())
}

fn note_tm(m: &mut Lex, t: &Tm) -> LT {
    let l = t.lt();
    l.collect_quoted(&mut m.quoted);
    l
}

fn apply(db: &mut SparqlDatabase, m: &mut Lex, op: &UOp) {
    match op {
        UOp::TripleParts(s, p, o) => {
            db.add_triple_parts(pool()[*s], pool()[*p], pool()[*o]);
            m.quads.insert((None, raw(*s), raw(*p), raw(*o)));
        }
        UOp::QuadParts(s, p, o, g) => {
            db.add_quad_parts(&s.surface(), &p.surface(), &o.surface(), pool()[*g]);
            let (ls, lp, lo) = (note_tm(m, s), note_tm(m, p), note_tm(m, o));
            m.quads.insert((Some(pool()[*g].to_string()), ls, lp, lo));
            m.named.insert(pool()[*g].to_string());
        }
        UOp::StarTriple(s, p, o) => {
            let t = Triple { subject: db.encode_term_star(&s.surface()), predicate: db.encode_term_star(&p.surface()), object: db.encode_term_star(&o.surface()) };
            db.add_triple(t);
            let (ls, lp, lo) = (note_tm(m, s), note_tm(m, p), note_tm(m, o));
            m.quads.insert((None, ls, lp, lo));
        }
        UOp::StarQuad(s, p, o, g) => {
            let (si, pi, oi) = (db.encode_term_star(&s.surface()), db.encode_term_star(&p.surface()), db.encode_term_star(&o.surface()));
            let gi = db.dictionary.write().unwrap().encode(pool()[*g]);
            db.add_quad(Quad { subject: si, predicate: pi, object: oi, graph: GraphId::Named(gi) });
            let (ls, lp, lo) = (note_tm(m, s), note_tm(m, p), note_tm(m, o));
            m.quads.insert((Some(pool()[*g].to_string()), ls, lp, lo));
            m.named.insert(pool()[*g].to_string());
        }
        UOp::CreateGraph(g) => {
            let gi = db.dictionary.write().unwrap().encode(pool()[*g]);
            db.dataset_index.create_graph(GraphId::Named(gi));
            m.named.insert(pool()[*g].to_string());
        }
        UOp::Tagged(s, p, o) => {
            let pr = prob_of(&raw(*s), &raw(*p), &raw(*o));
            db.add_tagged_triple(pool()[*s], pool()[*p], pool()[*o], pr);
            m.quads.insert((None, raw(*s), raw(*p), raw(*o)));
            m.seeds.insert((raw(*s), raw(*p), raw(*o)), pr.to_bits());
        }
        UOp::TaggedStar(s, p, o) => {
            let t = Triple { subject: db.encode_term_star(&s.surface()), predicate: db.encode_term_star(&p.surface()), object: db.encode_term_star(&o.surface()) };
            let (ls, lp, lo) = (note_tm(m, s), note_tm(m, p), note_tm(m, o));
            let pr = prob_of(&ls, &lp, &lo);
            db.add_triple(t.clone());
            db.probability_seeds.insert(t, pr);
            m.quads.insert((None, ls.clone(), lp.clone(), lo.clone()));
            m.seeds.insert((ls, lp, lo), pr.to_bits());
        }
        UOp::EncodeOnly(t) => {
            db.encode_term_star(&t.surface());
            note_tm(m, t);
        }
        UOp::EncodeRaw(i) => {
            db.dictionary.write().unwrap().encode(pool()[*i]);
        }
    }
}

/// Structural decode of an id through Dictionary::decode / QuotedTripleStore::decode.
fn lt_of(d: &Dictionary, q: &QuotedTripleStore, id: u32, fuel: u32) -> Result<LT, String> {
    if is_quoted_triple_id(id) {
        if fuel == 0 {
            return Err(format!("quoted id {id:#x}: nesting deeper than 12 (cyclic store?)"));
        }
        let (s, p, o) = q.decode(id).ok_or_else(|| format!("quoted id {id:#x} is not in the quoted triple store"))?;
        Ok(LT::Q(Box::new((lt_of(d, q, s, fuel - 1)?, lt_of(d, q, p, fuel - 1)?, lt_of(d, q, o, fuel - 1)?))))
    } else {
        d.decode(id).map(|s| LT::P(s.to_string())).ok_or_else(|| format!("id {id} is not in the dictionary"))
    }
}

/// What the database denotes, read through decode; `who` names the database in messages.
/// Also checks that decode_any renders every id exactly as the structural decode does.
fn extract(db: &SparqlDatabase, who: &str) -> Result<Lex, Fail> {
    let d: Dictionary = db.dictionary.read().unwrap().clone();
    let q: QuotedTripleStore = db.quoted_triple_store.read().unwrap().clone();
    let mut lex = Lex::default();
    let term = |id: u32, what: &str| -> Result<LT, Fail> {
        let l = lt_of(&d, &q, id, 12).map_err(|e| ("c15.union.undecodable".to_string(), format!("{who}: {what}: {e}")))?;
        let r = db.decode_any(id);
        if r.as_deref() != Some(l.render().as_str()) {
            return Err(("c15.union.decode_any".into(), format!("{who}: {what}: decode_any({id:#x}) = {:?}, structural decode renders {:?}", r, l.render())));
        }
        Ok(l)
    };
    let gname = |g: u32, what: &str| -> Result<String, Fail> {
        if is_quoted_triple_id(g) {
            return Err(("c15.union.graph_name".into(), format!("{who}: {what}: graph id {g:#x} lies in the quoted range")));
        }
        let s = d.decode(g).map(|s| s.to_string()).ok_or_else(|| ("c15.union.undecodable".to_string(), format!("{who}: {what}: graph id {g} is not in the dictionary")))?;
        if db.decode_any(g).as_deref() != Some(s.as_str()) {
            return Err(("c15.union.decode_any".into(), format!("{who}: {what}: decode_any({g}) = {:?}, dictionary says {:?}", db.decode_any(g), s)));
        }
        Ok(s)
    };
    for quad in db.dataset_index.all_quads() {
        let what = format!("quad {:?}", quad);
        let g = match quad.graph {
            GraphId::Default => None,
            GraphId::Named(g) => Some(gname(g, &what)?),
        };
        lex.quads.insert((g, term(quad.subject, &what)?, term(quad.predicate, &what)?, term(quad.object, &what)?));
    }
    for g in db.dataset_index.named_graphs() {
        if let GraphId::Named(g) = g {
            lex.named.insert(gname(g, "named graph catalog")?);
        }
    }
    let mut seeds: Vec<(&Triple, &f64)> = db.probability_seeds.iter().collect();
    seeds.sort_by(|x, y| x.0.cmp(y.0));
    for (t, pr) in seeds {
        let what = format!("probability seed {:?}", t);
        let key = (term(t.subject, &what)?, term(t.predicate, &what)?, term(t.object, &what)?);
        if let Some(old) = lex.seeds.insert(key.clone(), pr.to_bits()) {
            if old != pr.to_bits() {
                return Err(("c15.union.seed_duplicate".into(), format!("{who}: two seed entries denote the same lexical triple {:?} with different probabilities", key)));
            }
        }
    }
    let mut qids: Vec<u32> = q.id_to_components.keys().copied().collect();
    qids.sort_unstable();
    for id in qids {
        let l = term(id, "quoted triple store entry")?;
        if !lex.quoted.insert(l.clone()) {
            return Err(("c15.union.quoted_duplicate".into(), format!("{who}: two quoted ids denote the same quoted triple {}", l.render())));
        }
    }
    Ok(lex)
}

/// The dictionary / quoted store of `db` are bijections with disjoint ranges, and stay so when new
/// terms arrive (checked on copies).
fn check_bijection(db: &SparqlDatabase, who: &str) -> Result<(), Fail> {
    let d: Dictionary = db.dictionary.read().unwrap().clone();
    let q: QuotedTripleStore = db.quoted_triple_store.read().unwrap().clone();
    let sig = |s: &str| format!("c15.union.bijection.{s}");
    let mut fwd: Vec<(&String, &u32)> = d.string_to_id.iter().collect();
    fwd.sort();
    let mut seen: BTreeMap<u32, &String> = BTreeMap::new();
    for (s, id) in fwd {
        if is_quoted_triple_id(*id) {
            return Err((sig("range"), format!("{who}: plain term {:?} has id {id:#x} in the quoted range", s)));
        }
        if let Some(t) = seen.insert(*id, s) {
            return Err((sig("id_shared"), format!("{who}: distinct terms {:?} and {:?} share id {id}", t, s)));
        }
        if d.decode(*id) != Some(s.as_str()) {
            return Err((sig("roundtrip"), format!("{who}: term {:?} encodes to {id} but {id} decodes to {:?}", s, d.decode(*id))));
        }
    }
    let mut back: Vec<(&u32, &String)> = d.id_to_string.iter().collect();
    back.sort();
    for (id, s) in back {
        if d.string_to_id.get(s.as_str()) != Some(id) {
            return Err((sig("roundtrip"), format!("{who}: id {id} decodes to {:?} but that term encodes to {:?}", s, d.string_to_id.get(s.as_str()))));
        }
    }
    let mut qf: Vec<(&(u32, u32, u32), &u32)> = q.components_to_id.iter().collect();
    qf.sort();
    let mut qseen: BTreeMap<u32, (u32, u32, u32)> = BTreeMap::new();
    for (k, id) in qf {
        if !is_quoted_triple_id(*id) {
            return Err((sig("range"), format!("{who}: quoted triple {:?} has id {id:#x} outside the quoted range", k)));
        }
        if let Some(t) = qseen.insert(*id, *k) {
            return Err((sig("id_shared"), format!("{who}: distinct quoted triples {:?} and {:?} share id {id:#x}", t, k)));
        }
        if q.decode(*id) != Some(*k) {
            return Err((sig("roundtrip"), format!("{who}: quoted triple {:?} encodes to {id:#x} but that decodes to {:?}", k, q.decode(*id))));
        }
    }
    let mut qb: Vec<(&u32, &(u32, u32, u32))> = q.id_to_components.iter().collect();
    qb.sort();
    for (id, k) in qb {
        if q.components_to_id.get(k) != Some(id) {
            return Err((sig("roundtrip"), format!("{who}: quoted id {id:#x} decodes to {:?} but that triple encodes to {:?}", k, q.components_to_id.get(k))));
        }
    }
    // future terms do not steal identifiers (copies; the database itself is not touched)
    let mut d2 = d.clone();
    let mut q2 = q.clone();
    let mut fresh_ids = vec![];
    for k in 0..3 {
        let s = format!("\u{1}never-used-{k}");
        let id = d2.encode(&s);
        if d.id_to_string.contains_key(&id) || is_quoted_triple_id(id) || fresh_ids.contains(&id) {
            return Err((sig("fresh_id_reused"), format!("{who}: a new term encoded after the fact got id {id:#x}, which already denotes {:?}", d.decode(id))));
        }
        fresh_ids.push(id);
    }
    let mut fresh_q = vec![];
    for k in 0..3u32 {
        let id = q2.encode(fresh_ids[0], fresh_ids[1], fresh_ids[(k % 3) as usize]);
        if q.id_to_components.contains_key(&id) || !is_quoted_triple_id(id) || fresh_q.contains(&id) {
            return Err((sig("fresh_id_reused"), format!("{who}: a new quoted triple encoded after the fact got id {id:#x}, which already denotes {:?}", q.decode(id))));
        }
        fresh_q.push(id);
    }
    for (id, s) in d.id_to_string.iter() {
        if d2.decode(*id) != Some(s.as_str()) {
            return Err((sig("fresh_id_reused"), format!("{who}: id {id} changed from {:?} to {:?} when new terms arrived", s, d2.decode(*id))));
        }
    }
    Ok(())
}

fn diff<T: Ord + Clone + std::fmt::Debug>(exp: &BTreeSet<T>, got: &BTreeSet<T>) -> Option<String> {
    if exp == got {
        return None;
    }
    let missing: Vec<&T> = exp.difference(got).take(3).collect();
    let invented: Vec<&T> = got.difference(exp).take(3).collect();
    Some(format!("missing {:?}; invented {:?} ({} expected, {} present)", missing, invented, exp.len(), got.len()))
}

fn compare(exp: &Lex, got: &Lex, prefix: &str, what: &str) -> Result<(), Fail> {
    if let Some(d) = diff(&exp.quads, &got.quads) {
        return Err((format!("{prefix}.quads"), format!("{what}: lexical quads differ: {d}")));
    }
    if let Some(d) = diff(&exp.named, &got.named) {
        return Err((format!("{prefix}.graphs"), format!("{what}: named graph identities differ: {d}")));
    }
    let es: BTreeSet<_> = exp.seeds.iter().map(|(k, v)| (k.clone(), *v)).collect();
    let gs: BTreeSet<_> = got.seeds.iter().map(|(k, v)| (k.clone(), *v)).collect();
    if let Some(d) = diff(&es, &gs) {
        return Err((format!("{prefix}.seeds"), format!("{what}: lexical probability seeds (probability as bits) differ: {d}")));
    }
    if let Some(d) = diff(&exp.quoted, &got.quoted) {
        return Err((format!("{prefix}.quoted"), format!("{what}: quoted terms differ: {d}")));
    }
    Ok(())
}

/// Every id `before` knew still means the same in `db`.
fn ids_stable(before_d: &Dictionary, before_q: &QuotedTripleStore, db: &SparqlDatabase, who: &str) -> Result<(), Fail> {
    let d = db.dictionary.read().unwrap();
    let q = db.quoted_triple_store.read().unwrap();
    let mut ids: Vec<(&u32, &String)> = before_d.id_to_string.iter().collect();
    ids.sort();
    for (id, s) in ids {
        if d.decode(*id) != Some(s.as_str()) {
            return Err(("c15.union.operand_ids_changed".into(), format!("{who}: id {id} meant {:?} before union and {:?} after", s, d.decode(*id))));
        }
    }
    let mut qs: Vec<(&u32, &(u32, u32, u32))> = before_q.id_to_components.iter().collect();
    qs.sort();
    for (id, k) in qs {
        if q.decode(*id) != Some(*k) {
            return Err(("c15.union.operand_ids_changed".into(), format!("{who}: quoted id {id:#x} meant {:?} before union and {:?} after", k, q.decode(*id))));
        }
    }
    Ok(())
}

/// Re-encode a lexical term structurally through the public encoders of `db`.
fn reencode(db: &SparqlDatabase, t: &LT) -> u32 {
    match t {
        LT::P(s) => db.dictionary.write().unwrap().encode(s),
        LT::Q(b) => {
            let (s, p, o) = (reencode(db, &b.0), reencode(db, &b.1), reencode(db, &b.2));
            db.quoted_triple_store.write().unwrap().encode(s, p, o)
        }
    }
}

fn run_union(c: &UCase) -> Outcome {
    let mut out = Outcome::new();
    let r = catch(|| -> Result<(), Fail> {
        let mut a = SparqlDatabase::new();
        let mut b = SparqlDatabase::new();
        let mut ma = Lex::default();
        let mut mb = Lex::default();
        for op in &c.a {
            apply(&mut a, &mut ma, op);
        }
        for op in &c.b {
            apply(&mut b, &mut mb, op);
        }
        // the operands denote what the operation lists say (this is oracle A seen through the database API)
        let la = extract(&a, "a")?;
        let lb = extract(&b, "b")?;
        compare(&ma, &la, "c15.build", "database a after building vs its model")?;
        compare(&mb, &lb, "c15.build", "database b after building vs its model")?;
        check_bijection(&a, "a")?;
        check_bijection(&b, "b")?;
        out.inner_evals += 2;

        let (da, qa) = (a.dictionary.read().unwrap().clone(), a.quoted_triple_store.read().unwrap().clone());
        let (dbb, qb) = (b.dictionary.read().unwrap().clone(), b.quoted_triple_store.read().unwrap().clone());

        // --- generator quality / non-triviality (DESIGN: dictionaries disagree on >=1 id, both sides have a quoted triple or named graph)
        let mut clash = false;
        let mut ids: Vec<&u32> = da.id_to_string.keys().collect();
        ids.sort();
        for id in ids {
            if let Some(t) = dbb.decode(*id) {
                if t != da.id_to_string[id] {
                    clash = true;
                }
            }
        }
        let mut same_term_other_id = false;
        let mut strs: Vec<(&String, &u32)> = da.string_to_id.iter().collect();
        strs.sort();
        for (s, id) in strs {
            if let Some(j) = dbb.string_to_id.get(s.as_str()) {
                if j != id {
                    same_term_other_id = true;
                }
            }
        }
        let mut qclash = false;
        let mut qids: Vec<&u32> = qa.id_to_components.keys().collect();
        qids.sort();
        for id in qids {
            if qb.id_to_components.contains_key(id) {
                let x = lt_of(&da, &qa, *id, 12);
                let y = lt_of(&dbb, &qb, *id, 12);
                if x.is_ok() && y.is_ok() && x != y {
                    qclash = true;
                }
            }
        }
        let structured = |m: &Lex| !m.quoted.is_empty() || !m.named.is_empty();
        out.nontrivial = (clash || same_term_other_id || qclash) && structured(&ma) && structured(&mb);
        out.class_if(clash, "plain-id-means-different-terms");
        out.class_if(same_term_other_id, "same-term-different-ids");
        out.class_if(qclash, "quoted-id-means-different-terms");
        out.class_if(!ma.quoted.is_empty() && !mb.quoted.is_empty(), "quoted-both-sides");
        out.class_if(ma.quoted.iter().chain(mb.quoted.iter()).any(|t| t.depth() >= 2), "quoted-nested>=2");
        out.class_if(ma.quoted.intersection(&mb.quoted).next().is_some(), "shared-quoted-term");
        let empty_graphs = |m: &Lex| m.named.iter().filter(|g| !m.quads.iter().any(|q| q.0.as_ref() == Some(*g))).cloned().collect::<BTreeSet<String>>();
        let (ea, eb) = (empty_graphs(&ma), empty_graphs(&mb));
        out.class_if(!eb.is_empty(), "empty-graph-in-b");
        out.class_if(!ea.is_empty(), "empty-graph-in-a");
        out.class_if(eb.iter().any(|g| !ma.named.contains(g)), "empty-graph-only-in-b");
        out.class_if(ma.quads.intersection(&mb.quads).next().is_some(), "shared-quad");
        out.class_if(!ma.seeds.is_empty() && !mb.seeds.is_empty(), "seeds-both-sides");
        out.class_if(ma.seeds.keys().any(|k| mb.seeds.contains_key(k)), "shared-seed");
        out.class_if(ma.seeds.keys().chain(mb.seeds.keys()).any(|k| k.0.depth() + k.1.depth() + k.2.depth() > 0), "seed-with-quoted");
        let referenced = |m: &Lex| {
            let mut r = BTreeSet::new();
            for q in &m.quads {
                q.1.collect_quoted(&mut r);
                q.2.collect_quoted(&mut r);
                q.3.collect_quoted(&mut r);
            }
            r
        };
        out.class_if(mb.quoted.difference(&referenced(&mb)).next().is_some(), "unreferenced-quoted-in-b");
        out.class_if(mb.named.iter().any(|g| ma.quads.iter().any(|q| matches!(&q.1, LT::P(s) if s == g) || matches!(&q.3, LT::P(s) if s == g))), "graph-name-of-b-is-term-of-a");
        out.class_if(ma.quads.len() + mb.quads.len() >= 20, "quads>=20");

        // --- the union
        let expect = ma.union(&mb);
        let u = a.union(&b);
        let lu = extract(&u, "a.union(b)")?;
        compare(&expect, &lu, "c15.union", "a.union(&b) vs lexical(a) ∪ lexical(b)")?;
        check_bijection(&u, "a.union(b)")?;
        // operands untouched
        let la2 = extract(&a, "a after union")?;
        let lb2 = extract(&b, "b after union")?;
        if la2 != la {
            compare(&la, &la2, "c15.union.operand_changed", "operand a before vs after a.union(&b)")?;
        }
        if lb2 != lb {
            compare(&lb, &lb2, "c15.union.operand_changed", "operand b before vs after a.union(&b)")?;
        }
        ids_stable(&da, &qa, &a, "a")?;
        ids_stable(&dbb, &qb, &b, "b")?;
        // the other way round
        let u2 = b.union(&a);
        let lu2 = extract(&u2, "b.union(a)")?;
        if lu2 != lu {
            compare(&lu, &lu2, "c15.union.commutative", "a.union(&b) vs b.union(&a)")?;
        }
        check_bijection(&u2, "b.union(a)")?;
        let la3 = extract(&a, "a after both unions")?;
        let lb3 = extract(&b, "b after both unions")?;
        if la3 != la || lb3 != lb {
            compare(&la, &la3, "c15.union.operand_changed", "operand a before vs after b.union(&a)")?;
            compare(&lb, &lb3, "c15.union.operand_changed", "operand b before vs after b.union(&a)")?;
        }
        out.inner_evals += 2;
        // every term of either side is known to the result under ONE id: encoding it again adds nothing
        for (res, who) in [(&u, "a.union(b)"), (&u2, "b.union(a)")] {
            let (np, nq) = (res.dictionary.read().unwrap().id_to_string.len(), res.quoted_triple_store.read().unwrap().id_to_components.len());
            let mut terms: BTreeSet<LT> = expect.quoted.clone();
            for q in &expect.quads {
                terms.insert(q.1.clone());
                terms.insert(q.2.clone());
                terms.insert(q.3.clone());
                if let Some(g) = &q.0 {
                    terms.insert(LT::P(g.clone()));
                }
            }
            for g in &expect.named {
                terms.insert(LT::P(g.clone()));
            }
            for t in &terms {
                let id = reencode(res, t);
                let back = res.decode_any(id);
                if back.as_deref() != Some(t.render().as_str()) {
                    return Err(("c15.union.reencode".into(), format!("{who}: re-encoding {} gives id {id:#x}, which decodes to {:?}", t.render(), back)));
                }
            }
            let (np2, nq2) = (res.dictionary.read().unwrap().id_to_string.len(), res.quoted_triple_store.read().unwrap().id_to_components.len());
            if (np, nq) != (np2, nq2) {
                return Err(("c15.union.reencode_grows".into(), format!("{who}: re-encoding the terms of both operands added {} plain / {} quoted identifiers: some term was stored under an id the encoders do not find", np2 as i64 - np as i64, nq2 as i64 - nq as i64)));
            }
            let again = extract(res, who)?;
            if again != lu {
                compare(&lu, &again, "c15.union.reencode_changes_dataset", who)?;
            }
        }
        Ok(())
    });
    match r {
        Err(site) => out.panic("building two databases and uniting them", &site),
        Ok(Err((sig, d))) => out.fail(sig, d),
        Ok(Ok(())) => {}
    }
    out
}

fn uop_strategy(vocab: Vec<usize>) -> BoxedStrategy<UOp> {
    let v = vocab.clone();
    let rawi = sel().prop_map(move |s| v[pick_idx(s, v.len())]).boxed();
    let tm = tm_strategy(&vocab, 3, false, 3);
    // graph names come from the same vocabulary as the terms: their ids clash with term ids
    prop_oneof![
        3 => (rawi.clone(), rawi.clone(), rawi.clone()).prop_map(|(s, p, o)| UOp::TripleParts(s, p, o)),
        3 => (tm.clone(), tm.clone(), tm.clone(), rawi.clone()).prop_map(|(s, p, o, g)| UOp::QuadParts(s, p, o, g)),
        2 => (tm.clone(), tm.clone(), tm.clone()).prop_map(|(s, p, o)| UOp::StarTriple(s, p, o)),
        2 => (tm.clone(), tm.clone(), tm.clone(), rawi.clone()).prop_map(|(s, p, o, g)| UOp::StarQuad(s, p, o, g)),
        2 => rawi.clone().prop_map(UOp::CreateGraph),
        2 => (rawi.clone(), rawi.clone(), rawi.clone()).prop_map(|(s, p, o)| UOp::Tagged(s, p, o)),
        1 => (tm.clone(), tm.clone(), tm.clone()).prop_map(|(s, p, o)| UOp::TaggedStar(s, p, o)),
        1 => tm.prop_map(UOp::EncodeOnly),
        1 => rawi.prop_map(UOp::EncodeRaw),
    ]
    .boxed()
}

struct UnionPart;
impl Part for UnionPart {
    type Case = UCase;
    fn name(&self) -> &'static str {
        "union"
    }
    fn cases(&self, tier: Tier) -> u32 {
        tier.pick(30_000, 300_000)
    }
    fn strategy(&self, tier: Tier) -> BoxedStrategy<UCase> {
        let maxlen = tier.pick(16usize, 40usize);
        let safe = idx_where(star_safe);
        let safe2 = safe.clone();
        (
            proptest::collection::vec(sel().prop_map(move |s| safe2[pick_idx(s, safe2.len())]), 2..=6),
            proptest::collection::vec(sel().prop_map(|s| pick_idx(s, pool().len())), 0..=4),
            0u8..4,
        )
            .prop_flat_map(move |(vs, va, mode)| {
                let mut vocab: Vec<usize> = vec![];
                for i in vs.into_iter().chain(va) {
                    if !vocab.contains(&i) {
                        vocab.push(i);
                    }
                }
                let op = uop_strategy(vocab);
                (proptest::collection::vec(op.clone(), 1..=maxlen), proptest::collection::vec(op, 1..=maxlen), Just(mode), sel())
            })
            .prop_map(|(a, extra, mode, cut)| {
                // mode 0/1: independent sequences over the shared vocabulary;
                // mode 2: b replays a's operations in reverse order (same dataset, other ids) and goes on;
                // mode 3: b replays a suffix of a first, then its own operations.
                let b = match mode {
                    2 => a.iter().rev().cloned().chain(extra).collect(),
                    3 => {
                        let k = pick_idx(cut, a.len());
                        a[k..].iter().cloned().chain(extra).collect()
                    }
                    _ => extra,
                };
                UCase { a, b }
            })
            .boxed()
    }
    fn check(&self, case: &UCase) -> Outcome {
        run_union(case)
    }
}

// ---- the boundary between the plain and the quoted identifier range ----

#[derive(Clone, Debug, Serialize, Deserialize)]
struct BoundaryCase {
    /// plain terms and quoted triples created before the counter is moved
    warm_terms: u8,
    warm_quoted: u8,
    /// how far below the first quoted identifier the (public) counter is placed
    below: u8,
    /// how many new terms are encoded across the boundary
    fresh: u8,
    /// through SparqlDatabase::encode_term_star instead of Dictionary::encode
    via_star: bool,
}

/// A dictionary that has handed out almost 2^31 identifiers (its public counter `next_id` is placed just below
/// QUOTED_TRIPLE_ID_BIT): every identifier it still hands out for a plain term must lie below the quoted range, be new,
/// decode back (also through the star-aware decoders) and stay stable; refusing (the documented "ID space exhausted"
/// panic) is accepted; the quoted triples created before keep decoding.
struct Boundary;
impl Part for Boundary {
    type Case = BoundaryCase;
    fn name(&self) -> &'static str {
        "id-boundary"
    }
    fn cases(&self, tier: Tier) -> u32 {
        tier.pick(1_000, 8_000)
    }
    fn strategy(&self, _tier: Tier) -> BoxedStrategy<BoundaryCase> {
        (0u8..6, 0u8..4, 0u8..6, 1u8..8, any::<bool>()).prop_map(|(warm_terms, warm_quoted, below, fresh, via_star)| BoundaryCase { warm_terms, warm_quoted, below, fresh, via_star }).boxed()
    }
    fn check(&self, c: &BoundaryCase) -> Outcome {
        let mut o = Outcome::new();
        let mut db = SparqlDatabase::new();
        let mut known: Vec<(String, u32)> = vec![];
        for i in 0..c.warm_terms.max(3) {
            let t = format!("http://e/w{i}");
            let id = db.dictionary.write().unwrap().encode(&t);
            known.push((t, id));
        }
        let mut quoted: Vec<(u32, (u32, u32, u32))> = vec![];
        for i in 0..c.warm_quoted as usize {
            let spo = (known[i % known.len()].1, known[(i + 1) % known.len()].1, known[(i + 2) % known.len()].1);
            let id = db.quoted_triple_store.write().unwrap().encode(spo.0, spo.1, spo.2);
            quoted.push((id, spo));
        }
        db.dictionary.write().unwrap().next_id = QUOTED_TRIPLE_ID_BIT - c.below as u32;
        let mut refused = 0;
        let mut fresh: Vec<(String, u32)> = vec![];
        for i in 0..c.fresh {
            let t = format!("http://e/late{i}");
            let r = catch(|| if c.via_star { db.encode_term_star(&t) } else { db.dictionary.write().unwrap().encode(&t) });
            o.inner_evals += 1;
            match r {
                Ok(id) => fresh.push((t, id)),
                Err(site) if site.msg.contains("exhausted") => {
                    // the refusal is a panic under the dictionary's write lock: the lock is poisoned and nothing more
                    // can be asked of this database
                    refused += 1;
                    break;
                }
                Err(site) => {
                    o.panic(&format!("encoding a new term with next_id {} below the quoted range", c.below), &site);
                    return o;
                }
            }
        }
        o.class_if(refused > 0, "refused-at-the-boundary");
        o.class_if(!fresh.is_empty() && refused > 0, "handed-out-then-refused");
        o.class_if(c.below == 0, "counter-exactly-at-the-boundary");
        o.nontrivial = c.fresh > c.below;
        if refused > 0 {
            // judge what was handed out before the refusal from the values alone (the database is poisoned)
            for (i, (t, id)) in fresh.iter().enumerate() {
                if is_quoted_triple_id(*id) {
                    o.fail("c15.boundary.plain_id_in_quoted_range", format!("plain term {t:?} was given identifier {id:#x}, which lies in the quoted-triple range (counter placed {} below it)", c.below));
                    return o;
                }
                if known.iter().chain(fresh[..i].iter()).any(|(_, other)| other == id) {
                    o.fail("c15.boundary.id_shared", format!("plain term {t:?} shares identifier {id:#x} with another term"));
                    return o;
                }
            }
            return o;
        }
        let all: Vec<(String, u32)> = known.iter().cloned().chain(fresh.iter().cloned()).collect();
        for (i, (t, id)) in all.iter().enumerate() {
            if is_quoted_triple_id(*id) {
                o.fail("c15.boundary.plain_id_in_quoted_range", format!("plain term {t:?} was given identifier {id:#x}, which lies in the quoted-triple range (counter placed {} below it)", c.below));
                return o;
            }
            if all[..i].iter().any(|(_, other)| other == id) {
                o.fail("c15.boundary.id_shared", format!("plain term {t:?} shares identifier {id:#x} with another term"));
                return o;
            }
            let d = db.dictionary.read().unwrap().decode(*id).map(|x| x.to_string());
            if d.as_deref() != Some(t.as_str()) {
                o.fail("c15.boundary.decode", format!("identifier {id:#x} of {t:?} decodes to {d:?}"));
                return o;
            }
            let any = db.decode_any(*id);
            if any.as_deref() != Some(t.as_str()) {
                o.fail("c15.boundary.decode_any", format!("decode_any({id:#x}) = {any:?}, expected {t:?}"));
                return o;
            }
            let again = catch(|| db.dictionary.write().unwrap().encode(t));
            if again.as_ref().ok() != Some(id) {
                o.fail("c15.boundary.unstable", format!("encoding {t:?} again gives {:?}, first time {id:#x}", again.ok()));
                return o;
            }
        }
        for (id, spo) in &quoted {
            let d = db.quoted_triple_store.read().unwrap().decode(*id);
            if d != Some(*spo) {
                o.fail("c15.boundary.quoted_decode", format!("quoted identifier {id:#x} decodes to {d:?}, expected {spo:?}"));
                return o;
            }
        }
        o
    }
}

fn main() {
    let mut s = Session::start(
        "C15",
        "exploration",
        "Part `dict`: operation sequences (<=120 quick / <=300 thorough) over one SparqlDatabase driven at all three API levels \
         (Dictionary::encode/decode/decode_term/merge on its dictionary, QuotedTripleStore::encode/decode on its store, encode_term_star/decode_any) \
         over a pool of 30 strings (ids-as-strings, unicode NFC/NFD pair, empty string, blank variants, engine-syntax look-alikes) and `<< s p o >>` terms nested up to depth 3; \
         an id-level model (term->id, id->term, issue order) is updated from every returned id; after EVERY operation every id issued so far is decoded again, the forward maps are probed, \
         never-issued ids around both counters and at the range border must decode to None, and a rotating window (everything after the last step) is rendered through decode_any/decode_term. \
         Non-trivial = a known term is encoded again after newer terms were issued and the sequence encodes >=1 quoted triple. \
         Part `union`: two databases built by independent operation lists (add_triple_parts, add_quad_parts, encode_term_star+add_triple/add_quad, create_graph for empty graphs, add_tagged_triple, \
         probability seeds on quoted triples, encode-only terms) over a shared vocabulary of 2..10 pool strings (b optionally replays a's operations in reverse); \
         lexical models are built from the operation lists only; a.union(&b) and b.union(&a) are decoded structurally (and through decode_any) and compared with model(a) ∪ model(b) on quads, named graph identities, seeds and quoted terms. \
         Non-trivial = the two dictionaries disagree on >=1 identifier and each side has a quoted triple or a named graph; distinct = distinct pair of operation lists.",
    );
    s.assume("surface syntax handed to encode_term_star/add_quad_parts is the canonical `<< s p o >>` with single blanks, atoms bare / <iri> / \"literal\" without escapes; the stored lexical form is the documented normalisation (trim, strip <>, strip quotes) — that mapping is input convention, not checked");
    s.assume("Dictionary::merge is only exercised on id-compatible dictionaries (a fork that was extended while the original was not, or an older unchanged copy), the situation of its two callers' contracts");
    s.assume("a tagged triple's probability is a function of the lexical triple, so the two operands never disagree about a seed (the property does not say who wins)");
    s.assume("QuotedTripleStore::encode receives as components only plain-range numbers or quoted ids it issued itself (no caller can name a future quoted id)");
    s.run(&DictPart);
    s.run(&UnionPart);
    s.run(&Boundary);
    std::process::exit(s.finish());
}
