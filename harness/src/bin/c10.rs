//! C10 — each firing of a continuous query sees exactly the current window, nothing older;
//! single-thread and multi-thread mode emit the same per-firing sequence.
//! Oracle: a probe CSPARQLWindow with identical parameters gives the content of every firing; expected
//! rows = reference BGP evaluation over content ∪ lfp(rules, content), passed through an RSTREAM /
//! ISTREAM / DSTREAM model. Multi-thread runs are perturbed through hook H1 (`--cfg kolibrie_verif`).

use kolibrie::rsp::s2r::{CSPARQLWindow, ContentContainer, Report, ReportStrategy, Tick};
use kolibrie::rsp::simple_r2r::SimpleR2R;
use kolibrie::rsp_engine::{OperationMode, QueryExecutionMode, RSPBuilder, RSPEngine, ResultConsumer};
use kvh::engine::*;
use kvh::sparql::*;
use proptest::prelude::*;
use serde::{Deserialize, Serialize};
use serde_json::json;
use shared::triple::Triple;
use std::collections::BTreeSet;
use std::sync::atomic::{AtomicU64, Ordering};
use std::sync::{Arc, Mutex};

const TYPE: &str = RDF_TYPE;

#[derive(Clone, Debug, Serialize, Deserialize)]
struct RuleSpec {
    premises: Vec<[PT; 3]>,
    conclusion: [PT; 3],
}

#[derive(Clone, Debug, Serialize, Deserialize)]
struct Case {
    width: usize,
    slide: usize,
    op: u8, // 0 RSTREAM, 1 ISTREAM, 2 DSTREAM
    patterns: Vec<[PT; 3]>,
    rules: Vec<RuleSpec>,
    first_ts: usize,
    /// (gap to previous event, triple)
    events: Vec<(usize, [String; 3])>,
    sched_seeds: Vec<u64>,
}

type Row = Vec<(String, String)>;

fn iri(x: &str) -> String {
    format!("http://e/{x}")
}

fn term_txt(t: &PT) -> String {
    match t {
        PT::Var(v) => format!("?{v}"),
        PT::C(c) => format!("<{}>", c.lex()),
    }
}

fn query_text(c: &Case) -> String {
    let op = ["RSTREAM", "ISTREAM", "DSTREAM"][c.op as usize % 3];
    let pats: Vec<String> = c.patterns.iter().map(|p| format!("{} {} {} .", term_txt(&p[0]), term_txt(&p[1]), term_txt(&p[2]))).collect();
    format!(
        "REGISTER {op} <http://out/stream> AS SELECT * FROM NAMED WINDOW :w ON ?stream [RANGE {} STEP {}] WHERE {{ WINDOW :w {{ {} }} }}",
        c.width,
        c.slide,
        pats.join(" ")
    )
}

fn rules_text(c: &Case) -> String {
    let mut s = String::new();
    for r in &c.rules {
        let prem: Vec<String> = r.premises.iter().map(|p| format!("{} {} {} .", term_txt(&p[0]), term_txt(&p[1]), term_txt(&p[2]))).collect();
        let cn = &r.conclusion;
        // no trailing dot after the rule: SimpleR2R::load_rules stops at the first text it cannot parse as a rule
        s.push_str(&format!("{{ {} }} => {{ {} {} {} . }}\n", prem.join(" "), term_txt(&cn[0]), term_txt(&cn[1]), term_txt(&cn[2])));
    }
    s
}

fn ntriple(t: &[String; 3]) -> String {
    format!("<{}> <{}> <{}> .", t[0], t[1], t[2])
}

/// least fixpoint of the rules over a set of lexical triples (reference evaluator's BGP matcher)
fn closure(rules: &[RuleSpec], base: &BTreeSet<[String; 3]>) -> BTreeSet<[String; 3]> {
    let mut facts = base.clone();
    loop {
        let lex = LexData { default: facts.clone(), named: Default::default() };
        let ctx = EvalCtx::new(&lex, &[], &[]);
        let mut added = false;
        for r in rules {
            for sol in eval_group(&[Elem::Bgp(r.premises.clone())], &ctx, &Active::Default) {
                let inst = |t: &PT| match t {
                    PT::C(c) => Some(c.lex()),
                    PT::Var(v) => sol.get(v).cloned(),
                };
                if let (Some(s), Some(p), Some(o)) = (inst(&r.conclusion[0]), inst(&r.conclusion[1]), inst(&r.conclusion[2])) {
                    if facts.insert([s, p, o]) {
                        added = true;
                    }
                }
            }
        }
        if !added {
            return facts;
        }
    }
}

fn answers(patterns: &[[PT; 3]], facts: &BTreeSet<[String; 3]>) -> Vec<Row> {
    let lex = LexData { default: facts.clone(), named: Default::default() };
    let ctx = EvalCtx::new(&lex, &[], &[]);
    let mut rows: Vec<Row> = eval_group(&[Elem::Bgp(patterns.to_vec())], &ctx, &Active::Default).into_iter().map(|s| s.into_iter().collect::<Row>()).collect();
    rows.sort();
    rows
}

/// Probe: content (event indices) of every firing, grouped by the add call that triggered it.
fn probe(c: &Case) -> Vec<Vec<Vec<usize>>> {
    let mut report = Report::new();
    report.add(ReportStrategy::OnWindowClose);
    let mut w: CSPARQLWindow<usize> = CSPARQLWindow::new(c.width, c.slide, report, Tick::TimeDriven, "probe".to_string());
    let fired: Arc<Mutex<Vec<Vec<usize>>>> = Arc::new(Mutex::new(vec![]));
    let f2 = fired.clone();
    w.register_callback(Box::new(move |content: ContentContainer<usize>| {
        let mut items: Vec<usize> = content.iter().cloned().collect();
        items.sort();
        f2.lock().unwrap().push(items);
    }));
    let mut out = vec![];
    let mut ts = c.first_ts;
    for (i, (gap, _)) in c.events.iter().enumerate() {
        if i > 0 {
            ts += gap;
        }
        w.add_to_window(i, ts);
        out.push(std::mem::take(&mut *fired.lock().unwrap()));
    }
    out
}

struct Expected {
    /// per add call: expected emitted rows (multiset) of the firings triggered by that call
    per_call: Vec<Vec<Row>>,
    firings: usize,
    evicted_between: bool,
    derived_then_underivable: bool,
    derived_equals_later_raw: bool,
    /// per add call: some firing up to and including this call had a raw triple equal to a triple derived at the firing before it
    derived_equals_raw_upto: Vec<bool>,
    nonempty_emissions: usize,
}

fn expected(c: &Case) -> Expected {
    let contents = probe(c);
    let mut last: BTreeSet<Row> = BTreeSet::new();
    let mut per_call = vec![];
    let mut firings = 0;
    let mut prev_content: Option<BTreeSet<[String; 3]>> = None;
    let mut prev_derived: BTreeSet<[String; 3]> = BTreeSet::new();
    let mut evicted_between = false;
    let mut derived_then_underivable = false;
    let mut derived_equals_later_raw = false;
    let mut nonempty = 0;
    let mut upto = vec![];
    for call in contents {
        let mut emitted: Vec<Row> = vec![];
        for content in call {
            firings += 1;
            let base: BTreeSet<[String; 3]> = content.iter().map(|i| c.events[*i].1.clone()).collect();
            let facts = closure(&c.rules, &base);
            let derived: BTreeSet<[String; 3]> = facts.difference(&base).cloned().collect();
            if let Some(pc) = &prev_content {
                if pc.difference(&base).next().is_some() {
                    evicted_between = true;
                }
            }
            if prev_derived.iter().any(|d| !facts.contains(d)) {
                derived_then_underivable = true;
            }
            if prev_derived.iter().any(|d| base.contains(d)) {
                derived_equals_later_raw = true;
            }
            let rows = answers(&c.patterns, &facts);
            let cur: BTreeSet<Row> = rows.iter().cloned().collect();
            let em: Vec<Row> = match c.op % 3 {
                0 => rows.clone(),
                1 => rows.iter().filter(|r| !last.contains(*r)).cloned().collect(),
                _ => last.iter().filter(|r| !cur.contains(*r)).cloned().collect(),
            };
            if c.op % 3 != 0 {
                last = cur;
            }
            if !em.is_empty() {
                nonempty += 1;
            }
            emitted.extend(em);
            prev_content = Some(base);
            prev_derived = derived;
        }
        emitted.sort();
        per_call.push(emitted);
        upto.push(derived_equals_later_raw);
    }
    Expected { per_call, firings, evicted_between, derived_then_underivable, derived_equals_later_raw, derived_equals_raw_upto: upto, nonempty_emissions: nonempty }
}

fn norm_row(r: &Row) -> Row {
    let mut v: Row = r.iter().map(|(k, x)| (k.trim_start_matches('?').to_string(), x.trim_start_matches('<').trim_end_matches('>').to_string())).collect();
    v.sort();
    v
}

fn build_engine(c: &Case, mode: OperationMode, sink: Arc<Mutex<Vec<Row>>>) -> Result<RSPEngine<Triple, Row>, String> {
    let consumer = ResultConsumer {
        function: Arc::new(move |r: Row| {
            sink.lock().unwrap().push(r);
        }),
    };
    let q = query_text(c);
    let rules = rules_text(c);
    let mut b = RSPBuilder::new().add_rsp_ql_query(&q).add_consumer(consumer).add_r2r(Box::new(SimpleR2R::with_execution_mode(QueryExecutionMode::Volcano))).set_operation_mode(mode);
    if !c.rules.is_empty() {
        b = b.add_rules(&rules);
    }
    b.build()
}

fn op_name(c: &Case) -> &'static str {
    ["rstream", "istream", "dstream"][c.op as usize % 3]
}

fn single_thread(c: &Case, exp: &Expected, o: &mut Outcome) -> Option<Vec<Vec<Row>>> {
    let sink: Arc<Mutex<Vec<Row>>> = Arc::new(Mutex::new(vec![]));
    let s2 = sink.clone();
    let r = catch(move || -> Result<Vec<Vec<Row>>, String> {
        let mut engine = build_engine(c, OperationMode::SingleThread, s2.clone())?;
        let mut per_call = vec![];
        let mut ts = c.first_ts;
        for (i, (gap, t)) in c.events.iter().enumerate() {
            if i > 0 {
                ts += gap;
            }
            let before = s2.lock().unwrap().len();
            for tr in engine.parse_data(&ntriple(t)) {
                engine.add_to_stream("stream1", tr, ts);
            }
            let mut rows: Vec<Row> = s2.lock().unwrap()[before..].iter().map(norm_row).collect();
            rows.sort();
            per_call.push(rows);
        }
        // no stop(): flushing the open windows is outside the trigger model (see C09)
        drop(engine);
        Ok(per_call)
    });
    o.inner_evals += 1;
    let tag = format!("{}{}", op_name(c), if c.rules.is_empty() { "" } else { ",rules" });
    match r {
        Err(site) => {
            o.panic(&format!("single-thread run of {}", query_text(c)), &site);
            None
        }
        Ok(Err(e)) => {
            o.fail("c10.build_failed", format!("engine construction failed: {e}\n{}\n{}", query_text(c), rules_text(c)));
            None
        }
        Ok(Ok(per_call)) => {
            for (i, (got, want)) in per_call.iter().zip(exp.per_call.iter()).enumerate() {
                if got != want {
                    // classify: raw window triple lost because it equals a triple derived in the previous firing
                    let missing: Vec<&Row> = want.iter().filter(|r| !got.contains(r)).collect();
                    let extra: Vec<&Row> = got.iter().filter(|r| !want.contains(r)).collect();
                    let kind = if !missing.is_empty() && extra.is_empty() { "missing" } else if missing.is_empty() { "extra" } else { "both" };
                    // narrow class: a triple derived at an earlier firing equals a raw triple of a later window content
                    // (the eviction of last cycle's derived triples then deletes live input)
                    let special = if !c.rules.is_empty() && exp.derived_equals_raw_upto.get(i).copied().unwrap_or(false) { ".derived_equals_raw" } else { "" };
                    o.fail(
                        format!("c10.st.{kind}[{tag}]{special}"),
                        format!(
                            "single-thread: rows emitted during add call #{i} differ from the answers over the window content reported at that call\nmissing {:?}\nunexpected {:?}\nquery: {}\nrules: {}\nevents (gap, triple): {:?} first_ts {}",
                            missing,
                            extra,
                            query_text(c),
                            rules_text(c),
                            c.events,
                            c.first_ts
                        ),
                    );
                    return None;
                }
            }
            Some(per_call)
        }
    }
}

static SCHED_STATE: AtomicU64 = AtomicU64::new(1);
static STALL_SEEN: std::sync::atomic::AtomicBool = std::sync::atomic::AtomicBool::new(false);
static GATE_OPEN: std::sync::atomic::AtomicBool = std::sync::atomic::AtomicBool::new(true);

fn sched_next() -> u64 {
    // splitmix64 on a shared counter: which thread draws which value depends on the schedule itself
    let x = SCHED_STATE.fetch_add(0x9E3779B97F4A7C15, Ordering::Relaxed);
    mix(x, 0x1234_5678)
}

fn perturb() {
    match sched_next() % 8 {
        0 | 1 => std::thread::yield_now(),
        2 => std::thread::sleep(std::time::Duration::from_micros(sched_next() % 200)),
        3 => {
            for _ in 0..(sched_next() % 2000) {
                std::hint::spin_loop();
            }
        }
        _ => {}
    }
}

fn multi_thread(c: &Case, exp: &Expected, st: &[Vec<Row>], seed: u64, o: &mut Outcome) -> bool {
    SCHED_STATE.store(seed | 1, Ordering::Relaxed);
    // Schedules: three quarters are random perturbations at the hook sites; one quarter is the extreme schedule in which
    // the worker is held before it processes its first firing until the whole stream has been ingested, so that every
    // later firing is already queued behind it (a worker that lags as far as it can).
    let gate_mode = seed % 4 == 0;
    GATE_OPEN.store(!gate_mode, Ordering::SeqCst);
    kolibrie::verif_hooks::set_yield_hook(Some(Arc::new(|site| {
        if site == kolibrie::verif_hooks::SITE_WORKER_BEFORE_PROCESS {
            let t0 = std::time::Instant::now();
            while !GATE_OPEN.load(Ordering::SeqCst) && t0.elapsed().as_secs() < 20 {
                std::thread::yield_now();
            }
        }
        perturb()
    })));
    let base = kolibrie::verif_hooks::FIRINGS_DONE.load(Ordering::SeqCst);
    let sink: Arc<Mutex<Vec<Row>>> = Arc::new(Mutex::new(vec![]));
    let s2 = sink.clone();
    let want_firings = exp.firings as u64;
    let r = catch(move || -> Result<(Vec<Row>, bool), String> {
        let s3 = s2.clone();
        let consumer_sink = Arc::new(Mutex::new(()));
        let _ = consumer_sink;
        let mut engine = build_engine(c, OperationMode::MultiThread, s3)?;
        let mut ts = c.first_ts;
        for (i, (gap, t)) in c.events.iter().enumerate() {
            if i > 0 {
                ts += gap;
            }
            for tr in engine.parse_data(&ntriple(t)) {
                engine.add_to_stream("stream1", tr, ts);
            }
            perturb();
        }
        // wait (without a fixed sleep) until every firing has been processed by the worker thread
        GATE_OPEN.store(true, Ordering::SeqCst);
        // The bound is on the time WITHOUT PROGRESS (a healthy worker processes a firing in well under a millisecond):
        // 10 s for the first stall seen by this process; once a firing has been lost the run is failing anyway and
        // the later cases (shrinking) give up after 300 ms without progress instead of keeping the machine busy.
        let mut last_progress = std::time::Instant::now();
        let mut last_done = kolibrie::verif_hooks::FIRINGS_DONE.load(Ordering::SeqCst);
        let mut complete = true;
        loop {
            let done = kolibrie::verif_hooks::FIRINGS_DONE.load(Ordering::SeqCst);
            if done - base >= want_firings {
                break;
            }
            if done != last_done {
                last_done = done;
                last_progress = std::time::Instant::now();
            }
            let bound = if STALL_SEEN.load(Ordering::Relaxed) { 300 } else { 10_000 };
            if last_progress.elapsed().as_millis() > bound {
                STALL_SEEN.store(true, Ordering::Relaxed);
                complete = false;
                break;
            }
            std::thread::yield_now();
        }
        drop(engine);
        let rows: Vec<Row> = s2.lock().unwrap().iter().map(norm_row).collect();
        Ok((rows, complete))
    });
    kolibrie::verif_hooks::set_yield_hook(None);
    GATE_OPEN.store(true, Ordering::SeqCst);
    o.inner_evals += 1;
    let tag = format!("{}{}", op_name(c), if c.rules.is_empty() { "" } else { ",rules" });
    match r {
        Err(site) => {
            o.panic(&format!("multi-thread run of {}", query_text(c)), &site);
            false
        }
        Ok(Err(e)) => {
            o.fail("c10.build_failed", format!("multi-thread engine construction failed: {e}"));
            false
        }
        Ok(Ok((rows, complete))) => {
            // cut the emitted sequence at the single-thread firing boundaries
            let mut pos = 0;
            for (i, chunk) in st.iter().enumerate() {
                let end = (pos + chunk.len()).min(rows.len());
                let mut got: Vec<Row> = rows[pos..end].to_vec();
                got.sort();
                if &got != chunk {
                    o.fail(
                        format!("c10.mt.sequence[{tag}]"),
                        format!(
                            "multi-thread emission differs from single-thread at add call #{i} (schedule seed {seed}, all firings processed: {complete}): got {:?} expected {:?}\nfull multi-thread sequence {:?}\nquery: {}\nrules: {}\nevents: {:?}",
                            got,
                            chunk,
                            rows,
                            query_text(c),
                            rules_text(c),
                            c.events
                        ),
                    );
                    return false;
                }
                pos = end;
            }
            if pos != rows.len() {
                o.fail(format!("c10.mt.extra_rows[{tag}]"), format!("multi-thread mode emitted {} rows beyond the single-thread sequence: {:?}", rows.len() - pos, &rows[pos..]));
                return false;
            }
            if !complete {
                // The hook counted fewer processed firings than the single-thread run had, but the emitted sequence is
                // the same: the property speaks about the emitted sequence only, so this is not a violation (a worker may
                // legitimately skip work that cannot change what is emitted). It is recorded, and it costs the stall bound.
                o.class("mt-processed-firing-count-short-but-sequence-equal");
                o.skipped.push("mt-firing-count-short-sequence-equal");
            }
            true
        }
    }
}

fn check_case(c: &Case, do_mt: bool) -> Outcome {
    let mut o = Outcome::new();
    let exp = expected(c);
    o.class(op_name(c));
    o.class_if(!c.rules.is_empty(), "rules");
    o.class_if(exp.firings >= 3, "firings>=3");
    o.class_if(exp.evicted_between, "eviction-between-firings");
    o.class_if(exp.derived_then_underivable, "derived-then-underivable");
    o.class_if(exp.derived_equals_later_raw, "derived-equals-later-raw-triple");
    o.class_if(exp.nonempty_emissions >= 2, "emissions>=2");
    o.class_if(c.slide > c.width, "slide>width");
    o.nontrivial = exp.firings >= 3 && exp.evicted_between && exp.nonempty_emissions >= 1 && (c.rules.is_empty() || exp.derived_then_underivable);
    let Some(st) = single_thread(c, &exp, &mut o) else {
        return o;
    };
    if do_mt {
        for s in &c.sched_seeds {
            if !multi_thread(c, &exp, &st, *s, &mut o) {
                break;
            }
        }
    }
    o
}

fn pt_strategy(pos: usize) -> BoxedStrategy<PT> {
    let vars = prop_oneof![Just("x"), Just("y"), Just("z")].prop_map(|v| PT::Var(v.to_string()));
    let c: BoxedStrategy<PT> = match pos {
        1 => prop_oneof![Just(iri("p0")), Just(iri("p1")), Just(TYPE.to_string())].prop_map(|i| PT::C(Tm::Iri(i))).boxed(),
        _ => (0usize..6).prop_map(|i| PT::C(Tm::Iri(if i < 4 { iri(&format!("s{i}")) } else { iri(&format!("C{}", i - 4)) }))).boxed(),
    };
    let w = if pos == 1 { 1 } else { 4 };
    prop_oneof![w => vars, 2 => c].boxed()
}

fn pattern() -> impl Strategy<Value = [PT; 3]> {
    (pt_strategy(0), pt_strategy(1), pt_strategy(2)).prop_map(|(s, p, o)| [s, p, o])
}

fn triple() -> impl Strategy<Value = [String; 3]> {
    (0usize..4, 0usize..3, 0usize..6).prop_map(|(s, p, o)| {
        let pred = [iri("p0"), iri("p1"), TYPE.to_string()][p].clone();
        let obj = if p == 2 { iri(&format!("C{}", o % 2)) } else { iri(&format!("s{}", o % 4)) };
        [iri(&format!("s{s}")), pred, obj]
    })
}

fn rule() -> impl Strategy<Value = RuleSpec> {
    (proptest::collection::vec(pattern(), 1..=2), pattern(), any::<u16>()).prop_map(|(premises, mut conclusion, sel)| {
        // premises: constant predicates only (variable-predicate premises are C05's subject)
        let premises: Vec<[PT; 3]> = premises
            .into_iter()
            .map(|mut p| {
                if let PT::Var(_) = p[1] {
                    p[1] = PT::C(Tm::Iri(iri("p0")));
                }
                p
            })
            .collect();
        // safety: conclusion variables must occur in the premises; predicate constant
        let mut pv: Vec<String> = vec![];
        for p in &premises {
            for t in p {
                if let PT::Var(v) = t {
                    if !pv.contains(v) {
                        pv.push(v.clone());
                    }
                }
            }
        }
        for (i, t) in conclusion.iter_mut().enumerate() {
            if let PT::Var(v) = t {
                if !pv.contains(v) {
                    *t = if pv.is_empty() { PT::C(Tm::Iri(iri("s0"))) } else { PT::Var(pv[pick_idx(sel.rotate_left(i as u32), pv.len())].clone()) };
                }
            }
        }
        if let PT::Var(_) = conclusion[1] {
            conclusion[1] = PT::C(Tm::Iri(iri("p1")));
        }
        RuleSpec { premises, conclusion }
    })
}

fn case_strategy(tier: Tier, with_mt: bool) -> BoxedStrategy<Case> {
    let max_ev = tier.pick(25usize, 40usize);
    let n_sched = if with_mt { tier.pick(6usize, 24usize) } else { 0 };
    (
        1usize..=6,
        1usize..=6,
        0u8..3,
        proptest::collection::vec(pattern(), 1..=3),
        proptest::collection::vec(rule(), 0..=3),
        0usize..4,
        proptest::collection::vec((prop_oneof![3 => 0usize..=1, 3 => 1usize..=2, 1 => 3usize..=9], triple()), 3..=max_ev),
        proptest::collection::vec(any::<u64>(), n_sched),
        proptest::bool::weighted(0.6),
    )
        .prop_map(|(width, slide, op, mut patterns, rules, first_ts, events, mut sched_seeds, use_rules)| {
            // the first schedule of every multi-thread case is the extreme one (worker held until the stream is ingested)
            if let Some(s0) = sched_seeds.first_mut() {
                *s0 &= !3;
            }
            // variable predicates in window patterns are fine; keep at least one pattern with a variable
            if !patterns.iter().any(|p| p.iter().any(|t| matches!(t, PT::Var(_)))) {
                patterns[0][0] = PT::Var("x".into());
            }
            Case { width, slide, op, patterns, rules: if use_rules { rules } else { vec![] }, first_ts, events, sched_seeds }
        })
        .boxed()
}

struct SingleThread;
impl Part for SingleThread {
    type Case = Case;
    fn name(&self) -> &'static str {
        "single-thread"
    }
    fn cases(&self, tier: Tier) -> u32 {
        tier.pick(30_000, 200_000)
    }
    fn strategy(&self, tier: Tier) -> BoxedStrategy<Case> {
        case_strategy(tier, false)
    }
    fn check(&self, c: &Case) -> Outcome {
        check_case(c, false)
    }
    fn describe(&self, c: &Case) -> serde_json::Value {
        json!({"query": query_text(c), "rules": rules_text(c), "first_ts": c.first_ts, "events": c.events.iter().map(|(g, t)| format!("+{g} {}", ntriple(t))).collect::<Vec<_>>()})
    }
}

struct MultiThread;
impl Part for MultiThread {
    type Case = Case;
    fn name(&self) -> &'static str {
        "multi-thread"
    }
    fn cases(&self, tier: Tier) -> u32 {
        tier.pick(900, 6000)
    }
    fn strategy(&self, tier: Tier) -> BoxedStrategy<Case> {
        case_strategy(tier, true)
    }
    fn check(&self, c: &Case) -> Outcome {
        check_case(c, true)
    }
    /// the completion counter and the yield hook are process-global
    fn serial(&self) -> bool {
        true
    }
    fn describe(&self, c: &Case) -> serde_json::Value {
        json!({"query": query_text(c), "rules": rules_text(c), "schedules": c.sched_seeds.len(), "events": c.events.len()})
    }
    fn max_shrink_iters(&self, tier: Tier) -> u32 {
        tier.pick(150, 600)
    }
}

fn main() {
    let mut s = Session::start(
        "C10",
        "exploration",
        "engines built through RSPBuilder from generated RSP-QL text: one window [RANGE w STEP s] (w, s in 1..6, s>w included) on a variable stream, a WINDOW block of 1-3 triple patterns, RSTREAM/ISTREAM/DSTREAM, 0-3 N3 rules whose conclusions share vocabulary with the stream \
         (a derived triple can equal a raw one that arrives later), in-order streams of 3-25/40 events over a 4-subject universe (re-occurring triples, triples leaving and re-entering). Oracle: a probe CSPARQLWindow with identical parameters fed the identical stream gives the content of every firing; \
         expected rows per firing = reference BGP evaluation over content + least fixpoint of the rules over that content, through the stream-operator model; part `single-thread` compares the rows emitted during each add call (multiset); \
         part `multi-thread` re-runs the case under 4 (quick) / 24 (thorough) perturbed schedules (hook H1 yield points + producer pauses), waits for the firing counter, cuts the emitted sequence at the single-thread firing boundaries and compares chunk by chunk. \
         Non-trivial = >=3 firings, a triple evicted between two firings, >=1 non-empty emission and (with rules) a derived fact present in one firing and underivable in the next; inner_evaluations counts engine runs.",
    );
    s.assume("schedules are perturbed (seeded sleeps/yields at the hook's yield points and between events), not enumerated: the harness does not own the OS scheduler");
    s.assume("stop()/flush() is not called: flushing open windows is outside the per-firing trigger model");
    s.assume("IRIs only in stream triples, so the comparison does not depend on a loader's literal convention");
    s.run(&SingleThread);
    s.run(&MultiThread);
    std::process::exit(s.finish());
}
