use kolibrie::rsp::simple_r2r::SimpleR2R;
use kolibrie::rsp::r2r::R2ROperator;
use kolibrie::rsp_engine::QueryExecutionMode;
fn main() {
    let mut r = SimpleR2R::with_execution_mode(QueryExecutionMode::Volcano);
    let rules = std::env::args().nth(1).unwrap();
    let res = r.load_rules(&rules);
    eprintln!("load: {:?} rules={}", res, r.rules.len());
    for rule in &r.rules { eprintln!("{:?}", rule); }
    let dict = r.item.dictionary.read().unwrap();
    eprintln!("{:?}", dict.id_to_string);
}
