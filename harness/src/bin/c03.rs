//! C03 — SPARQL Update applies exactly the standard effect, atomically.
//! Model-based histories: generated update texts executed with SparqlDatabase::execute_update and,
//! step by step, with reference SPARQL Update semantics over the lexical dataset model.

use kolibrie::sparql_database::SparqlDatabase;
use kvh::engine::*;
use kvh::sparql::*;
use kvh::update::*;
use proptest::prelude::*;
use serde::{Deserialize, Serialize};
use serde_json::json;

#[derive(Clone, Debug, Serialize, Deserialize)]
struct Case {
    data: DataSet,
    ops: Vec<UpdOp>,
    use_prefix: bool,
}

fn form(op: &UpdOp) -> &'static str {
    match op {
        UpdOp::InsertData(_) => "insert-data",
        UpdOp::DeleteData(_) => "delete-data",
        UpdOp::Modify { delete, insert, .. } => match (delete.is_empty(), insert.is_empty()) {
            (true, false) => "insert-where",
            (false, true) | (true, true) => "delete-where",
            (false, false) => "delete-insert-where",
        },
        UpdOp::DeleteWhere(_) => "delete-where-shorthand",
        UpdOp::Rejected(_) => "rejected",
    }
}

fn tpl_has(qs: &[TplQuad], f: &dyn Fn(&TplQuad) -> bool) -> bool {
    qs.iter().any(|q| f(q))
}

fn check_case(c: &Case) -> Outcome {
    let mut o = Outcome::new();
    let up = UPrinter { use_prefix: c.use_prefix };
    let mut db = SparqlDatabase::new();
    if let Err(site) = catch(|| load_into(&mut db, &c.data)) {
        o.panic("loading the initial dataset", &site);
        return o;
    }
    let mut model = c.data.lexical();
    let mut where_changed = false;
    let mut interesting = false;
    let mut success_before = false;
    for (i, op) in c.ops.iter().enumerate() {
        let text = up.op(op);
        let fm = form(op);
        o.class(fm);
        if let UpdOp::DeleteWhere(qs) = op {
            let ground = qs.len() >= 2 && qs.iter().all(|q| q.t.iter().all(|t| matches!(t, TT::C(_))) && !matches!(q.graph, Some(GName::Var(_))));
            if ground {
                let present = qs
                    .iter()
                    .filter(|q| {
                        let lex = |t: &TT| if let TT::C(c) = t { c.lex() } else { String::new() };
                        let tr = [lex(&q.t[0]), lex(&q.t[1]), lex(&q.t[2])];
                        match &q.graph {
                            None => model.default.contains(&tr),
                            Some(GName::Iri(g)) => model.named.get(g).map_or(false, |s| s.contains(&tr)),
                            _ => false,
                        }
                    })
                    .count();
                o.class("delete-where-shorthand:ground-block>=2");
                o.class_if(present > 0 && present < qs.len(), "delete-where-shorthand:ground-block-partly-present");
            }
        }
        let pre = snapshot(&db);
        if pre != model {
            o.fail("c03.harness.model_drift", format!("step {i}: model and store differ before the step (harness bug)\nmodel {:?}\nstore {:?}", model, pre));
            return o;
        }
        let Some(eff) = step_effect(op, &model) else {
            o.ambiguous += 1;
            o.class("stopped:ambiguous-where");
            break;
        };
        let res = catch(|| db.execute_update(&text));
        o.inner_evals += 1;
        let res = match res {
            Err(site) => {
                o.panic(&format!("step {i} execute_update({text})"), &site);
                return o;
            }
            Ok(r) => r,
        };
        if let UpdOp::Rejected(_) = op {
            match res {
                Ok(s) => {
                    o.fail("c03.rejected.accepted", format!("step {i}: malformed / unsupported request accepted with {:?}: {text}", s));
                    return o;
                }
                Err(_) => {
                    let post = snapshot(&db);
                    if post != model {
                        o.fail("c03.rejected.mutated", format!("step {i}: rejected request changed the dataset: {text}\nbefore {:?}\nafter {:?}", model, post));
                        return o;
                    }
                    if success_before {
                        interesting = true;
                        o.class("rejected-after-success");
                    }
                    continue;
                }
            }
        }
        let summary = match res {
            Ok(s) => s,
            Err(e) => {
                // atomicity: an error must leave the dataset unchanged; and a well-formed supported request must not fail
                let post = snapshot(&db);
                if post != model {
                    o.fail(format!("c03.err.mutated[{fm}]"), format!("step {i}: request failed ({e}) but changed the dataset: {text}"));
                } else {
                    o.fail(format!("c03.err[{fm}]"), format!("step {i}: well-formed supported update rejected: {e}\n{text}"));
                }
                return o;
            }
        };
        let (post_model, deleted, inserted) = apply_effect(&model, &eff);
        let engine_post = snapshot(&db);
        let has_bnode = match op {
            UpdOp::InsertData(q) => tpl_has(q, &|q| q.t.iter().any(|t| matches!(t, TT::BNode(_)))),
            UpdOp::Modify { insert, .. } => tpl_has(insert, &|q| q.t.iter().any(|t| matches!(t, TT::BNode(_)))),
            _ => false,
        };
        let gvar = match op {
            UpdOp::Modify { insert, delete, .. } => tpl_has(insert, &|q| matches!(q.graph, Some(GName::Var(_)))) || tpl_has(delete, &|q| matches!(q.graph, Some(GName::Var(_)))),
            UpdOp::DeleteWhere(q) => tpl_has(q, &|q| matches!(q.graph, Some(GName::Var(_)))),
            _ => false,
        };
        let tag = format!("{fm}{}{}", if has_bnode { ",bnode" } else { "" }, if gvar { ",graph-var" } else { "" });
        match match_fresh_bnodes(&post_model, &engine_post, &all_terms(&model)) {
            Ok(m) => model = m,
            Err(e) if e == "BUDGET" => {
                o.skipped.push("bnode-matching-budget");
                break;
            }
            Err(e) => {
                o.fail(format!("c03.state[{tag}]"), format!("step {i}: dataset after the step differs from SPARQL Update semantics: {e}\nrequest: {text}\nsolutions of WHERE: {}\npre-state: {:?}", eff.solutions, pre));
                return o;
            }
        }
        if summary.deleted_quads != deleted || summary.inserted_quads != inserted {
            o.fail(
                format!("c03.counts[{fm}]"),
                format!("step {i}: summary (inserted {}, deleted {}) but {} quads were actually inserted and {} deleted\nrequest: {text}\npre-state: {:?}", summary.inserted_quads, summary.deleted_quads, inserted, deleted, pre),
            );
            return o;
        }
        success_before = true;
        // generator-quality classes
        let changed = deleted + inserted > 0;
        let where_driven = matches!(op, UpdOp::Modify { .. } | UpdOp::DeleteWhere(_));
        if where_driven && changed {
            where_changed = true;
            o.class("where-driven-change");
        }
        if eff.delete.intersection(&eff.insert).next().is_some() {
            interesting = true;
            o.class("delete-insert-overlap");
        }
        if eff.skipped_illegal > 0 {
            interesting = true;
            o.class("illegal-instantiation-skipped");
        }
        if eff.skipped_unbound > 0 {
            o.class("unbound-template-variable-skipped");
        }
        if has_bnode && eff.solutions >= 2 && where_driven {
            interesting = true;
            o.class("bnode-template-2plus-solutions");
        }
        if gvar && changed {
            o.class("graph-var-template-changed");
        }
        if let UpdOp::Modify { delete, insert, where_ } = op {
            // self-referential: a template quad equals (up to s/o swap) a WHERE triple pattern
            let mut wt = vec![];
            fn walk(e: &[Elem], out: &mut Vec<[PT; 3]>) {
                for x in e {
                    match x {
                        Elem::Bgp(ts) => out.extend(ts.iter().cloned()),
                        Elem::Group(g) | Elem::Graph(_, g) => walk(g, out),
                        Elem::Union(bs) => bs.iter().for_each(|b| walk(b, out)),
                        _ => {}
                    }
                }
            }
            walk(where_, &mut wt);
            let same = |q: &TplQuad| {
                wt.iter().any(|t| {
                    let eq = |a: &TT, b: &PT| match (a, b) {
                        (TT::Var(x), PT::Var(y)) => x == y,
                        (TT::C(x), PT::C(y)) => x == y,
                        _ => false,
                    };
                    eq(&q.t[1], &t[1]) && ((eq(&q.t[0], &t[0]) && eq(&q.t[2], &t[2])) || (eq(&q.t[0], &t[2]) && eq(&q.t[2], &t[0])))
                })
            };
            if changed && (delete.iter().any(same) || insert.iter().any(same)) {
                interesting = true;
                o.class("self-referential-template");
            }
        }
    }
    o.nontrivial = where_changed && interesting;
    o
}

struct Histories;
impl Part for Histories {
    type Case = Case;
    fn name(&self) -> &'static str {
        "histories"
    }
    fn cases(&self, tier: Tier) -> u32 {
        tier.pick(60_000, 200_000)
    }
    fn strategy(&self, tier: Tier) -> BoxedStrategy<Case> {
        let maxops = tier.pick(14usize, 25usize);
        (dataset_strategy(14, 6), proptest::collection::vec(raw_op(), 1..=maxops), any::<bool>())
            .prop_map(|(data, raw, use_prefix)| {
                let ops = {
                    let mut b = UBuilder::new(&data);
                    raw.iter().map(|r| b.op(r)).collect()
                };
                Case { data, ops, use_prefix }
            })
            .boxed()
    }
    fn check(&self, c: &Case) -> Outcome {
        check_case(c)
    }
    fn describe(&self, c: &Case) -> serde_json::Value {
        let up = UPrinter { use_prefix: c.use_prefix };
        json!({"initial_quads": c.data.size(), "ops": c.ops.iter().map(|o| up.op(o)).collect::<Vec<_>>()})
    }
}

fn main() {
    let mut s = Session::start(
        "C03",
        "exploration",
        "histories: generated initial dataset (default + named graphs) followed by 1-14 (quick) / 1-25 (thorough) update requests drawn from the six supported forms \
         (INSERT DATA / DELETE DATA over default and GRAPH blocks, INSERT-WHERE, DELETE-WHERE, DELETE-INSERT-WHERE, DELETE WHERE shorthand; WHERE patterns from the C01 grammar: BGP, GRAPH ?g/<g>, UNION, FILTER, VALUES, BIND; \
         templates that reuse WHERE variables in other positions, copy or s/o-swap a WHERE pattern (self-referential), use GRAPH ?g, blank-node labels, variables possibly bound to literals in s/p/graph position, variables unbound in some solutions) \
         interleaved with malformed/unsupported requests; executed as text with SparqlDatabase::execute_update. After EVERY step the store's complete lexical dataset (all quads + named-graph catalog) must equal the reference model \
         (WHERE evaluated once on the pre-state, delete-then-insert, per-solution fresh blank nodes matched up to an injective renaming onto new _: terms), the UpdateSummary must equal the number of quads that changed, and a rejected request must change nothing. \
         Non-trivial = a WHERE-driven operation changed the dataset and the history has a delete/insert overlap, a self-referential template, a blank-node template with >=2 solutions, a rejected request after a successful one, or a skipped illegal instantiation.",
    );
    s.assume("term kinds are lexically decidable in the generated universe (IRIs http://..., blank nodes _:..., everything else literal), which is what the engine's own legality heuristics rely on");
    s.assume("named-graph identity appears with the first insertion into the graph and survives deletion of its last quad (C04's catalog life-cycle)");
    s.run(&Histories);
    std::process::exit(s.finish());
}
