//! C19 — inconsistency-tolerant answers are those true in every maximal repair.
//!
//! Part `query`: facts + integrity constraints (premise-only rules) + a goal pattern. Oracle: enumerate
//! all 2^n subsets of the facts with an own conjunctive matcher; repairs = subset-maximal consistent
//! subsets; expected answers = bindings whose instantiated goal lies in every repair. The same case is
//! evaluated RUNS times on freshly built reasoners (fresh hash seeds) and every run must equal the oracle.
//! Part `materialise`: additionally 1-2 rules; after `infer_new_facts_semi_naive_with_repairs` the final
//! store must contain no constraint match (the two further clauses of DESIGN.md are statistics only).

use datalog::reasoning::Reasoner;
use kvh::engine::*;
use proptest::prelude::*;
use serde::{Deserialize, Serialize};
use shared::rule::Rule;
use shared::terms::Term;
use std::collections::{BTreeMap, BTreeSet};

// ------------------------------------------------------------------------------------------
// case
// ------------------------------------------------------------------------------------------

/// constant pool (indices into one vocabulary; the engine sees the strings "c<k>")
const ENT: [u32; 4] = [0, 1, 2, 3];
const CLS: [u32; 3] = [4, 5, 6];
const TYPE: u32 = 7;
const P: u32 = 8;
const Q: u32 = 9;
const U: u32 = 10; // predicate of the by-construction unrelated facts (no template constraint mentions it)
const NCONST: u32 = 11;
const MAX_FACTS: usize = 9;
const RUNS_QUERY: usize = 10;
const RUNS_MAT: usize = 4;

#[derive(Clone, Debug, Serialize, Deserialize, PartialEq, Eq, PartialOrd, Ord)]
enum T {
    V(String),
    C(u32),
}
type Pat = [T; 3];
type Fact = [u32; 3];
type Env = BTreeMap<String, u32>;

#[derive(Clone, Debug, Serialize, Deserialize)]
struct RuleC {
    premise: Vec<Pat>,
    conclusion: Vec<Pat>,
}

#[derive(Clone, Debug, Serialize, Deserialize)]
struct Case {
    facts: Vec<Fact>,
    constraints: Vec<Vec<Pat>>,
    #[serde(default)]
    rules: Vec<RuleC>,
    goal: Pat,
}

fn v(n: &str) -> T {
    T::V(n.to_string())
}
fn c(k: u32) -> T {
    T::C(k)
}

// ------------------------------------------------------------------------------------------
// own matcher (specification side)
// ------------------------------------------------------------------------------------------

fn unify(p: &Pat, f: &Fact, env: &Env) -> Option<Env> {
    let mut e = env.clone();
    for i in 0..3 {
        match &p[i] {
            T::C(k) => {
                if *k != f[i] {
                    return None;
                }
            }
            T::V(n) => match e.get(n) {
                Some(b) => {
                    if *b != f[i] {
                        return None;
                    }
                }
                None => {
                    e.insert(n.clone(), f[i]);
                }
            },
        }
    }
    Some(e)
}

/// Enumerate all matches of the conjunction `prem` over `facts`; `f(env, support)` returns true to stop.
fn search(prem: &[Pat], i: usize, facts: &[Fact], env: &Env, used: &mut Vec<usize>, f: &mut dyn FnMut(&Env, &[usize]) -> bool) -> bool {
    if i == prem.len() {
        return f(env, used);
    }
    for (k, fact) in facts.iter().enumerate() {
        if let Some(e) = unify(&prem[i], fact, env) {
            used.push(k);
            let stop = search(prem, i + 1, facts, &e, used, f);
            used.pop();
            if stop {
                return true;
            }
        }
    }
    false
}

fn has_match(prem: &[Pat], facts: &[Fact]) -> bool {
    !prem.is_empty() && search(prem, 0, facts, &Env::new(), &mut vec![], &mut |_, _| true)
}

fn consistent(constraints: &[Vec<Pat>], facts: &[Fact]) -> bool {
    !constraints.iter().any(|k| has_match(k, facts))
}

fn subst(p: &Pat, env: &Env) -> Option<Fact> {
    let mut out = [0u32; 3];
    for i in 0..3 {
        out[i] = match &p[i] {
            T::C(k) => *k,
            T::V(n) => *env.get(n)?,
        };
    }
    Some(out)
}

fn subset(facts: &[Fact], mask: usize) -> Vec<Fact> {
    facts.iter().enumerate().filter(|(i, _)| mask >> i & 1 == 1).map(|(_, f)| *f).collect()
}

struct Repairs {
    n: usize,
    cons: Vec<bool>,
    /// masks of the subset-maximal consistent subsets
    maximal: Vec<usize>,
    /// intersection of all maximal repairs
    core: usize,
    /// facts taking part in at least one constraint match over the complete fact set
    in_conflict: usize,
    /// consistent subsets a top-down search that stops at the first consistent set can reach
    /// (only used to classify a failure, never for the expected value)
    reachable_consistent: Vec<usize>,
}

fn repairs_of(facts: &[Fact], constraints: &[Vec<Pat>]) -> Repairs {
    let n = facts.len();
    let full = (1usize << n) - 1;
    let cons: Vec<bool> = (0..=full).map(|m| consistent(constraints, &subset(facts, m))).collect();
    let mut maximal = vec![];
    for m in 0..=full {
        if !cons[m] {
            continue;
        }
        // literal definition: no consistent strict superset
        let mut is_max = true;
        let rest = full & !m;
        let mut add = rest;
        while add != 0 {
            if cons[m | add] {
                is_max = false;
                break;
            }
            add = (add - 1) & rest;
        }
        if is_max {
            maximal.push(m);
        }
    }
    let core = maximal.iter().fold(full, |a, m| a & m);
    let mut in_conflict = 0usize;
    for k in constraints {
        if k.is_empty() {
            continue;
        }
        search(k, 0, facts, &Env::new(), &mut vec![], &mut |_, used| {
            for u in used {
                in_conflict |= 1 << u;
            }
            false
        });
    }
    let mut reach = vec![false; full + 1];
    reach[full] = true;
    let mut reachable_consistent = vec![];
    for m in (0..=full).rev() {
        // every strict subset is numerically smaller, so descending order visits parents first
        if !reach[m] {
            continue;
        }
        if cons[m] {
            reachable_consistent.push(m);
        } else {
            for i in 0..n {
                if m >> i & 1 == 1 {
                    reach[m & !(1 << i)] = true;
                }
            }
        }
    }
    Repairs { n, cons, maximal, core, in_conflict, reachable_consistent }
}

// ------------------------------------------------------------------------------------------
// engine side
// ------------------------------------------------------------------------------------------

fn name(k: u32) -> String {
    format!("c{k}")
}

struct Built {
    r: Reasoner,
    id_of: BTreeMap<u32, u32>,
    const_of: BTreeMap<u32, u32>,
}

fn max_const(case: &Case) -> u32 {
    let mut m = NCONST;
    let mut see = |t: &T| {
        if let T::C(k) = t {
            m = m.max(*k + 1)
        }
    };
    for k in case.constraints.iter().flatten().chain(case.rules.iter().flat_map(|r| r.premise.iter().chain(r.conclusion.iter()))).chain(std::iter::once(&case.goal)) {
        k.iter().for_each(&mut see);
    }
    for f in &case.facts {
        for x in f {
            m = m.max(*x + 1);
        }
    }
    m
}

fn build(case: &Case) -> Built {
    let mut r = Reasoner::new();
    for f in &case.facts {
        r.add_abox_triple(&name(f[0]), &name(f[1]), &name(f[2]));
    }
    let mut id_of = BTreeMap::new();
    let mut const_of = BTreeMap::new();
    {
        let mut d = r.dictionary.write().unwrap();
        for k in 0..max_const(case) {
            let id = d.encode(&name(k));
            id_of.insert(k, id);
            const_of.insert(id, k);
        }
    }
    let term = |t: &T| match t {
        T::V(n) => Term::Variable(n.clone()),
        T::C(k) => Term::Constant(id_of[k]),
    };
    let pat = |p: &Pat| (term(&p[0]), term(&p[1]), term(&p[2]));
    for k in &case.constraints {
        r.add_constraint(Rule {
            premise: k.iter().map(&pat).collect(),
            negative_premise: vec![],
            filters: vec![],
            // dummy conclusion exactly as in the repository's examples
            conclusion: vec![(Term::Constant(0), Term::Constant(0), Term::Constant(0))],
        });
    }
    for ru in &case.rules {
        r.add_rule(Rule { premise: ru.premise.iter().map(&pat).collect(), negative_premise: vec![], filters: vec![], conclusion: ru.conclusion.iter().map(&pat).collect() });
    }
    Built { r, id_of, const_of }
}

fn dedup_facts(facts: &[Fact]) -> Vec<Fact> {
    let mut seen = BTreeSet::new();
    facts.iter().filter(|f| seen.insert(**f)).cloned().collect()
}

fn fmt_answers(a: &BTreeSet<Env>) -> String {
    let v: Vec<String> = a.iter().map(|e| format!("{:?}", e)).collect();
    format!("[{}]", v.join(", "))
}

// ------------------------------------------------------------------------------------------
// part query
// ------------------------------------------------------------------------------------------

fn check_query(case: &Case) -> Outcome {
    let mut out = Outcome::new();
    let facts = dedup_facts(&case.facts);
    if facts.len() > 12 || case.constraints.iter().any(|k| k.is_empty()) {
        out.skipped.push("outside-domain");
        return out;
    }
    let rp = repairs_of(&facts, &case.constraints);
    let full = (1usize << rp.n) - 1;
    // goal-matching facts and the expected answers
    let mut goal_mask = 0usize;
    let mut binding_of: BTreeMap<usize, Env> = BTreeMap::new();
    for (i, f) in facts.iter().enumerate() {
        if let Some(e) = unify(&case.goal, f, &Env::new()) {
            goal_mask |= 1 << i;
            binding_of.insert(i, e);
        }
    }
    let expected: BTreeSet<Env> = binding_of.iter().filter(|(i, _)| rp.core >> **i & 1 == 1).map(|(_, e)| e.clone()).collect();
    let unrelated = full & !rp.in_conflict;
    // oracle self-check (a theorem of the definition): unrelated facts lie in every maximal repair
    if unrelated & !rp.core != 0 || rp.maximal.is_empty() || !rp.cons[0] {
        out.fail("c19.harness.oracle_selfcheck", format!("unrelated={unrelated:b} core={:b} maximal={:?}", rp.core, rp.maximal));
        return out;
    }

    let nvars = {
        let mut s = BTreeSet::new();
        for t in &case.goal {
            if let T::V(n) = t {
                s.insert(n.clone());
            }
        }
        s.len()
    };
    let var_positions = case.goal.iter().filter(|t| matches!(t, T::V(_))).count();
    out.class_if(!rp.cons[full], "inconsistent-input");
    out.class_if(rp.cons[full], "consistent-input");
    out.class_if(rp.maximal.len() >= 2, "repairs>=2");
    out.class_if(rp.maximal.len() >= 4, "repairs>=4");
    out.class_if(rp.maximal.len() >= 8, "repairs>=8");
    out.class_if(case.constraints.iter().any(|k| k.len() >= 3 && has_match(k, &facts)), "3way-conflict-active");
    out.class_if(case.constraints.iter().any(|k| k.len() == 1 && has_match(k, &facts)), "denial-single-premise-active");
    out.class_if((0..rp.n).any(|i| !rp.cons[1 << i]), "self-conflicting-fact");
    out.class_if(unrelated & goal_mask != 0, "unrelated-fact-matches-goal");
    out.class_if(goal_mask & rp.in_conflict != 0, "conflicting-fact-matches-goal");
    out.class_if(goal_mask & rp.in_conflict & rp.core != 0, "conflict-participant-in-every-repair-matches-goal");
    out.class_if(goal_mask == 0, "goal-matches-nothing");
    out.class_if(expected.is_empty() && goal_mask != 0, "expected-empty-though-goal-matches");
    out.class_if(!expected.is_empty() && expected.len() < binding_of.len(), "expected-proper-subset-of-matches");
    out.class(match nvars {
        0 => "goal-0-vars",
        1 => "goal-1-var",
        _ => "goal-2-vars",
    });
    out.class_if(var_positions > nvars, "goal-repeated-var");
    out.class_if(rp.reachable_consistent.len() > rp.maximal.len(), "search-can-reach-nonmaximal-consistent-set");
    out.nontrivial = !rp.cons[full] && rp.maximal.len() >= 2 && unrelated & goal_mask != 0;

    let mut per_run: Vec<String> = vec![];
    let mut distinct_results: BTreeSet<BTreeSet<Env>> = BTreeSet::new();
    for run in 0..RUNS_QUERY {
        out.inner_evals += 1;
        let got = catch(|| {
            let b = build(case);
            let term = |t: &T| match t {
                T::V(n) => Term::Variable(n.clone()),
                T::C(k) => Term::Constant(b.id_of[k]),
            };
            let goal = (term(&case.goal[0]), term(&case.goal[1]), term(&case.goal[2]));
            let res = b.r.query_with_repairs(&goal);
            (res, b.const_of)
        });
        let (res, const_of) = match got {
            Ok(x) => x,
            Err(site) => {
                out.panic(&format!("query_with_repairs run {run}"), &site);
                return out;
            }
        };
        // decode: set of binding maps over the harness vocabulary
        let mut answers: BTreeSet<Env> = BTreeSet::new();
        let mut foreign = false;
        let raw_len = res.len();
        for m in res {
            let mut e = Env::new();
            for (k, id) in m {
                match const_of.get(&id) {
                    Some(cst) => {
                        e.insert(k, *cst);
                    }
                    None => {
                        foreign = true;
                        e.insert(k, 1_000_000 + id);
                    }
                }
            }
            answers.insert(e);
        }
        out.class_if(raw_len > answers.len(), "engine-returned-duplicate-bindings");
        per_run.push(format!("{}", answers.len()));
        distinct_results.insert(answers.clone());
        if answers == expected {
            continue;
        }
        let repairs_txt = || rp.maximal.iter().map(|m| format!("{:?}", subset(&facts, *m))).collect::<Vec<_>>().join(" | ");
        let detail = |what: &str| {
            format!(
                "run {run}: {what}\n goal {:?}\n facts {:?}\n constraints {:?}\n maximal repairs: {}\n expected answers {}\n engine answers   {}",
                case.goal,
                facts,
                case.constraints,
                repairs_txt(),
                fmt_answers(&expected),
                fmt_answers(&answers)
            )
        };
        // which facts do the engine's answers stand for?
        let mut ga = 0usize;
        let mut not_a_fact = foreign;
        for a in &answers {
            let keys_ok = a.len() == nvars;
            match (keys_ok, subst(&case.goal, a)) {
                (true, Some(f)) => match facts.iter().position(|x| *x == f) {
                    Some(i) => ga |= 1 << i,
                    None => not_a_fact = true,
                },
                _ => not_a_fact = true,
            }
        }
        if not_a_fact {
            out.fail("c19.query.answer_not_a_fact", detail("an answer does not instantiate the goal to a stored fact"));
            continue;
        }
        let invented = ga & !rp.core;
        let missing = (rp.core & goal_mask) & !ga;
        if invented != 0 {
            out.fail("c19.query.answer_not_in_every_repair", detail(&format!("answered fact(s) {:?} are absent from some maximal repair", subset(&facts, invented))));
        }
        if missing != 0 {
            // Classification of the missing-answer failure (structural predicate of the case):
            // is the answer set exactly what the intersection gives over all maximal repairs PLUS some
            // consistent non-maximal subsets that a stop-at-first-consistent top-down search can reach?
            // The largest such family compatible with the answers is {S reachable consistent, S ⊇ ga};
            // it yields the smallest possible intersection, so the answers are explainable iff that
            // intersection (restricted to goal-matching facts) is exactly ga.
            let fam: Vec<usize> = rp.reachable_consistent.iter().copied().filter(|s| s & ga == ga).collect();
            let has_nonmax = fam.iter().any(|s| !rp.maximal.contains(s));
            let all_max_in = rp.maximal.iter().all(|m| fam.contains(m));
            let inter = fam.iter().fold(full, |a, s| a & s) & goal_mask;
            let explainable = invented == 0 && has_nonmax && all_max_in && inter == ga;
            out.class_if(missing & unrelated != 0, "FAIL-unrelated-fact-not-answered");
            if explainable {
                out.fail(
                    "c19.query.nonmaximal_repair_order_dependent",
                    detail(&format!("fact(s) {:?} lie in every maximal repair but are not answered; the answers equal the intersection over the maximal repairs plus non-maximal consistent subsets", subset(&facts, missing))),
                );
            } else {
                out.fail("c19.query.missing_answer", detail(&format!("fact(s) {:?} lie in every maximal repair but are not answered (not explainable by additional non-maximal consistent subsets)", subset(&facts, missing))));
            }
        }
    }
    out.class_if(distinct_results.len() > 1, "runs-differ");
    if !out.failures.is_empty() {
        let tail = format!("\n answers per run: [{}] ({} distinct result sets over {} runs)", per_run.join(","), distinct_results.len(), RUNS_QUERY);
        for f in out.failures.iter_mut() {
            f.detail.push_str(&tail);
        }
    }
    out
}

// ------------------------------------------------------------------------------------------
// part materialise
// ------------------------------------------------------------------------------------------

fn check_materialise(case: &Case) -> Outcome {
    let mut out = Outcome::new();
    let facts = dedup_facts(&case.facts);
    if facts.len() > 12 || case.constraints.iter().any(|k| k.is_empty()) || case.rules.iter().any(|r| r.premise.is_empty()) {
        out.skipped.push("outside-domain");
        return out;
    }
    let rp = repairs_of(&facts, &case.constraints);
    let full = (1usize << rp.n) - 1;
    out.class_if(!rp.cons[full], "inconsistent-input");
    out.class_if(rp.maximal.len() >= 2, "repairs>=2");
    // would some rule conclusion over the input facts violate a constraint?
    let mut blocked_candidate = false;
    let mut derivable_from_input = false;
    for ru in &case.rules {
        search(&ru.premise, 0, &facts, &Env::new(), &mut vec![], &mut |e, _| {
            for cc in &ru.conclusion {
                if let Some(f) = subst(cc, e) {
                    if !facts.contains(&f) {
                        derivable_from_input = true;
                        let mut plus = facts.clone();
                        plus.push(f);
                        // the new fact takes part in a constraint match together with input facts
                        let last = plus.len() - 1;
                        for k in &case.constraints {
                            search(k, 0, &plus, &Env::new(), &mut vec![], &mut |_, used| {
                                if used.contains(&last) {
                                    blocked_candidate = true;
                                }
                                blocked_candidate
                            });
                        }
                    }
                }
            }
            false
        });
    }
    out.class_if(derivable_from_input, "rule-fires-on-input");
    out.class_if(blocked_candidate, "rule-conclusion-conflicts");
    out.nontrivial = !rp.cons[full] || blocked_candidate;

    let mut finals: BTreeSet<Vec<Fact>> = BTreeSet::new();
    for run in 0..RUNS_MAT {
        out.inner_evals += 1;
        let got = catch(|| {
            let mut b = build(case);
            let inferred = b.r.infer_new_facts_semi_naive_with_repairs();
            let store = b.r.dataset_index.query(None, None, None);
            (inferred, store, b.const_of)
        });
        let (inferred, store, const_of) = match got {
            Ok(x) => x,
            Err(site) => {
                out.panic(&format!("infer_new_facts_semi_naive_with_repairs run {run}"), &site);
                return out;
            }
        };
        let dec = |id: u32| const_of.get(&id).copied().unwrap_or(1_000_000 + id);
        let mut fin: Vec<Fact> = store.iter().map(|t| [dec(t.subject), dec(t.predicate), dec(t.object)]).collect();
        fin.sort();
        fin.dedup();
        // THE property clause: the final store has no constraint match
        for k in &case.constraints {
            let mut witness: Option<Vec<Fact>> = None;
            search(k, 0, &fin, &Env::new(), &mut vec![], &mut |_, used| {
                witness = Some(used.iter().map(|i| fin[*i]).collect());
                true
            });
            if let Some(w) = witness {
                out.fail(
                    "c19.materialise.inconsistent_final_store",
                    format!("run {run}: final store matches constraint {:?} with facts {:?}\n input {:?}\n rules {:?}\n constraints {:?}\n final store {:?}", k, w, facts, case.rules, case.constraints, fin),
                );
            }
        }
        // statistics only (beyond the property text)
        let sup = rp.maximal.iter().any(|m| subset(&facts, *m).iter().all(|f| fin.contains(f)));
        out.class_if(sup, "stat:final-superset-of-a-maximal-repair");
        out.class_if(!sup, "stat:final-NOT-superset-of-any-maximal-repair");
        let added: Vec<Fact> = fin.iter().filter(|f| !facts.contains(f)).cloned().collect();
        out.class_if(!added.is_empty(), "facts-added");
        let mut all_derivable = true;
        for a in &added {
            let mut ok = false;
            for ru in &case.rules {
                search(&ru.premise, 0, &fin, &Env::new(), &mut vec![], &mut |e, _| {
                    ok = ru.conclusion.iter().any(|cc| subst(cc, e) == Some(*a));
                    ok
                });
                if ok {
                    break;
                }
            }
            all_derivable &= ok;
        }
        out.class_if(!all_derivable, "stat:added-fact-NOT-derivable");
        let inf: BTreeSet<Fact> = inferred.iter().map(|t| [dec(t.subject), dec(t.predicate), dec(t.object)]).collect();
        out.class_if(inf.iter().any(|f| !fin.contains(f)), "stat:returned-fact-NOT-in-store");
        let dropped = facts.iter().filter(|f| !fin.contains(f)).count();
        out.class_if(dropped > 0, "input-facts-dropped-by-repair");
        finals.insert(fin);
    }
    out.class_if(finals.len() > 1, "stat:final-store-differs-between-runs");
    out
}

// ------------------------------------------------------------------------------------------
// generators (construct conflicts, never filter)
// ------------------------------------------------------------------------------------------

#[derive(Clone, Debug)]
struct KParam {
    kind: u8,
    a: u16,
    b: u16,
    cc: u16,
    free: Vec<Pat>,
    witnesses: Vec<(u16, u16, u16, u16)>,
}

fn mk_constraint(k: &KParam) -> Vec<Pat> {
    let ca = pick_idx(k.a, 3);
    let cb = (ca + 1 + pick_idx(k.b, 2)) % 3;
    let ea = pick_idx(k.a, 4);
    let eb = (ea + 1 + pick_idx(k.b, 3)) % 4;
    let pr = [P, Q][pick_idx(k.cc, 2)];
    let po = if pr == P { Q } else { P };
    let (x, y, z) = (v("x"), v("y"), v("z"));
    match k.kind {
        // disjoint classes
        0..=3 => vec![[x.clone(), c(TYPE), c(CLS[ca])], [x, c(TYPE), c(CLS[cb])]],
        // three-way disjointness
        4 | 5 => vec![[x.clone(), c(TYPE), c(CLS[0])], [x.clone(), c(TYPE), c(CLS[1])], [x, c(TYPE), c(CLS[2])]],
        // functional-style conflict between two constants
        6 | 7 => vec![[x.clone(), c(pr), c(ENT[ea])], [x, c(pr), c(ENT[eb])]],
        // disjoint properties
        8 => vec![[x.clone(), c(pr), y.clone()], [x, c(po), y]],
        // domain / range conflicts
        9 => vec![[x.clone(), c(pr), y], [x, c(TYPE), c(CLS[ca])]],
        10 => vec![[x, c(pr), y.clone()], [y, c(TYPE), c(CLS[ca])]],
        // asymmetry (reflexive facts conflict with themselves)
        11 => vec![[x.clone(), c(pr), y.clone()], [y, c(pr), x]],
        // conflict anchored at a constant entity
        12 => vec![[c(ENT[ea]), c(pr), y.clone()], [y, c(TYPE), c(CLS[ca])]],
        // single-premise denial
        13 => {
            if k.cc & 1 == 0 {
                vec![[x, c(TYPE), c(CLS[ca])]]
            } else {
                vec![[c(ENT[ea]), c(pr), y]]
            }
        }
        // three-way chain
        14 => vec![[x, c(pr), y.clone()], [y, c(po), z.clone()], [z, c(TYPE), c(CLS[ca])]],
        // "functional" without inequality: every pr-fact conflicts with itself
        15 => vec![[x.clone(), c(pr), y], [x, c(pr), z]],
        // three-way with two classes and a property
        16 => vec![[x.clone(), c(TYPE), c(CLS[ca])], [y.clone(), c(TYPE), c(CLS[cb])], [x, c(pr), y]],
        _ => k.free.clone(),
    }
}

fn instantiate(prem: &[Pat], w: &(u16, u16, u16, u16)) -> Vec<Fact> {
    let preds = [TYPE, P, Q, U];
    let mut env = Env::new();
    env.insert("x".into(), ENT[pick_idx(w.0, 4)]);
    env.insert("y".into(), ENT[pick_idx(w.1, 4)]);
    env.insert("z".into(), ENT[pick_idx(w.2, 4)]);
    env.insert("w".into(), preds[pick_idx(w.3, 4)]);
    prem.iter().filter_map(|p| subst(p, &env)).collect()
}

fn free_pattern() -> impl Strategy<Value = Pat> {
    let node = prop_oneof![
        3 => (0usize..3).prop_map(|i| v(["x", "y", "z"][i])),
        2 => (0u32..7).prop_map(c),
    ];
    let pred = prop_oneof![
        8 => (0usize..4).prop_map(|i| c([TYPE, P, Q, U][i])),
        1 => Just(v("w")),
    ];
    (node.clone(), pred, node).prop_map(|(s, p, o)| [s, p, o])
}

fn kparam() -> impl Strategy<Value = KParam> {
    (0u8..19, sel(), sel(), sel(), proptest::collection::vec(free_pattern(), 1..=3), proptest::collection::vec((sel(), sel(), sel(), sel()), 0..=2))
        .prop_map(|(kind, a, b, cc, free, witnesses)| KParam { kind, a, b, cc, free, witnesses })
}

fn random_fact() -> impl Strategy<Value = Fact> {
    (0u8..8, sel(), sel(), sel()).prop_map(|(k, a, b, cc)| {
        let e1 = ENT[pick_idx(a, 4)];
        let e2 = ENT[pick_idx(b, 4)];
        match k {
            0..=2 => [e1, TYPE, CLS[pick_idx(cc, 3)]],
            3 | 4 => [e1, P, e2],
            5 | 6 => [e1, Q, e2],
            _ => [e1, U, e2],
        }
    })
}

fn unrelated_fact() -> impl Strategy<Value = Fact> {
    (sel(), sel()).prop_map(|(a, b)| [ENT[pick_idx(a, 4)], U, ENT[pick_idx(b, 4)]])
}

#[derive(Clone, Debug)]
struct GoalParam {
    which: u8,
    idx: u16,
    rnd: Fact,
    mask: u8,
    names: u8,
}

fn mk_goal(g: &GoalParam, facts: &[Fact], n_unrelated: usize) -> Pat {
    let base: Fact = if g.which < 5 && n_unrelated > 0 {
        facts[pick_idx(g.idx, n_unrelated.min(facts.len()))]
    } else if g.which < 9 {
        facts[pick_idx(g.idx, facts.len())]
    } else {
        g.rnd
    };
    // positions turned into variables
    let pos: &[usize] = match g.mask {
        0 | 1 => &[],
        2 | 3 => &[0],
        4 | 5 => &[2],
        6 => &[1],
        7..=10 => &[0, 2],
        11 => &[0, 1],
        _ => &[1, 2],
    };
    let (n1, n2) = match g.names {
        0..=2 => ("X", "Y"),
        3 => ("x", "y"), // same names as the constraint variables
        4 => ("v0", "v1"),
        5 => ("y", "x"),
        _ => ("X", "X"), // repeated variable
    };
    let mut out: Pat = [c(base[0]), c(base[1]), c(base[2])];
    for (k, p) in pos.iter().enumerate() {
        out[*p] = v(if k == 0 { n1 } else { n2 });
    }
    out
}

fn mk_rule(kind: u8, a: u16, b: u16, constraints: &[Vec<Pat>]) -> RuleC {
    if kind >= 12 {
        // aimed at a constraint: the conclusion is one of its premises (x->a, y->b, z->a, w->p),
        // fired by the always-present u-facts or by a class membership
        let k = &constraints[pick_idx(a, constraints.len())];
        let prem = &k[pick_idx(b, k.len())];
        let ren = |t: &T| match t {
            T::V(n) if n == "x" || n == "z" => v("a"),
            T::V(n) if n == "y" => v("b"),
            T::V(_) => c(P),
            T::C(k) => c(*k),
        };
        let concl: Pat = [ren(&prem[0]), ren(&prem[1]), ren(&prem[2])];
        let premise = match kind {
            12..=14 => vec![[v("a"), c(U), v("b")]],
            15 => vec![[v("b"), c(U), v("a")]],
            16 => vec![[v("a"), c(TYPE), c(CLS[pick_idx(b, 3)])], [v("b"), c(U), v("b")]],
            _ => vec![[v("a"), c(P), v("b")]],
        };
        // keep the rule safe: every conclusion variable is bound by the premise
        return RuleC { premise, conclusion: vec![concl] };
    }
    let ca = CLS[pick_idx(a, 3)];
    let cb = CLS[(pick_idx(a, 3) + 1 + pick_idx(b, 2)) % 3];
    let e = ENT[pick_idx(b, 4)];
    let pr = [P, Q][pick_idx(b, 2)];
    let (x, y, z) = (v("a"), v("b"), v("d"));
    match kind {
        // the shape of the repository's example: a property implies a class
        0 | 1 => RuleC { premise: vec![[x.clone(), c(U), y]], conclusion: vec![[x, c(TYPE), c(ca)]] },
        2 => RuleC { premise: vec![[x, c(pr), y.clone()]], conclusion: vec![[y, c(TYPE), c(ca)]] },
        3 | 4 => RuleC { premise: vec![[x.clone(), c(TYPE), c(ca)]], conclusion: vec![[x, c(TYPE), c(cb)]] },
        5 => RuleC { premise: vec![[x.clone(), c(pr), y.clone()]], conclusion: vec![[y, c(pr), x]] },
        6 => RuleC { premise: vec![[x.clone(), c(pr), y.clone()], [y, c(pr), z.clone()]], conclusion: vec![[x, c(pr), z]] },
        7 => RuleC { premise: vec![[x.clone(), c(U), y.clone()]], conclusion: vec![[x, c(pr), y]] },
        8 => RuleC { premise: vec![[x.clone(), c(TYPE), c(ca)]], conclusion: vec![[x, c(pr), c(e)]] },
        9 => RuleC { premise: vec![[x.clone(), c(U), y.clone()]], conclusion: vec![[x, c(TYPE), c(ca)], [y, c(TYPE), c(cb)]] },
        10 => RuleC { premise: vec![[x.clone(), c(P), y.clone()]], conclusion: vec![[x, c(Q), y]] },
        _ => RuleC { premise: vec![[x.clone(), c(pr), y], [x.clone(), c(TYPE), c(ca)]], conclusion: vec![[x, c(TYPE), c(cb)]] },
    }
}

fn case_strategy(with_rules: bool) -> BoxedStrategy<Case> {
    let goal = (0u8..10, sel(), random_fact(), 0u8..13, 0u8..7).prop_map(|(which, idx, rnd, mask, names)| GoalParam { which, idx, rnd, mask, names });
    let rules = if with_rules { proptest::collection::vec((0u8..24, sel(), sel()), 1..=2).boxed() } else { Just(vec![]).boxed() };
    (
        proptest::collection::vec(unrelated_fact(), 1..=3),
        proptest::collection::vec(kparam(), 1..=3),
        proptest::collection::vec(random_fact(), 0..=3),
        goal,
        rules,
    )
        .prop_map(|(unrel, ks, extras, g, rules)| {
            let constraints: Vec<Vec<Pat>> = ks.iter().map(mk_constraint).collect();
            let unrel = dedup_facts(&unrel);
            let n_unrelated = unrel.len();
            let mut facts = unrel;
            // round-robin over the constraints so that every constraint gets a witness before the cap
            for round in 0..2 {
                for (k, prem) in ks.iter().zip(constraints.iter()) {
                    if let Some(w) = k.witnesses.get(round) {
                        facts.extend(instantiate(prem, w));
                    }
                }
            }
            facts.extend(extras);
            let mut facts = dedup_facts(&facts);
            facts.truncate(MAX_FACTS);
            let mut pad = 0;
            while facts.len() < 3 {
                let f = [ENT[pad], U, ENT[pad]];
                if !facts.contains(&f) {
                    facts.push(f);
                }
                pad += 1;
            }
            let goal = mk_goal(&g, &facts, n_unrelated);
            let rules = rules.iter().map(|(k, a, b)| mk_rule(*k, *a, *b, &constraints)).collect();
            Case { facts, constraints, rules, goal }
        })
        .boxed()
}

struct QueryPart;
impl Part for QueryPart {
    type Case = Case;
    fn name(&self) -> &'static str {
        "query"
    }
    fn cases(&self, tier: Tier) -> u32 {
        tier.pick(8000, 120_000)
    }
    fn strategy(&self, _: Tier) -> BoxedStrategy<Case> {
        case_strategy(false)
    }
    fn check(&self, case: &Case) -> Outcome {
        check_query(case)
    }
    fn replay_repeats(&self) -> u32 {
        50
    }
}

struct MaterialisePart;
impl Part for MaterialisePart {
    type Case = Case;
    fn name(&self) -> &'static str {
        "materialise"
    }
    fn cases(&self, tier: Tier) -> u32 {
        tier.pick(2500, 40_000)
    }
    fn strategy(&self, _: Tier) -> BoxedStrategy<Case> {
        case_strategy(true)
    }
    fn check(&self, case: &Case) -> Outcome {
        check_materialise(case)
    }
    fn replay_repeats(&self) -> u32 {
        12
    }
}

fn main() {
    let mut s = Session::start(
        "C19",
        "exploration",
        "Part `query`: 3-9 facts over 4 entities, 3 classes, predicates type/p/q/u; 1-3 premise-only constraints from 17 templates (class disjointness, 3-way disjointness, \
         conflicts between constants, disjoint properties, domain/range, asymmetry, constant-anchored, single-premise denial, 3-premise chains, self-join without inequality) or free-form 1-3 premise conjunctions; \
         conflicts are constructed by instantiating the constraint premises (0-2 witnesses per constraint), 1-3 facts over a predicate no template constraint mentions, 0-3 random facts; goal = a stored fact (biased to the unrelated ones) or a random triple \
         with 0-2 positions replaced by variables (also repeated / constraint-named variables). Oracle: all 2^n subsets, own matcher, subset-maximal consistent subsets, answers = goal instances in every one of them; \
         each case evaluated 10x on freshly built reasoners, every run compared with the oracle as a set of binding maps. \
         Part `materialise`: same plus 1-2 safe rules from 12 templates or aimed at a constraint (conclusion = one of its premises); 4 runs; asserts only that the final store has no constraint match. \
         Non-trivial (query) = the input is inconsistent, has >=2 maximal repairs and >=1 fact that takes part in no conflict matches the goal; (materialise) = inconsistent input or a rule conclusion that conflicts. distinct = distinct case.",
    );
    s.assume("consistency of a fact set = no constraint premise conjunction has a match in it (variables shared across premises, one fact may serve several premises); filters and negative premises on constraints are outside the domain (the engine ignores them)");
    s.assume("terms are dictionary ids obtained through add_abox_triple/Dictionary::encode as in the repository's contradictions example; answers are compared as sets (duplicate bindings only recorded as a class)");
    s.assume("materialise: only the property's clause 'ends in a consistent fact set' is asserted; 'superset of a maximal repair' and 'added facts derivable' are recorded as stat: classes");
    s.run(&QueryPart);
    s.run(&MaterialisePart);
    std::process::exit(s.finish());
}
