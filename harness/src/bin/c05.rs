//! C05 — rule materialisation computes exactly the least model (stratified model with safe negation), for every
//! evaluation strategy, every insertion order, and a second run derives nothing.
//! Oracle: naive T_P least fixpoint (`kvh::oracle_datalog`), independent of the engine.

use datalog::reasoning::Reasoner;
use kvh::engine::*;
use kvh::gen_datalog::*;
use kvh::oracle_datalog::{least_model, stratified_model, Fact, OProgram};
use proptest::prelude::*;
use serde::{Deserialize, Serialize};
use shared::provenance::BooleanProvenance;
use shared::triple::Triple;
use std::collections::BTreeSet;

#[derive(Clone, Debug, Serialize, Deserialize)]
struct Case {
    prog: Program,
    /// sort keys inducing the permuted insertion order of the second reasoner
    fact_keys: Vec<u16>,
    rule_keys: Vec<u16>,
    /// second reasoner: add the rules before the facts (changes dictionary id assignment)
    rules_first: bool,
    /// if the program has a rule with a negative premise: also offer an unsafe variant of it to try_add_rule
    unsafe_sel: Option<u16>,
}

#[derive(Clone, Copy, PartialEq, Debug)]
enum Strat {
    Naive,
    Semi,
    Par,
    Prov,
}

impl Strat {
    fn name(self) -> &'static str {
        match self {
            Strat::Naive => "naive",
            Strat::Semi => "semi_naive",
            Strat::Par => "parallel",
            Strat::Prov => "provenance",
        }
    }
    fn run(self, r: &mut Reasoner) -> Vec<Triple> {
        match self {
            Strat::Naive => r.infer_new_facts_naive(),
            Strat::Semi => r.infer_new_facts_semi_naive(),
            Strat::Par => r.infer_new_facts_semi_naive_parallel(),
            Strat::Prov => r.infer_new_facts_with_provenance(BooleanProvenance).0,
        }
    }
}

fn model_set(p: &OProgram, input: &BTreeSet<Fact>) -> Option<BTreeSet<Fact>> {
    stratified_model(p, input).ok().map(|m| m.keys().copied().collect())
}

/// Which root cause explains a wrong result of the parallel strategy (see the module notes in DESIGN.md, C05).
/// The three listed classes are only chosen when the result lies between the least models of
///   L = the rules the strategy does implement (<= 2 premises, constant predicates), filters kept, and
///   U = all rules with <= 2 premises, filters dropped;
/// anything outside that sandwich, or a wrong result on a program without any of the three features, is generic.
fn classify_parallel(prog: &Program, o: &OProgram, input: &BTreeSet<Fact>, got: &BTreeSet<Fact>) -> &'static str {
    const GENERIC: &str = "c05.parallel.mismatch";
    const THREE: &str = "c05.parallel.missing.rule_with_3plus_premises";
    const FILTER: &str = "c05.parallel.filter_ignored";
    const VARPRED: &str = "c05.parallel.variable_predicate_premise";
    let has3 = prog.rules.iter().any(|r| r.premise.len() >= 3);
    let has_f = prog.rules.iter().any(|r| !r.filters.is_empty());
    let has_v = prog.rules.iter().any(|r| r.has_var_predicate_premise());
    if !(has3 || has_f || has_v) {
        return GENERIC;
    }
    let variant = |keep: &dyn Fn(&RuleSpec) -> bool, drop_filters: bool| -> Option<BTreeSet<Fact>> {
        let rules = o
            .rules
            .iter()
            .zip(&prog.rules)
            .filter(|(_, spec)| keep(spec))
            .map(|(r, _)| {
                let mut r = r.clone();
                if drop_filters {
                    r.filters.clear();
                }
                r
            })
            .collect();
        model_set(&OProgram { rules, num: o.num.clone() }, input)
    };
    let lower = variant(&|r| r.premise.len() <= 2 && !r.has_var_predicate_premise(), false);
    let upper = variant(&|r| r.premise.len() <= 2, true);
    match (lower, upper) {
        (Some(l), Some(u)) if l.is_subset(got) && got.is_subset(&u) => {}
        _ => return GENERIC,
    }
    if has3 && variant(&|r| r.premise.len() <= 2, false).as_ref() == Some(got) {
        return THREE;
    }
    if has_f && variant(&|_| true, true).as_ref() == Some(got) {
        return FILTER;
    }
    if has_v && !has3 && !has_f {
        return VARPRED;
    }
    if has3 {
        THREE
    } else if has_f {
        FILTER
    } else {
        VARPRED
    }
}

fn show_prog(p: &Program) -> String {
    let t = |t: &T| match t {
        T::V(v) => format!("?{v}"),
        T::C(c) => c.clone(),
    };
    let a = |a: &Atom| format!("({} {} {})", t(&a[0]), t(&a[1]), t(&a[2]));
    let mut s = String::from("facts:");
    for f in &p.facts {
        s.push_str(&format!(" ({} {} {})", f[0], f[1], f[2]));
    }
    for r in &p.rules {
        s.push_str("\n  rule: ");
        s.push_str(&r.premise.iter().map(&a).collect::<Vec<_>>().join(", "));
        for n in &r.negative {
            s.push_str(&format!(", NOT {}", a(n)));
        }
        for f in &r.filters {
            s.push_str(&format!(", FILTER(?{} {} {})", f.var, f.op, f.value));
        }
        s.push_str(" -> ");
        s.push_str(&r.conclusion.iter().map(&a).collect::<Vec<_>>().join(", "));
    }
    s
}

struct Ctx<'a> {
    case: &'a Case,
    tr: &'a Translated,
    input: &'a BTreeSet<Fact>,
    model: &'a BTreeSet<Fact>,
}

fn check_run(cx: &Ctx, strat: Strat, permuted: bool, out: &mut Outcome) {
    let p = &cx.case.prog;
    let label = format!("{} ({} insertion order)", strat.name(), if permuted { "permuted" } else { "given" });
    let (fo, ro, rf) = if permuted {
        (perm_from_keys(p.facts.len(), &cx.case.fact_keys), perm_from_keys(p.rules.len(), &cx.case.rule_keys), cx.case.rules_first)
    } else {
        ((0..p.facts.len()).collect(), (0..p.rules.len()).collect(), false)
    };
    let mut syms = cx.tr.syms.clone();
    let mut r = match catch(|| load(p, &fo, &ro, rf, &|_| None)) {
        Ok(Ok(r)) => r,
        Ok(Err(e)) => {
            out.fail("c05.safe_rule_rejected", format!("{label}: {e}\n{}", show_prog(p)));
            return;
        }
        Err(site) => {
            out.panic(&format!("{label}: loading"), &site);
            return;
        }
    };
    // unsafe negation must be rejected and must leave the reasoner as it was
    if strat == Strat::Prov {
        if let (Some(sel), Some(nr)) = (cx.case.unsafe_sel, p.rules.iter().find(|r| !r.negative.is_empty())) {
            if let Some(bad) = make_unsafe(nr, sel) {
                debug_assert!(!bad.is_safe());
                let before = r.rules.len();
                let rule = engine_rule(&bad, &r);
                match catch(|| r.try_add_rule(rule)) {
                    Ok(Err(_)) => {
                        if r.rules.len() != before {
                            out.fail("c05.naf.rejected_rule_stored", format!("{label}: try_add_rule returned Err but the rule list grew"));
                        }
                        out.class("unsafe-rule-rejected");
                    }
                    Ok(Ok(())) => out.fail("c05.naf.unsafe_rule_accepted", format!("try_add_rule accepted a rule whose negative premise uses ?U which no positive premise binds: {:?}", bad)),
                    Err(site) => {
                        out.panic("try_add_rule(unsafe rule)", &site);
                        return;
                    }
                }
            }
        }
    }
    let before: BTreeSet<Fact> = store_facts(&r, &mut syms).into_iter().collect();
    if &before != cx.input {
        out.fail("c05.load.store_differs", format!("{label}: store after loading {} != inserted facts {}", syms.show_set(before.iter()), syms.show_set(cx.input.iter())));
        return;
    }
    let returned = match catch(|| strat.run(&mut r)) {
        Ok(v) => v,
        Err(site) => {
            out.panic(&format!("{label}: first run"), &site);
            return;
        }
    };
    out.inner_evals += 1;
    let store_vec = store_facts(&r, &mut syms);
    let store: BTreeSet<Fact> = store_vec.iter().copied().collect();
    if store.len() != store_vec.len() {
        out.fail(format!("c05.{}.store_lists_duplicates", strat.name()), format!("{label}: query(None,None,None) lists {} triples, {} distinct", store_vec.len(), store.len()));
    }
    let missing: Vec<Fact> = cx.model.difference(&store).copied().collect();
    let invented: Vec<Fact> = store.difference(cx.model).copied().collect();
    let store_ok = missing.is_empty() && invented.is_empty();
    if !store_ok {
        let detail = format!(
            "{label}: store after materialisation differs from the least model.\n missing (derivable, absent): {}\n invented (present, not derivable): {}\n{}",
            syms.show_set(missing.iter()),
            syms.show_set(invented.iter()),
            show_prog(p)
        );
        if strat == Strat::Par {
            out.fail(classify_parallel(p, &cx.tr.prog, cx.input, &store), detail);
        } else {
            if !missing.is_empty() {
                out.fail(format!("c05.{}.missing", strat.name()), detail.clone());
            }
            if !invented.is_empty() {
                out.fail(format!("c05.{}.invented", strat.name()), detail);
            }
        }
    }
    // returned vector: set of the new facts, no duplicates
    let ret_vec = decode_triples(&r, &returned, &mut syms);
    let ret: BTreeSet<Fact> = ret_vec.iter().copied().collect();
    if ret.len() != ret_vec.len() {
        out.fail(format!("c05.{}.returned_duplicates", strat.name()), format!("{label}: returned vector has {} entries, {} distinct: {}\n{}", ret_vec.len(), ret.len(), syms.show_set(ret_vec.iter()), show_prog(p)));
    }
    let expect_ret: BTreeSet<Fact> = if store_ok { cx.model.difference(cx.input).copied().collect() } else { store.difference(cx.input).copied().collect() };
    if ret != expect_ret {
        out.fail(
            format!("c05.{}.{}", strat.name(), if store_ok { "returned_set" } else { "returned_vs_store" }),
            format!("{label}: returned {} expected (new facts) {}\n{}", syms.show_set(ret.iter()), syms.show_set(expect_ret.iter()), show_prog(p)),
        );
    }
    if !store_ok {
        out.skipped.push("second-run-after-wrong-first-run");
        return;
    }
    // a second run derives nothing and leaves the store unchanged
    match catch(|| strat.run(&mut r)) {
        Ok(v2) => {
            out.inner_evals += 1;
            let after: BTreeSet<Fact> = store_facts(&r, &mut syms).into_iter().collect();
            let d = decode_triples(&r, &v2, &mut syms);
            if strat == Strat::Par && after != store {
                // The parallel strategy restarts with delta = all facts, so a derivation that one of its known
                // defects lost (or a filter it ignores) can surface only now: same root causes, same classification,
                // judged on the store it ends with (generic signature if that store is outside the explained range).
                let sig = match classify_parallel(p, &cx.tr.prog, cx.input, &after) {
                    "c05.parallel.mismatch" => "c05.parallel.second_run_store_changed",
                    known => known,
                };
                out.fail(sig, format!("{label}: first run ended on the least model, the second run then returned {} and changed the store to {}\n{}", syms.show_set(d.iter()), syms.show_set(after.iter()), show_prog(p)));
                return;
            }
            if !v2.is_empty() {
                out.fail(format!("c05.{}.second_run_nonempty", strat.name()), format!("{label}: second run returned {}\n{}", syms.show_set(d.iter()), show_prog(p)));
            }
            if after != store {
                out.fail(format!("c05.{}.second_run_store_changed", strat.name()), format!("{label}: store changed by the second run: before {} after {}\n{}", syms.show_set(store.iter()), syms.show_set(after.iter()), show_prog(p)));
            }
        }
        Err(site) => out.panic(&format!("{label}: second run"), &site),
    }
}

fn run_case(case: &Case) -> Outcome {
    let mut out = Outcome::new();
    let p = &case.prog;
    // generator-quality classes that do not need the oracle
    out.class_if(p.is_recursive(), "recursive");
    out.class_if(p.rules.iter().any(|r| r.premise.len() >= 3), "rule-3plus-premises");
    out.class_if(p.rules.iter().any(|r| r.has_var_predicate_premise()), "var-predicate-premise");
    out.class_if(p.rules.iter().any(|r| r.conclusion.iter().any(|a| matches!(a[1], T::V(_)))), "var-predicate-conclusion");
    out.class_if(p.rules.iter().any(|r| r.has_repeated_var_atom()), "repeated-var-in-atom");
    out.class_if(p.rules.iter().any(|r| r.has_const_so_in_premise()), "const-in-premise");
    out.class_if(p.rules.iter().any(|r| r.conclusion.len() >= 2), "multi-conclusion");
    out.class_if(p.rules.iter().any(|r| !r.filters.is_empty()), "filter");
    out.class_if(p.has_negation(), "negation");
    if !p.rules.iter().all(|r| r.is_safe()) {
        out.skipped.push("unsafe-program");
        return out;
    }
    let tr = match translate(p) {
        Ok(t) => t,
        Err(_) => {
            out.ambiguous += 1;
            out.skipped.push("filter-meaning-undefined");
            return out;
        }
    };
    let input: BTreeSet<Fact> = tr.facts.iter().copied().collect();
    let rounds = match stratified_model(&tr.prog, &input) {
        Ok(m) => m,
        Err(_) => {
            // a numeric filter met a non-numeric term: the property does not say what that means
            out.ambiguous += 1;
            out.skipped.push("numeric-filter-on-non-numeric-term");
            return out;
        }
    };
    let model: BTreeSet<Fact> = rounds.keys().copied().collect();
    let depth = rounds.values().copied().max().unwrap_or(0);
    out.nontrivial = model.len() > input.len() && depth >= 2;
    out.class_if(model.len() > input.len(), "derives-something");
    out.class_if(depth >= 2, "depth>=2");
    out.class_if(depth >= 4, "depth>=4");
    if p.rules.iter().any(|r| !r.filters.is_empty()) {
        let nf = translate(&p.without_filters()).ok().and_then(|t| model_set(&t.prog, &input));
        out.class_if(nf.map_or(false, |m| m != model), "filter-removes-derivation");
    }
    if p.has_negation() {
        let pos_only: BTreeSet<Fact> = least_model(&tr.prog, &input).map(|m| m.keys().copied().collect()).unwrap_or_default();
        out.class_if(pos_only != model, "negated-rule-fires");
        let nn = translate(&p.without_negative_premises()).ok().and_then(|t| model_set(&t.prog, &input));
        out.class_if(nn.map_or(false, |m| m != model), "negation-blocks-derivation");
    }
    let cx = Ctx { case, tr: &tr, input: &input, model: &model };
    let strategies: &[Strat] = if p.has_negation() { &[Strat::Prov] } else { &[Strat::Naive, Strat::Semi, Strat::Par, Strat::Prov] };
    if p.has_negation() {
        out.skipped.push("negation:only-provenance-strategy-implements-it");
    }
    for s in strategies {
        for permuted in [false, true] {
            check_run(&cx, *s, permuted, &mut out);
        }
    }
    out
}

struct Programs;
impl Part for Programs {
    type Case = Case;
    fn name(&self) -> &'static str {
        "programs"
    }
    fn cases(&self, tier: Tier) -> u32 {
        tier.pick(6000, 120_000)
    }
    fn strategy(&self, _tier: Tier) -> BoxedStrategy<Case> {
        (program_strategy(GenCfg::c05()), proptest::collection::vec(any::<u16>(), 30), proptest::collection::vec(any::<u16>(), 5), any::<bool>(), proptest::option::weighted(0.7, any::<u16>()))
            .prop_map(|(prog, fact_keys, rule_keys, rules_first, unsafe_sel)| Case { prog, fact_keys, rule_keys, rules_first, unsafe_sel })
            .boxed()
    }
    fn check(&self, case: &Case) -> Outcome {
        run_case(case)
    }
}

/// Entry point of the libFuzzer target `pbt_c05` (fuzz/fuzz_targets/pbt_c05.rs includes this file as a module).
#[allow(dead_code)]
pub fn fuzz_one(data: &[u8]) -> Vec<Failure> {
    thread_local! {
        static S: (BoxedStrategy<Case>, std::collections::HashSet<String>) = (Programs.strategy(Tier::Thorough), open_known_sigs_of("C05"));
    }
    S.with(|(st, known)| kvh::engine::fuzz_one(&Programs, st, data, known))
}

fn main() {
    let mut s = Session::start(
        "C05",
        "exploration",
        "generated Datalog programs over triples: 3-30 facts over 4-6 constants and 3-4 predicates (+ schema facts `p sub q`), 1-5 rules with 1-4 premises built from templates \
         (transitivity, symmetry, composition, sub-property with variable predicates, 3-chain, ?x p ?x, constants, two conclusions) or fully random atoms (constants, repeated variables, variable predicates in any position), \
         optional numeric / identity filters, 25% of programs with one stratum of negation (heads n/m in no body, no variable predicates). Each program is materialised on fresh reasoners by \
         naive, semi_naive, semi_naive_parallel and with_provenance(Boolean), each in the given and in a permuted insertion order (facts, rules, rules-before-facts), and compared with an independent naive T_P least fixpoint: \
         store == model in both directions, returned vector == new facts without duplicates, second run returns nothing and changes nothing; unsafe negated rules must be rejected. \
         Non-trivial = the program derives at least one new fact and some fact needs derivation height >= 2; distinct = distinct program+orders.",
    );
    s.assume("filters mean: numeric comparison of the plain-decimal literal bound to the variable against a number; =/!= between two premise variables is term identity (as in the repository's tests); programs where a numeric filter meets a non-numeric term are not judged (counted as ambiguous)");
    s.assume("for the generated negation class (heads of negated rules occur in no rule body, no variable predicates) the stratified model equals: least model of the positive rules, then one application of the negated rules");
    s.assume("negation is only compared on infer_new_facts_with_provenance: the other strategies document no negation support");
    s.run(&Programs);
    // coverage-guided search over the same strategy and oracle (libFuzzer drives the random stream): thorough tier
    s.fuzz_campaign(&Programs, "libfuzzer:programs", "pbt_c05", 1_500, 8, 8192);
    std::process::exit(s.finish());
}
