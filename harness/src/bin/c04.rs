//! C04 — every read path of the store agrees with the set of quads written.
//! Model-based: BTreeSet of quads + graph catalog; exhaustive small-universe sequences and
//! random long sequences; full read sweep against the model.

use kolibrie::sparql_database::SparqlDatabase;
use kvh::engine::*;
use proptest::prelude::*;
use serde::{Deserialize, Serialize};
use shared::dataset_index::{DatasetIndex, GraphId, Quad};
use shared::triple::Triple;
use std::collections::{BTreeSet, HashSet};

#[derive(Clone, Debug, Serialize, Deserialize, PartialEq)]
enum Op {
    InsQ(u32, u32, u32, u32), // s p o g  (g = 0 is the default graph)
    DelQ(u32, u32, u32, u32),
    InsT(u32, u32, u32),
    DelT(u32, u32, u32),
    Create(u32),
    ClearG(u32),
    Drop(u32),
    ClearAll,
    Rebuild,
}

#[derive(Clone, Debug, Serialize, Deserialize)]
struct Case {
    subjects: Vec<u32>,
    preds: Vec<u32>,
    objects: Vec<u32>,
    graphs: Vec<u32>, // named graph ids (non-zero)
    ops: Vec<Op>,
    /// check the complete read sweep after every operation (else only after the last one)
    sweep_every: bool,
}

fn gid(g: u32) -> GraphId {
    if g == 0 {
        GraphId::Default
    } else {
        GraphId::Named(g)
    }
}

#[derive(Default, Clone)]
struct Model {
    quads: BTreeSet<(u32, u32, u32, u32)>, // (g, s, p, o), g = 0 default
    named: BTreeSet<u32>,
}

fn opt_choices(vals: &[u32]) -> Vec<Option<u32>> {
    let mut v = vec![None];
    v.extend(vals.iter().map(|x| Some(*x)));
    v
}

fn m(x: Option<u32>, v: u32) -> bool {
    x.map_or(true, |y| y == v)
}

fn sorted_quads(mut v: Vec<Quad>) -> Vec<Quad> {
    v.sort();
    v
}

fn sweep(idx: &DatasetIndex, model: &Model, c: &Case) -> Result<u64, (String, String)> {
    let mut n = 0u64;
    let mut graphs_all: Vec<u32> = vec![0];
    graphs_all.extend(c.graphs.iter().copied());
    let never = c.graphs.iter().max().copied().unwrap_or(0) + 7;
    graphs_all.push(never);
    let ss = opt_choices(&c.subjects);
    let ps = opt_choices(&c.preds);
    let os = opt_choices(&c.objects);
    let q = |g: u32, s: u32, p: u32, o: u32| Quad { subject: s, predicate: p, object: o, graph: gid(g) };
    let expect = |gf: &dyn Fn(u32) -> bool, s: Option<u32>, p: Option<u32>, o: Option<u32>| -> Vec<Quad> {
        let mut v: Vec<Quad> = model.quads.iter().filter(|(g, a, b, d)| gf(*g) && m(s, *a) && m(p, *b) && m(o, *d)).map(|(g, a, b, d)| q(*g, *a, *b, *d)).collect();
        v.sort();
        v
    };
    // visibility sets for query_named_graphs
    let mut vis_sets: Vec<HashSet<GraphId>> = vec![HashSet::new()];
    for g in &graphs_all {
        let mut h = HashSet::new();
        h.insert(gid(*g));
        vis_sets.push(h);
    }
    vis_sets.push(graphs_all.iter().map(|g| gid(*g)).collect());
    if c.graphs.len() >= 2 {
        vis_sets.push([gid(c.graphs[0]), gid(0)].into_iter().collect());
    }
    for s in &ss {
        for p in &ps {
            for o in &os {
                let (s, p, o) = (*s, *p, *o);
                for g in &graphs_all {
                    let got = sorted_quads(idx.query_graph(gid(*g), s, p, o));
                    let exp = expect(&|x| x == *g, s, p, o);
                    n += 1;
                    if got != exp {
                        return Err(("c04.query_graph".into(), format!("query_graph({:?},{:?},{:?},{:?}) got {:?} expected {:?}", gid(*g), s, p, o, got, exp)));
                    }
                    let got2 = sorted_quads(idx.query_quads(s, p, o, Some(gid(*g))));
                    if got2 != exp {
                        return Err(("c04.query_quads_graph".into(), format!("query_quads(graph={:?},{:?},{:?},{:?}) got {:?} expected {:?}", gid(*g), s, p, o, got2, exp)));
                    }
                }
                let mut gd: Vec<Triple> = idx.query_default(s, p, o);
                gd.sort();
                let ed: Vec<Triple> = expect(&|x| x == 0, s, p, o).iter().map(|q| q.triple()).collect();
                n += 1;
                if gd != ed {
                    return Err(("c04.query_default".into(), format!("query_default({:?},{:?},{:?}) got {:?} expected {:?}", s, p, o, gd, ed)));
                }
                let mut gq: Vec<Triple> = idx.query(s, p, o);
                gq.sort();
                if gq != ed {
                    return Err(("c04.query".into(), format!("query({:?},{:?},{:?}) got {:?} expected {:?}", s, p, o, gq, ed)));
                }
                let gn = sorted_quads(idx.query_named_graphs(s, p, o, None));
                let en = expect(&|x| x != 0, s, p, o);
                n += 1;
                if gn != en {
                    return Err(("c04.query_named_graphs".into(), format!("query_named_graphs({:?},{:?},{:?},None) got {:?} expected {:?}", s, p, o, gn, en)));
                }
                for vis in &vis_sets {
                    let gv = sorted_quads(idx.query_named_graphs(s, p, o, Some(vis)));
                    let ev = expect(&|x| x != 0 && vis.contains(&gid(x)), s, p, o);
                    n += 1;
                    if gv != ev {
                        let mut vv: Vec<_> = vis.iter().collect();
                        vv.sort();
                        return Err(("c04.query_named_graphs_visible".into(), format!("query_named_graphs({:?},{:?},{:?},visible={:?}) got {:?} expected {:?}", s, p, o, vv, gv, ev)));
                    }
                }
                let ga = sorted_quads(idx.query_quads(s, p, o, None));
                let ea = expect(&|_| true, s, p, o);
                n += 1;
                if ga != ea {
                    return Err(("c04.query_quads_all".into(), format!("query_quads({:?},{:?},{:?},None) got {:?} expected {:?}", s, p, o, ga, ea)));
                }
                // merged graphs: all source lists of length <= 2 (duplicates included)
                let mut srcs: Vec<Vec<u32>> = vec![vec![]];
                for a in &graphs_all {
                    srcs.push(vec![*a]);
                    for b in &graphs_all {
                        srcs.push(vec![*a, *b]);
                    }
                }
                for src in srcs {
                    let gsrc: Vec<GraphId> = src.iter().map(|g| gid(*g)).collect();
                    let got = idx.query_merged_graphs(&gsrc, s, p, o);
                    let exp: Vec<Triple> = expect(&|x| src.contains(&x), s, p, o).iter().map(|q| q.triple()).collect::<BTreeSet<_>>().into_iter().collect();
                    let mut gs = got.clone();
                    gs.sort();
                    n += 1;
                    if gs != exp {
                        return Err(("c04.query_merged_graphs".into(), format!("query_merged_graphs({:?},{:?},{:?},{:?}) got {:?} expected {:?}", gsrc, s, p, o, got, exp)));
                    }
                }
            }
        }
    }
    for s in &c.subjects {
        for p in &c.preds {
            for o in &c.objects {
                let mut gs = vec![];
                for g in &graphs_all {
                    let has = model.quads.contains(&(*g, *s, *p, *o));
                    n += 1;
                    if idx.contains_quad(&q(*g, *s, *p, *o)) != has {
                        return Err(("c04.contains_quad".into(), format!("contains_quad({:?}) = {} expected {}", q(*g, *s, *p, *o), !has, has)));
                    }
                    if has {
                        gs.push(gid(*g));
                    }
                }
                let mut got = idx.graphs_for_triple(&Triple { subject: *s, predicate: *p, object: *o });
                got.sort();
                gs.sort();
                n += 1;
                if got != gs {
                    return Err(("c04.graphs_for_triple".into(), format!("graphs_for_triple({s},{p},{o}) got {:?} expected {:?}", got, gs)));
                }
            }
        }
    }
    let all = idx.all_quads();
    let mut exp_all: Vec<Quad> = model.quads.iter().map(|(g, s, p, o)| q(*g, *s, *p, *o)).collect();
    exp_all.sort();
    n += 1;
    if all != exp_all {
        return Err(("c04.all_quads".into(), format!("all_quads got {:?} expected (sorted, duplicate-free) {:?}", all, exp_all)));
    }
    let exp_named: Vec<GraphId> = model.named.iter().map(|g| GraphId::Named(*g)).collect();
    n += 1;
    if idx.named_graphs() != exp_named {
        return Err(("c04.named_graphs".into(), format!("named_graphs got {:?} expected {:?}", idx.named_graphs(), exp_named)));
    }
    let mut exp_graphs = vec![GraphId::Default];
    exp_graphs.extend(exp_named.iter().copied());
    if idx.graphs() != exp_graphs {
        return Err(("c04.graphs".into(), format!("graphs got {:?} expected {:?}", idx.graphs(), exp_graphs)));
    }
    for g in &graphs_all {
        let e = *g == 0 || model.named.contains(g);
        n += 1;
        if idx.graph_exists(gid(*g)) != e {
            return Err(("c04.graph_exists".into(), format!("graph_exists({:?}) = {} expected {}", gid(*g), !e, e)));
        }
        let l = model.quads.iter().filter(|x| x.0 == *g).count();
        if idx.len_graph(gid(*g)) != l {
            return Err(("c04.len_graph".into(), format!("len_graph({:?}) = {} expected {}", gid(*g), idx.len_graph(gid(*g)), l)));
        }
    }
    if idx.len_default() != model.quads.iter().filter(|x| x.0 == 0).count() {
        return Err(("c04.len_default".into(), "len_default".into()));
    }
    Ok(n)
}

fn run_case(c: &Case) -> Outcome {
    let mut out = Outcome::new();
    let mut db = SparqlDatabase::new();
    let mut model = Model::default();
    let mut inserted_into: BTreeSet<u32> = BTreeSet::new();
    for (i, op) in c.ops.iter().enumerate() {
        let r = catch(|| -> Option<(String, String)> {
            match op {
                Op::InsQ(s, p, o, g) => {
                    let exp = model.quads.insert((*g, *s, *p, *o));
                    if *g != 0 {
                        model.named.insert(*g);
                    }
                    let got = db.add_quad(Quad { subject: *s, predicate: *p, object: *o, graph: gid(*g) });
                    if got != exp {
                        return Some(("c04.ret.insert_quad".into(), format!("step {i} {:?}: returned {got}, expected {exp}", op)));
                    }
                }
                Op::DelQ(s, p, o, g) => {
                    let exp = model.quads.remove(&(*g, *s, *p, *o));
                    let got = db.delete_quad(&Quad { subject: *s, predicate: *p, object: *o, graph: gid(*g) });
                    if got != exp {
                        return Some(("c04.ret.delete_quad".into(), format!("step {i} {:?}: returned {got}, expected {exp}", op)));
                    }
                }
                Op::InsT(s, p, o) => {
                    model.quads.insert((0, *s, *p, *o));
                    db.add_triple(Triple { subject: *s, predicate: *p, object: *o });
                }
                Op::DelT(s, p, o) => {
                    let exp = model.quads.remove(&(0, *s, *p, *o));
                    let got = db.delete_triple(&Triple { subject: *s, predicate: *p, object: *o });
                    if got != exp {
                        return Some(("c04.ret.delete_triple".into(), format!("step {i} {:?}: returned {got}, expected {exp}", op)));
                    }
                }
                Op::Create(g) => {
                    let exp = *g != 0 && model.named.insert(*g);
                    let got = db.dataset_index.create_graph(gid(*g));
                    if got != exp {
                        return Some(("c04.ret.create_graph".into(), format!("step {i} {:?}: returned {got}, expected {exp}", op)));
                    }
                }
                Op::ClearG(g) => {
                    model.quads.retain(|x| x.0 != *g);
                    db.dataset_index.clear_graph(gid(*g));
                }
                Op::Drop(g) => {
                    let exp = *g == 0 || model.named.contains(g);
                    model.quads.retain(|x| x.0 != *g);
                    model.named.remove(g);
                    let got = db.dataset_index.drop_graph(gid(*g));
                    if got != exp {
                        return Some(("c04.ret.drop_graph".into(), format!("step {i} {:?}: returned {got}, expected {exp}", op)));
                    }
                }
                Op::ClearAll => {
                    model.quads.clear();
                    model.named.clear();
                    db.dataset_index.clear();
                }
                Op::Rebuild => {
                    db.build_all_indexes();
                }
            }
            None
        });
        match r {
            Err(site) => {
                out.panic(&format!("step {i} {:?}", op), &site);
                return out;
            }
            Ok(Some((sig, d))) => {
                out.fail(sig, d);
                return out;
            }
            Ok(None) => {}
        }
        match op {
            Op::InsQ(_, _, _, g) => {
                inserted_into.insert(*g);
            }
            Op::InsT(..) => {
                inserted_into.insert(0);
            }
            Op::DelQ(_, _, _, g) | Op::ClearG(g) | Op::Drop(g) => {
                if inserted_into.contains(g) {
                    out.nontrivial = true;
                }
            }
            Op::DelT(..) => {
                if inserted_into.contains(&0) {
                    out.nontrivial = true;
                }
            }
            Op::ClearAll => {
                if !inserted_into.is_empty() {
                    out.nontrivial = true;
                }
            }
            Op::Rebuild | Op::Create(_) => {}
        }
        if c.sweep_every || i + 1 == c.ops.len() {
            match catch(|| sweep(&db.dataset_index, &model, c)) {
                Err(site) => {
                    out.panic(&format!("read sweep after step {i}"), &site);
                    return out;
                }
                Ok(Err((sig, d))) => {
                    out.fail(sig, format!("after step {i} ({:?}): {d}", op));
                    return out;
                }
                Ok(Ok(n)) => out.inner_evals += n,
            }
        }
    }
    // generator-quality classes
    let has = |f: &dyn Fn(&Op) -> bool| c.ops.iter().any(|o| f(o));
    out.class_if(has(&|o| matches!(o, Op::Rebuild)), "rebuild");
    out.class_if(has(&|o| matches!(o, Op::Drop(_))), "drop");
    out.class_if(has(&|o| matches!(o, Op::ClearG(_))), "clear_graph");
    out.class_if(has(&|o| matches!(o, Op::Create(_))), "create");
    // re-insert after clear/drop; same triple in several graphs
    let mut cleared = false;
    let mut reinserted = false;
    let mut triples: std::collections::BTreeMap<(u32, u32, u32), BTreeSet<u32>> = Default::default();
    for o in &c.ops {
        match o {
            Op::ClearG(_) | Op::Drop(_) | Op::ClearAll => cleared = true,
            Op::InsQ(s, p, ob, g) => {
                if cleared {
                    reinserted = true;
                }
                triples.entry((*s, *p, *ob)).or_default().insert(*g);
            }
            _ => {}
        }
    }
    out.class_if(reinserted, "reinsert-after-clear");
    out.class_if(triples.values().any(|g| g.len() >= 2), "same-triple-several-graphs");
    out
}

struct Random;
impl Part for Random {
    type Case = Case;
    fn name(&self) -> &'static str {
        "random"
    }
    fn cases(&self, tier: Tier) -> u32 {
        tier.pick(6000, 120_000)
    }
    fn strategy(&self, tier: Tier) -> BoxedStrategy<Case> {
        let maxlen = tier.pick(60usize, 200usize);
        (1usize..=5, 1usize..=3, 1usize..=5, 1usize..=3, any::<bool>())
            .prop_flat_map(move |(ns, np, no, ng, overlap)| {
                let subjects: Vec<u32> = (1..=ns as u32).collect();
                let preds: Vec<u32> = (10..10 + np as u32).collect();
                // objects overlap with subjects (same ids) to stress the o/s index confusion
                let objects: Vec<u32> = (1..=no as u32).map(|x| if overlap { x } else { x + 20 }).collect();
                // graph ids may coincide with term ids
                let graphs: Vec<u32> = (0..ng as u32).map(|x| if overlap { x + 1 } else { x + 100 }).collect();
                let (s2, p2, o2, g2) = (subjects.clone(), preds.clone(), objects.clone(), graphs.clone());
                let op = (0u8..16, sel(), sel(), sel(), sel()).prop_map(move |(k, a, b, c, d)| {
                    let s = s2[pick_idx(a, s2.len())];
                    let p = p2[pick_idx(b, p2.len())];
                    let o = o2[pick_idx(c, o2.len())];
                    let gi = pick_idx(d, g2.len() + 1);
                    let g = if gi == 0 { 0 } else { g2[gi - 1] };
                    match k {
                        0..=4 => Op::InsQ(s, p, o, g),
                        5..=7 => Op::DelQ(s, p, o, g),
                        8 => Op::InsT(s, p, o),
                        9 => Op::DelT(s, p, o),
                        10 => Op::Create(g),
                        11 => Op::ClearG(g),
                        12 | 13 => Op::Drop(g),
                        14 => Op::Rebuild,
                        _ => {
                            if a < 6000 {
                                Op::ClearAll
                            } else {
                                Op::InsQ(s, p, o, g)
                            }
                        }
                    }
                });
                (Just(subjects), Just(preds), Just(objects), Just(graphs), proptest::collection::vec(op, 1..maxlen))
            })
            .prop_map(|(subjects, preds, objects, graphs, ops)| Case { subjects, preds, objects, graphs, ops, sweep_every: true })
            .boxed()
    }
    fn check(&self, case: &Case) -> Outcome {
        run_case(case)
    }
}

struct Exhaustive;
impl Part for Exhaustive {
    type Case = Case;
    fn name(&self) -> &'static str {
        "exhaustive"
    }
    fn cases(&self, _: Tier) -> u32 {
        0
    }
    fn strategy(&self, _: Tier) -> BoxedStrategy<Case> {
        Just(Case { subjects: vec![], preds: vec![], objects: vec![], graphs: vec![], ops: vec![], sweep_every: false }).boxed()
    }
    fn check(&self, case: &Case) -> Outcome {
        run_case(case)
    }
}

fn small_ops() -> Vec<Op> {
    let mut ops = vec![];
    for g in [0u32, 10, 11] {
        for s in [1u32, 2] {
            for o in [1u32, 2] {
                ops.push(Op::InsQ(s, 3, o, g));
                ops.push(Op::DelQ(s, 3, o, g));
            }
        }
        ops.push(Op::ClearG(g));
        ops.push(Op::Drop(g));
        if g != 0 {
            ops.push(Op::Create(g));
        }
    }
    ops.push(Op::ClearAll);
    ops.push(Op::Rebuild);
    ops
}

fn main() {
    let mut s = Session::start(
        "C04",
        "exploration",
        "operation sequences over DatasetIndex/SparqlDatabase store API compared against a BTreeSet<quad>+catalog model with a complete read sweep \
         (8 bound/unbound shapes x every term combination x every graph, named/merged/visible-set/all queries, membership, listings). \
         Part `exhaustive`: ALL sequences of length 1..=L (L=3 quick, 4 thorough) over 34 operations on a 12-quad universe (s in {1,2}, p=3, o in {1,2}, graphs Default,10,11), \
         return value checked at every step and full sweep after the last one (shorter sequences are themselves enumerated). Part `random`: universes up to 5x3x5 terms and 3 named graphs, up to 60/200 operations, sweep after every step. \
         Non-trivial = the sequence deletes/clears/drops from a graph after an insert into that graph; distinct = distinct operation sequence.",
    );
    s.assume("the model encodes the catalog life-cycle stated by the property: identity from create_graph or first insert until drop_graph/clear; clear_graph and deleting the last quad keep it");
    let maxlen = s.tier.pick(3usize, 4usize);
    let ops = small_ops();
    let n = ops.len();
    let iter = (1..=maxlen).flat_map(move |len| {
        let ops = ops.clone();
        let total = n.pow(len as u32);
        (0..total).map(move |mut k| {
            let mut seq = Vec::with_capacity(len);
            for _ in 0..len {
                seq.push(ops[k % n].clone());
                k /= n;
            }
            Case { subjects: vec![1, 2], preds: vec![3], objects: vec![1, 2], graphs: vec![10, 11], ops: seq, sweep_every: false }
        })
    });
    s.run_enum(&Exhaustive, iter, true);
    s.run(&Random);
    std::process::exit(s.finish());
}
