//! C01 — SELECT answers equal the SPARQL algebra over the stored dataset.
//! Differential against an independent reference evaluator (kvh::sparql) over generated
//! (dataset, query) pairs inside the supported fragment.

use kolibrie::execute_query::{execute_query_rayon_parallel2_volcano, execute_sparql_query};
use kolibrie::sparql_database::SparqlDatabase;
use kvh::engine::*;
use kvh::sparql::*;
use proptest::prelude::*;
use serde::{Deserialize, Serialize};
use serde_json::json;

#[derive(Clone, Debug, Serialize, Deserialize)]
struct Case {
    data: DataSet,
    query: Select,
    use_prefix: bool,
    second_entry: bool,
}

fn shared_join_var(q: &Select) -> bool {
    let mut counts: std::collections::BTreeMap<String, u32> = Default::default();
    count_ops(&q.body, &mut |e| {
        if let Elem::Bgp(ts) = e {
            for t in ts {
                let mut seen = std::collections::BTreeSet::new();
                for x in t {
                    if let PT::Var(v) = x {
                        if seen.insert(v.clone()) {
                            *counts.entry(v.clone()).or_default() += 1;
                        }
                    }
                }
            }
        }
    });
    counts.values().any(|c| *c >= 2)
}

fn check_case(c: &Case) -> Outcome {
    let mut o = Outcome::new();
    let text = Printer { use_prefix: c.use_prefix }.query(&c.query);
    let lex = c.data.lexical();
    let ctx = EvalCtx::new(&lex, &c.query.from, &c.query.from_named);
    let full = eval_select_full(&c.query, &ctx, &Active::Default);
    if ctx.out_of_fragment.get() > 0 {
        o.skipped.push("out-of-fragment");
        return o;
    }
    let feats = features(&c.query);
    for f in &feats {
        o.class(f);
    }
    let dup_across = {
        let mut seen = std::collections::BTreeSet::new();
        let mut dup = false;
        for t in lex.default.iter().chain(lex.named.values().flatten()) {
            if !seen.insert(t.clone()) {
                dup = true;
            }
        }
        dup
    };
    o.class_if(dup_across, "data:same-triple-several-graphs");
    o.class_if(lex.named.values().any(|g| g.is_empty()), "data:empty-graph");
    o.class_if(full.is_empty(), "answer-empty");
    if ctx.ambiguous.get() > 0 {
        o.ambiguous += 1;
        o.class("ambiguous-skipped");
        return o;
    }
    let op_count = {
        let mut n = 0;
        count_ops(&c.query.body, &mut |_| n += 1);
        n + c.query.distinct as usize + c.query.has_agg() as usize + (!c.query.order.is_empty()) as usize + c.query.limit.is_some() as usize + (!c.query.from.is_empty() || !c.query.from_named.is_empty()) as usize
    };
    o.nontrivial = !full.is_empty() && op_count >= 3 && shared_join_var(&c.query);
    let fsig = feats.join(",");

    let run = |second: bool| -> Result<Result<Vec<Vec<String>>, String>, PanicSite> {
        catch(|| {
            let mut db = SparqlDatabase::new();
            load_into(&mut db, &c.data);
            if second {
                // legacy entry point: swallows errors into an empty answer, so only used after the first succeeded
                Ok(execute_query_rayon_parallel2_volcano(&text, &mut db))
            } else {
                execute_sparql_query(&text, &mut db)
            }
        })
    };
    match run(false) {
        Err(site) => {
            o.panic(&format!("execute_sparql_query({text})"), &site);
            return o;
        }
        Ok(Err(e)) => {
            o.fail(format!("c01.err[{fsig}]"), format!("query of the supported fragment rejected: {e}\nquery: {text}"));
            return o;
        }
        Ok(Ok(rows)) => {
            if let Err((s, d)) = check_answer(&c.query, &full, &rows) {
                o.fail(format!("c01.{s}[{fsig}]"), format!("{d}\nquery: {text}\ndata: {:?}", lex));
                return o;
            }
        }
    }
    if c.second_entry {
        o.inner_evals += 1;
        match run(true) {
            Err(site) => o.panic(&format!("execute_query_rayon_parallel2_volcano({text})"), &site),
            Ok(Err(_)) => unreachable!(),
            Ok(Ok(rows)) => {
                if let Err((s, d)) = check_answer(&c.query, &full, &rows) {
                    o.fail(format!("c01.volcano.{s}[{fsig}]"), format!("{d}\nquery: {text}\ndata: {:?}", lex));
                }
            }
        }
    }
    o
}

struct Main;
impl Part for Main {
    type Case = Case;
    fn name(&self) -> &'static str {
        "select"
    }
    /// engine-internal hash order can make a defect show only on some executions of the same case
    fn replay_repeats(&self) -> u32 {
        15
    }
    fn cases(&self, tier: Tier) -> u32 {
        tier.pick(25_000, 400_000)
    }
    fn strategy(&self, tier: Tier) -> BoxedStrategy<Case> {
        let depth = tier.pick(2, 3);
        let (dmax, nmax) = tier.pick((20, 8), (40, 14));
        (data_query_strategy(depth, dmax, nmax), any::<bool>(), proptest::bool::weighted(0.25))
            .prop_map(|((data, query), use_prefix, second_entry)| Case { data, query, use_prefix, second_entry })
            .boxed()
    }
    fn check(&self, c: &Case) -> Outcome {
        check_case(c)
    }
    fn describe(&self, c: &Case) -> serde_json::Value {
        json!({"query": Printer { use_prefix: c.use_prefix }.query(&c.query), "default_triples": c.data.default.len(),
               "named_graphs": c.data.named.iter().map(|(g, t)| format!("{g}:{}", t.len())).collect::<Vec<_>>()})
    }
}

/// ORDER BY / LIMIT over one column that mixes numbers, numeric-looking strings, words and IRIs, with enough
/// rows for the sort implementation to leave insertion sort: the class in which a non-transitive comparator
/// shows (same Case type and oracle as the main part).
struct OrderMixed;
impl Part for OrderMixed {
    type Case = Case;
    fn name(&self) -> &'static str {
        "order-mixed-kinds"
    }
    fn cases(&self, tier: Tier) -> u32 {
        tier.pick(1500, 40_000)
    }
    fn replay_repeats(&self) -> u32 {
        25
    }
    fn strategy(&self, _tier: Tier) -> BoxedStrategy<Case> {
        let value = prop_oneof![
            4 => (0i64..40).prop_map(Tm::Num),
            3 => prop_oneof![Just("1k"), Just("2x"), Just("10a"), Just("3 z"), Just("blue"), Just("red"), Just("9z"), Just("1e"), Just("0x")].prop_map(|s| Tm::Lit(s.to_string())),
            1 => (0usize..5).prop_map(|i| Tm::Iri(format!("{NS}s{i}"))),
        ];
        (proptest::collection::vec((0usize..40, value), 12..70), any::<bool>(), proptest::option::weighted(0.6, 1usize..30), any::<bool>(), any::<bool>())
            .prop_map(|(rows, desc, limit, second_key, use_prefix)| {
                let tag = Tm::Iri(format!("{NS}tag"));
                let data = DataSet { default: rows.into_iter().map(|(s, v)| [Tm::Iri(format!("{NS}n{s}")), tag.clone(), v]).collect(), named: vec![] };
                let mut order = vec![("c".to_string(), desc)];
                if second_key {
                    order.push(("a".to_string(), false));
                }
                let query = Select {
                    distinct: false,
                    proj: Proj::Items(vec![ProjItem::Var("a".into()), ProjItem::Var("c".into())]),
                    from: vec![],
                    from_named: vec![],
                    body: vec![Elem::Bgp(vec![[PT::Var("a".into()), PT::C(tag), PT::Var("c".into())]])],
                    group_by: vec![],
                    order,
                    limit,
                };
                Case { data, query, use_prefix, second_entry: false }
            })
            .boxed()
    }
    fn check(&self, c: &Case) -> Outcome {
        let mut o = check_case(c);
        o.nontrivial = true;
        o.class("mixed-kind-order-key");
        o
    }
    fn describe(&self, c: &Case) -> serde_json::Value {
        json!({"query": Printer { use_prefix: c.use_prefix }.query(&c.query), "rows": c.data.default.len()})
    }
}

fn main() {
    let mut s = Session::start(
        "C01",
        "exploration",
        "generated (dataset, SELECT) pairs: datasets of <=20/40 default triples + <=3 named graphs (+empty catalogued graph, same triple copied across graphs) over a 5-subject/7-predicate universe; \
         queries from a recursive grammar (BGP with constants/repeated variables/variable predicates, nested groups, UNION, GRAPH <iri>/?g, group-scoped FILTER incl. arithmetic and &&,||,!, BIND(CONCAT), VALUES with UNDEF, \
         sub-SELECT with projection/DISTINCT/ORDER/LIMIT/aggregates, FROM/FROM NAMED, GROUP BY + SUM/MIN/MAX/AVG, ORDER BY, LIMIT) printed as text and run through execute_sparql_query (25%: also execute_query_rayon_parallel2_volcano); \
         oracle = independent nested-loop SPARQL algebra evaluator over the lexical dataset; compared as multisets (+ sortedness under ORDER BY, legal-cut predicate under LIMIT). \
         Non-trivial = reference answer non-empty, >=3 operators/modifiers, and a variable shared by >=2 triple patterns; distinct = distinct (dataset, query).",
    );
    s.assume("supported fragment (DESIGN C01 a-f): FILTER/BIND mention only variables certainly bound in their own group; order comparisons only between numeric values; BIND targets fresh variables; aggregates over certainly-bound numeric variables; no empty-string literals");
    s.assume("SELECT * column order = first syntactic appearance (the row API has no header)");
    s.run(&Main);
    s.run(&OrderMixed);
    std::process::exit(s.finish());
}
