//! C01 — SELECT answers equal the SPARQL algebra over the stored dataset.
//! Differential against an independent reference evaluator (kvh::sparql) over generated
//! (dataset, query) pairs inside the supported fragment.

use kolibrie::execute_query::{execute_query_rayon_parallel2_volcano, execute_sparql_query};
use kolibrie::sparql_database::SparqlDatabase;
use kvh::engine::*;
use kvh::sparql::*;
use proptest::prelude::*;
use serde::{Deserialize, Serialize};
use serde_json::json;

#[derive(Clone, Debug, Serialize, Deserialize)]
struct Case {
    data: DataSet,
    query: Select,
    use_prefix: bool,
    second_entry: bool,
}

fn shared_join_var(q: &Select) -> bool {
    let mut counts: std::collections::BTreeMap<String, u32> = Default::default();
    count_ops(&q.body, &mut |e| {
        if let Elem::Bgp(ts) = e {
            for t in ts {
                let mut seen = std::collections::BTreeSet::new();
                for x in t {
                    if let PT::Var(v) = x {
                        if seen.insert(v.clone()) {
                            *counts.entry(v.clone()).or_default() += 1;
                        }
                    }
                }
            }
        }
    });
    counts.values().any(|c| *c >= 2)
}

fn check_case(c: &Case) -> Outcome {
    let mut o = Outcome::new();
    let text = Printer { use_prefix: c.use_prefix }.query(&c.query);
    let lex = c.data.lexical();
    let ctx = EvalCtx::new(&lex, &c.query.from, &c.query.from_named);
    let (ext, visible, keys) = eval_select_ext(&c.query, &ctx, &Active::Default);
    let hidden_keys = keys.iter().any(|(i, _)| *i >= visible);
    let full: Vec<Vec<Option<String>>> = ext.iter().map(|r| r[..visible].to_vec()).collect();
    // top-level ORDER BY on variables that are not projected: judged through check_answer_hidden_keys
    let judge = |rows: &[Vec<String>]| -> Result<(), (String, String)> {
        if hidden_keys {
            check_answer_hidden_keys(&c.query, &ext, visible, rows).map(|_| ())
        } else {
            check_answer(&c.query, &full, rows)
        }
    };
    if ctx.out_of_fragment.get() > 0 {
        o.skipped.push("out-of-fragment");
        return o;
    }
    let feats = features(&c.query);
    for f in &feats {
        o.class(f);
    }
    let dup_across = {
        let mut seen = std::collections::BTreeSet::new();
        let mut dup = false;
        for t in lex.default.iter().chain(lex.named.values().flatten()) {
            if !seen.insert(t.clone()) {
                dup = true;
            }
        }
        dup
    };
    o.class_if(dup_across, "data:same-triple-several-graphs");
    o.class_if(lex.named.values().any(|g| g.is_empty()), "data:empty-graph");
    o.class_if(full.is_empty(), "answer-empty");
    if ctx.ambiguous.get() > 0 {
        o.ambiguous += 1;
        o.class("ambiguous-skipped");
        return o;
    }
    let op_count = {
        let mut n = 0;
        count_ops(&c.query.body, &mut |_| n += 1);
        n + c.query.distinct as usize + c.query.has_agg() as usize + (!c.query.order.is_empty()) as usize + c.query.limit.is_some() as usize + (!c.query.from.is_empty() || !c.query.from_named.is_empty()) as usize
    };
    o.nontrivial = !full.is_empty() && op_count >= 3 && shared_join_var(&c.query);
    let fsig = feats.join(",");

    let run = |second: bool| -> Result<Result<Vec<Vec<String>>, String>, PanicSite> {
        catch(|| {
            let mut db = SparqlDatabase::new();
            load_into(&mut db, &c.data);
            if second {
                // legacy entry point: swallows errors into an empty answer, so only used after the first succeeded
                Ok(execute_query_rayon_parallel2_volcano(&text, &mut db))
            } else {
                execute_sparql_query(&text, &mut db)
            }
        })
    };
    match run(false) {
        Err(site) => {
            o.panic(&format!("execute_sparql_query({text})"), &site);
            return o;
        }
        Ok(Err(e)) => {
            o.fail(format!("c01.err[{fsig}]"), format!("query of the supported fragment rejected: {e}\nquery: {text}"));
            return o;
        }
        Ok(Ok(rows)) => {
            if let Err((s, d)) = judge(&rows) {
                o.fail(format!("c01.{s}[{fsig}]"), format!("{d}\nquery: {text}\ndata: {:?}", lex));
                return o;
            }
        }
    }
    if c.second_entry {
        // the same query again on a database that has already answered it (and a full scan in between): whatever a
        // query leaves behind (statistics, dictionary entries of BIND results, ...) must not change a later answer
        o.inner_evals += 1;
        o.class("same-database-queried-again");
        let again = catch(|| {
            let mut db = SparqlDatabase::new();
            load_into(&mut db, &c.data);
            let first = execute_sparql_query(&text, &mut db);
            let _ = execute_sparql_query("SELECT * WHERE { ?s ?p ?o }", &mut db);
            (first, execute_sparql_query(&text, &mut db))
        });
        match again {
            Err(site) => {
                o.panic(&format!("execute_sparql_query({text}) three queries on one database"), &site);
                return o;
            }
            Ok((Ok(_), Ok(rows))) => {
                if let Err((s, d)) = judge(&rows) {
                    o.fail(format!("c01.requery.{s}[{fsig}]"), format!("second execution on the same database: {d}\nquery: {text}\ndata: {:?}", lex));
                    return o;
                }
            }
            Ok((_, Err(e))) | Ok((Err(e), _)) => {
                o.fail(format!("c01.requery.err[{fsig}]"), format!("query rejected when run on a database that had answered it before: {e}\nquery: {text}"));
                return o;
            }
        }
        o.inner_evals += 1;
        match run(true) {
            Err(site) => o.panic(&format!("execute_query_rayon_parallel2_volcano({text})"), &site),
            Ok(Err(_)) => unreachable!(),
            Ok(Ok(rows)) => {
                if let Err((s, d)) = judge(&rows) {
                    o.fail(format!("c01.volcano.{s}[{fsig}]"), format!("{d}\nquery: {text}\ndata: {:?}", lex));
                }
            }
        }
    }
    o
}

struct Main;
impl Part for Main {
    type Case = Case;
    fn name(&self) -> &'static str {
        "select"
    }
    /// engine-internal hash order can make a defect show only on some executions of the same case
    fn replay_repeats(&self) -> u32 {
        15
    }
    fn cases(&self, tier: Tier) -> u32 {
        tier.pick(60_000, 400_000)
    }
    fn strategy(&self, tier: Tier) -> BoxedStrategy<Case> {
        let depth = tier.pick(2, 3);
        let (dmax, nmax) = tier.pick((20, 8), (40, 14));
        (data_query_strategy(depth, dmax, nmax), any::<bool>(), proptest::bool::weighted(0.25))
            .prop_map(|((data, query), use_prefix, second_entry)| Case { data, query, use_prefix, second_entry })
            .boxed()
    }
    fn check(&self, c: &Case) -> Outcome {
        check_case(c)
    }
    fn describe(&self, c: &Case) -> serde_json::Value {
        json!({"query": Printer { use_prefix: c.use_prefix }.query(&c.query), "default_triples": c.data.default.len(),
               "named_graphs": c.data.named.iter().map(|(g, t)| format!("{g}:{}", t.len())).collect::<Vec<_>>()})
    }
}

/// ORDER BY / LIMIT over one column that mixes numbers, numeric-looking strings, words and IRIs, with enough
/// rows for the sort implementation to leave insertion sort: the class in which a non-transitive comparator
/// shows (same Case type and oracle as the main part).
struct OrderMixed;
impl Part for OrderMixed {
    type Case = Case;
    fn name(&self) -> &'static str {
        "order-mixed-kinds"
    }
    fn cases(&self, tier: Tier) -> u32 {
        tier.pick(4000, 40_000)
    }
    fn replay_repeats(&self) -> u32 {
        25
    }
    fn strategy(&self, _tier: Tier) -> BoxedStrategy<Case> {
        let value = prop_oneof![
            4 => (0i64..40).prop_map(Tm::Num),
            3 => prop_oneof![Just("1k"), Just("2x"), Just("10a"), Just("3 z"), Just("blue"), Just("red"), Just("9z"), Just("1e"), Just("0x")].prop_map(|s| Tm::Lit(s.to_string())),
            1 => (0usize..5).prop_map(|i| Tm::Iri(format!("{NS}s{i}"))),
        ];
        (proptest::collection::vec((0usize..40, value), 12..70), any::<bool>(), proptest::option::weighted(0.6, 1usize..30), any::<bool>(), any::<bool>())
            .prop_map(|(rows, desc, limit, second_key, use_prefix)| {
                let tag = Tm::Iri(format!("{NS}tag"));
                let data = DataSet { default: rows.into_iter().map(|(s, v)| [Tm::Iri(format!("{NS}n{s}")), tag.clone(), v]).collect(), named: vec![] };
                let mut order = vec![("c".to_string(), desc)];
                if second_key {
                    order.push(("a".to_string(), false));
                }
                let query = Select {
                    distinct: false,
                    proj: Proj::Items(vec![ProjItem::Var("a".into()), ProjItem::Var("c".into())]),
                    from: vec![],
                    from_named: vec![],
                    body: vec![Elem::Bgp(vec![[PT::Var("a".into()), PT::C(tag), PT::Var("c".into())]])],
                    group_by: vec![],
                    order,
                    limit,
                };
                Case { data, query, use_prefix, second_entry: false }
            })
            .boxed()
    }
    fn check(&self, c: &Case) -> Outcome {
        let mut o = check_case(c);
        o.nontrivial = true;
        o.class("mixed-kind-order-key");
        o
    }
    fn describe(&self, c: &Case) -> serde_json::Value {
        json!({"query": Printer { use_prefix: c.use_prefix }.query(&c.query), "rows": c.data.default.len()})
    }
}

/// DISTINCT / GROUP BY over COMPOSITE keys whose value tuples are easy to confuse: IRIs that are prefixes of one
/// another (n1 / n12), literals whose concatenations coincide with and without a separator (1,23 / 12,3;
/// "1","2 3" / "1 2","3"; "x","y z" / "x y","z"). A key built by gluing the values together merges rows or groups that
/// the algebra keeps apart; the main part's universe makes such tuples rare.
struct CompositeKeys;
impl Part for CompositeKeys {
    type Case = Case;
    fn name(&self) -> &'static str {
        "composite-keys"
    }
    fn cases(&self, tier: Tier) -> u32 {
        tier.pick(5000, 40_000)
    }
    fn replay_repeats(&self) -> u32 {
        5
    }
    fn strategy(&self, _tier: Tier) -> BoxedStrategy<Case> {
        const LITS: [&str; 10] = ["1", "12", "2", "23", "3", "1 2", "2 3", "x", "x y", "y z"];
        const ENTS: [&str; 5] = ["n1", "n12", "n2", "n23", "n3"];
        let lit = (0usize..11).prop_map(|i| if i < 10 { Tm::Lit(LITS[i].to_string()) } else { Tm::Lit("z".to_string()) });
        // one entity row: (entity, tag value, p1 value, numeric value)
        let row = (0usize..5, lit.clone(), lit, 0i64..6);
        (proptest::collection::vec(row, 1..12), 0u8..7, any::<bool>(), any::<bool>(), 0u8..8, 0usize..5, 0usize..5)
            .prop_map(|(mut rows, shape, use_prefix, second_entry, inject, ea, eb)| {
                // most cases contain a pair of entity rows whose key tuples are confusable by construction
                let l = |x: &str| Tm::Lit(x.to_string());
                match inject {
                    0 | 1 => {
                        // keys (a, c): (n1, 23) / (n12, 3)
                        rows.push((0, l("23"), l("x"), 1));
                        rows.push((1, l("3"), l("x"), 2));
                    }
                    2 | 3 => {
                        // keys (c, d) glued without separator: (1, 23) / (12, 3)
                        rows.push((ea, l("1"), l("23"), 1));
                        rows.push((eb, l("12"), l("3"), 2));
                    }
                    4 => {
                        // keys (c, d) glued with a space: ("1", "2 3") / ("1 2", "3")
                        rows.push((ea, l("1"), l("2 3"), 1));
                        rows.push((eb, l("1 2"), l("3"), 2));
                    }
                    5 => {
                        rows.push((ea, l("x"), l("y z"), 1));
                        rows.push((eb, l("x y"), l("z"), 2));
                    }
                    _ => {}
                }
                let e = |n: &str| Tm::Iri(format!("{NS}{n}"));
                let (tag, p1, val) = (e("tag"), e("p1"), e("val"));
                let mut default = vec![];
                for (n, c, d, v) in rows {
                    default.push([e(ENTS[n]), tag.clone(), c]);
                    default.push([e(ENTS[n]), p1.clone(), d]);
                    default.push([e(ENTS[n]), val.clone(), Tm::Num(v)]);
                }
                let data = DataSet { default, named: vec![] };
                let v = |n: &str| PT::Var(n.to_string());
                let var = |n: &str| ProjItem::Var(n.to_string());
                let t_tag = [v("a"), PT::C(tag.clone()), v("c")];
                let t_p1 = [v("a"), PT::C(p1.clone()), v("d")];
                let t_val = [v("a"), PT::C(val.clone()), v("v")];
                let sel = |distinct: bool, items: Vec<ProjItem>, body: Vec<Elem>, group_by: Vec<&str>| Select {
                    distinct,
                    proj: Proj::Items(items),
                    from: vec![],
                    from_named: vec![],
                    body,
                    group_by: group_by.into_iter().map(String::from).collect(),
                    order: vec![],
                    limit: None,
                };
                let agg = |k: AggKind| ProjItem::Agg(k, "v".to_string(), "z".to_string());
                let query = match shape {
                    0 => sel(true, vec![var("c"), var("d")], vec![Elem::Bgp(vec![t_tag, t_p1])], vec![]),
                    1 => sel(false, vec![var("c"), var("d"), agg(AggKind::Sum)], vec![Elem::Bgp(vec![t_tag, t_p1, t_val])], vec!["c", "d"]),
                    2 => sel(false, vec![var("a"), var("c"), agg(AggKind::Max)], vec![Elem::Bgp(vec![t_tag, t_val])], vec!["a", "c"]),
                    3 => sel(true, vec![var("a"), var("c")], vec![Elem::Union(vec![vec![Elem::Bgp(vec![t_tag])], vec![Elem::Bgp(vec![[v("a"), PT::C(p1.clone()), v("c")]])]])], vec![]),
                    4 => sel(false, vec![var("c"), var("d")], vec![Elem::Sub(Box::new(sel(true, vec![var("c"), var("d")], vec![Elem::Bgp(vec![t_tag, t_p1])], vec![])))], vec![]),
                    5 => sel(
                        false,
                        vec![var("c"), var("d"), var("z")],
                        vec![Elem::Sub(Box::new(sel(false, vec![var("c"), var("d"), agg(AggKind::Sum)], vec![Elem::Bgp(vec![t_tag, t_p1, t_val])], vec!["c", "d"])))],
                        vec![],
                    ),
                    _ => sel(false, vec![var("a"), var("c"), var("d"), agg(AggKind::Min)], vec![Elem::Bgp(vec![t_tag, t_p1, t_val])], vec!["a", "c", "d"]),
                };
                Case { data, query, use_prefix, second_entry }
            })
            .boxed()
    }
    fn check(&self, c: &Case) -> Outcome {
        let mut o = check_case(c);
        // non-trivial: the reference answer has two rows whose key columns differ but glue to the same string
        // (with or without a single-space separator)
        let lex = c.data.lexical();
        let ctx = EvalCtx::new(&lex, &c.query.from, &c.query.from_named);
        let full = eval_select_full(&c.query, &ctx, &Active::Default);
        let nkeys = c.query.columns().iter().filter(|n| *n != "z").count();
        let mut glued: std::collections::BTreeMap<(String, String), std::collections::BTreeSet<Vec<Option<String>>>> = Default::default();
        for r in &full {
            let key: Vec<Option<String>> = r[..nkeys].to_vec();
            let parts: Vec<String> = key.iter().map(|x| x.clone().unwrap_or_default()).collect();
            glued.entry((parts.concat(), parts.join(" "))).or_default();
            for (g, set) in glued.iter_mut() {
                if g.0 == parts.concat() || g.1 == parts.join(" ") {
                    set.insert(key.clone());
                }
            }
        }
        let confusable = glued.values().any(|s| s.len() >= 2);
        o.class_if(confusable, "confusable-key-tuples-in-answer");
        o.nontrivial = confusable;
        o
    }
    fn describe(&self, c: &Case) -> serde_json::Value {
        json!({"query": Printer { use_prefix: c.use_prefix }.query(&c.query), "rows": c.data.default.len()})
    }
}

/// `GRAPH ?g { ... }` blocks whose patterns use the graph variable as a term, over data in which triples about a named
/// graph live in that graph, in another graph or in the default graph (scoping of the graph variable).
struct GraphVarTerm;
impl Part for GraphVarTerm {
    type Case = Case;
    fn name(&self) -> &'static str {
        "graph-var-term"
    }
    fn cases(&self, tier: Tier) -> u32 {
        tier.pick(5000, 40_000)
    }
    fn replay_repeats(&self) -> u32 {
        5
    }
    fn strategy(&self, _tier: Tier) -> BoxedStrategy<Case> {
        (graph_var_term_strategy(), any::<bool>(), proptest::bool::weighted(0.25)).prop_map(|((data, query), use_prefix, second_entry)| Case { data, query, use_prefix, second_entry }).boxed()
    }
    fn check(&self, c: &Case) -> Outcome {
        check_case(c)
    }
    fn describe(&self, c: &Case) -> serde_json::Value {
        json!({"query": Printer { use_prefix: c.use_prefix }.query(&c.query), "default_triples": c.data.default.len(),
               "named_graphs": c.data.named.iter().map(|(g, t)| format!("{g}:{}", t.len())).collect::<Vec<_>>()})
    }
}

/// Two sub-SELECTs in one query that are IDENTICAL EXCEPT FOR ONE MODIFIER (sort direction, LIMIT, DISTINCT, sort key,
/// aggregate, projection) — whatever is remembered per sub-plan (memo keys, caches) must tell them apart.
struct TwinSubqueries;
impl Part for TwinSubqueries {
    type Case = Case;
    fn name(&self) -> &'static str {
        "twin-subqueries"
    }
    fn cases(&self, tier: Tier) -> u32 {
        tier.pick(1500, 30_000)
    }
    fn replay_repeats(&self) -> u32 {
        5
    }
    fn strategy(&self, _tier: Tier) -> BoxedStrategy<Case> {
        (proptest::collection::vec((0usize..8, 0usize..3), 3..10), 0u8..6, 1usize..4, any::<bool>(), any::<bool>(), any::<bool>())
            .prop_map(|(ents, aspect, k, union, use_prefix, second_entry)| {
                let e = |n: &str| Tm::Iri(format!("{NS}{n}"));
                let (val, tag) = (e("val"), e("tag"));
                let mut default = vec![];
                let mut seen = std::collections::BTreeSet::new();
                for (n, t) in ents {
                    if seen.insert(n) {
                        // distinct numeric values per entity: every ORDER BY ... LIMIT cut is determined
                        default.push([e(&format!("n{n}")), val.clone(), Tm::Num(3 * n as i64 + 1)]);
                        default.push([e(&format!("n{n}")), tag.clone(), Tm::Lit(["red", "green", "blue"][t].to_string())]);
                    }
                }
                let data = DataSet { default, named: vec![] };
                let v = |n: &str| PT::Var(n.to_string());
                let var = |n: &str| ProjItem::Var(n.to_string());
                let body = vec![Elem::Bgp(vec![[v("a"), PT::C(val.clone()), v("c")], [v("a"), PT::C(tag.clone()), v("b")]])];
                let base = Select { distinct: false, proj: Proj::Items(vec![var("a"), var("c")]), from: vec![], from_named: vec![], body, group_by: vec![], order: vec![("c".to_string(), false)], limit: Some(k) };
                let mut twin = base.clone();
                let mut first = base;
                match aspect {
                    0 => twin.order = vec![("c".to_string(), true)],
                    1 => twin.limit = Some(k + 1),
                    2 => {
                        first.proj = Proj::Items(vec![var("b")]);
                        first.order = vec![("b".to_string(), false)];
                        first.limit = None;
                        twin = first.clone();
                        twin.distinct = true;
                    }
                    3 => twin.order = vec![("a".to_string(), true)],
                    4 => {
                        first.proj = Proj::Items(vec![var("b"), ProjItem::Agg(AggKind::Min, "c".to_string(), "z".to_string())]);
                        first.group_by = vec!["b".to_string()];
                        first.order = vec![];
                        first.limit = None;
                        twin = first.clone();
                        twin.proj = Proj::Items(vec![var("b"), ProjItem::Agg(AggKind::Max, "c".to_string(), "z".to_string())]);
                    }
                    _ => twin.proj = Proj::Items(vec![var("c"), var("a")]),
                }
                let subs = [Elem::Sub(Box::new(first)), Elem::Sub(Box::new(twin))];
                let body = if union { vec![Elem::Union(vec![vec![subs[0].clone()], vec![subs[1].clone()]])] } else { vec![Elem::Group(vec![subs[0].clone()]), Elem::Group(vec![subs[1].clone()])] };
                let query = Select { distinct: false, proj: Proj::Star, from: vec![], from_named: vec![], body, group_by: vec![], order: vec![], limit: None };
                Case { data, query, use_prefix, second_entry }
            })
            .boxed()
    }
    fn check(&self, c: &Case) -> Outcome {
        let mut o = check_case(c);
        o.nontrivial = !o.classes.contains(&"answer-empty");
        o
    }
    fn describe(&self, c: &Case) -> serde_json::Value {
        json!({"query": Printer { use_prefix: c.use_prefix }.query(&c.query), "default_triples": c.data.default.len()})
    }
}

fn main() {
    let mut s = Session::start(
        "C01",
        "exploration",
        "generated (dataset, SELECT) pairs: datasets of <=20/40 default triples + <=3 named graphs (+empty catalogued graph, same triple copied across graphs) over a 5-subject/7-predicate universe; \
         queries from a recursive grammar (BGP with constants/repeated variables/variable predicates, nested groups, UNION, GRAPH <iri>/?g, group-scoped FILTER incl. arithmetic and &&,||,!, BIND(CONCAT), VALUES with UNDEF, \
         sub-SELECT with projection/DISTINCT/ORDER/LIMIT/aggregates, FROM/FROM NAMED, GROUP BY + SUM/MIN/MAX/AVG, ORDER BY, LIMIT) printed as text and run through execute_sparql_query (25%: also execute_query_rayon_parallel2_volcano); \
         oracle = independent nested-loop SPARQL algebra evaluator over the lexical dataset; compared as multisets (+ sortedness under ORDER BY, legal-cut predicate under LIMIT). \
         Non-trivial = reference answer non-empty, >=3 operators/modifiers, and a variable shared by >=2 triple patterns; distinct = distinct (dataset, query). \
         Part order-mixed-kinds: ORDER BY/LIMIT over one column mixing numbers, numeric-looking strings, words and IRIs. Part composite-keys: DISTINCT / GROUP BY (also in sub-SELECTs and over UNION) on 2-3 key columns \
         whose value tuples glue to the same string with or without a separator (n1,23 / n12,3; \"1\",\"2 3\" / \"1 2\",\"3\"); non-trivial there = the reference answer contains two such confusable key tuples.",
    );
    s.assume("supported fragment (DESIGN C01 a-f): FILTER/BIND mention only variables certainly bound in their own group; order comparisons only between numeric values; BIND targets fresh variables; aggregates over certainly-bound numeric variables; no empty-string literals");
    s.assume("SELECT * column order = first syntactic appearance (the row API has no header)");
    s.run(&Main);
    s.run(&OrderMixed);
    s.run(&CompositeKeys);
    s.run(&GraphVarTerm);
    s.run(&TwinSubqueries);
    std::process::exit(s.finish());
}
