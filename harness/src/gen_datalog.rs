//! Datalog programs over triples as plain, serialisable data (`Program`), a proptest generator for them,
//! a loader into `datalog::reasoning::Reasoner`, and the translation into the oracle's representation.
//! Shared by C05 / C06 (and meant for C18 / C19).
//!
//! Domain notes (what the generator produces and why):
//! * terms are lexical strings; constants are numeric literals in plain decimal form ("2", "2.5", "-3") or, for one
//!   of three name pools, plain names ("a".."f"); predicates are "p","q","r","s" (+ "sub" in meta programs,
//!   + "n","m" as heads of negated rules);
//! * numeric filters (`>`,`<`,`>=`,`<=`,`=`,`!=` against a plain number) are generated only in programs whose
//!   constants are all numeric and only on variables that do not occur in predicate position; `=`/`!=` between two
//!   premise variables compares term identity (as the repository's own tests use it). The oracle still refuses to
//!   answer (case counted as ambiguous) if such a variable ever meets a non-numeric term;
//! * conclusions only use variables of the positive premises (safety);
//! * negation class: no variable predicate anywhere in the program, heads of negated rules use predicates
//!   "n"/"m" that occur in no rule body — for this class "positive fixpoint, then one pass of the negated rules"
//!   is the stratified model.

use crate::engine::pick_idx;
use crate::oracle_datalog::{Cmp, Fact, OAtom, OFilter, OProgram, ORule, OT};
use datalog::reasoning::Reasoner;
use proptest::prelude::*;
use serde::{Deserialize, Serialize};
use shared::rule::{FilterCondition, Rule};
use shared::terms::Term;
use std::collections::{BTreeMap, BTreeSet};

#[derive(Clone, Debug, Serialize, Deserialize, PartialEq, Eq, PartialOrd, Ord)]
pub enum T {
    /// variable name (without '?')
    V(String),
    /// constant, lexical form
    C(String),
}
pub type Atom = [T; 3];

#[derive(Clone, Debug, Serialize, Deserialize, PartialEq)]
pub struct FilterSpec {
    pub var: String,
    /// one of > < >= <= = !=
    pub op: String,
    /// a plain decimal number, or the name of another premise variable (only with = / !=)
    pub value: String,
}

#[derive(Clone, Debug, Serialize, Deserialize, PartialEq)]
pub struct RuleSpec {
    pub premise: Vec<Atom>,
    #[serde(default)]
    pub negative: Vec<Atom>,
    #[serde(default)]
    pub filters: Vec<FilterSpec>,
    pub conclusion: Vec<Atom>,
}

#[derive(Clone, Debug, Serialize, Deserialize, PartialEq)]
pub struct Program {
    /// duplicate-free
    pub facts: Vec<[String; 3]>,
    pub rules: Vec<RuleSpec>,
}

// ---------------------------------------------------------------------------------------------
// structural predicates
// ---------------------------------------------------------------------------------------------

impl RuleSpec {
    pub fn premise_vars(&self) -> BTreeSet<String> {
        let mut s = BTreeSet::new();
        for a in &self.premise {
            for t in a {
                if let T::V(v) = t {
                    s.insert(v.clone());
                }
            }
        }
        s
    }
    pub fn has_var_predicate_premise(&self) -> bool {
        self.premise.iter().chain(self.negative.iter()).any(|a| matches!(a[1], T::V(_)))
    }
    pub fn has_repeated_var_atom(&self) -> bool {
        self.premise.iter().any(|a| match (&a[0], &a[1], &a[2]) {
            (T::V(x), T::V(y), T::V(z)) => x == y || y == z || x == z,
            (T::V(x), _, T::V(z)) => x == z,
            (T::V(x), T::V(y), _) => x == y,
            (_, T::V(y), T::V(z)) => y == z,
            _ => false,
        })
    }
    pub fn has_const_so_in_premise(&self) -> bool {
        self.premise.iter().any(|a| matches!(a[0], T::C(_)) || matches!(a[2], T::C(_)))
    }
    /// every variable of conclusions, negative premises and filters occurs in a positive premise
    pub fn is_safe(&self) -> bool {
        let pv = self.premise_vars();
        let ok_atom = |a: &Atom| a.iter().all(|t| if let T::V(v) = t { pv.contains(v) } else { true });
        self.conclusion.iter().all(ok_atom) && self.negative.iter().all(ok_atom) && self.filters.iter().all(|f| pv.contains(&f.var))
    }
}

impl Program {
    /// Some conclusion may feed some premise along a cycle of rules (predicate-level dependency graph;
    /// a variable predicate depends on / produces everything).
    pub fn is_recursive(&self) -> bool {
        let n = self.rules.len();
        let feeds = |a: &RuleSpec, b: &RuleSpec| {
            a.conclusion.iter().any(|c| {
                b.premise.iter().any(|p| match (&c[1], &p[1]) {
                    (T::C(x), T::C(y)) => x == y,
                    _ => true,
                })
            })
        };
        // reach[i][j] = rule i feeds (transitively) rule j
        let mut reach = vec![vec![false; n]; n];
        for i in 0..n {
            for j in 0..n {
                reach[i][j] = feeds(&self.rules[i], &self.rules[j]);
            }
        }
        for k in 0..n {
            for i in 0..n {
                for j in 0..n {
                    if reach[i][k] && reach[k][j] {
                        reach[i][j] = true;
                    }
                }
            }
        }
        (0..n).any(|i| reach[i][i])
    }
    pub fn has_negation(&self) -> bool {
        self.rules.iter().any(|r| !r.negative.is_empty())
    }
    pub fn without_filters(&self) -> Program {
        let mut p = self.clone();
        for r in &mut p.rules {
            r.filters.clear();
        }
        p
    }
    pub fn without_negative_premises(&self) -> Program {
        let mut p = self.clone();
        for r in &mut p.rules {
            r.negative.clear();
        }
        p
    }
    pub fn retain_rules(&self, keep: impl Fn(&RuleSpec) -> bool) -> Program {
        Program { facts: self.facts.clone(), rules: self.rules.iter().filter(|r| keep(r)).cloned().collect() }
    }
}

// ---------------------------------------------------------------------------------------------
// translation to the oracle
// ---------------------------------------------------------------------------------------------

/// Harness-side symbol table (independent of the engine's dictionary).
#[derive(Clone, Debug, Default)]
pub struct Symbols {
    pub names: Vec<String>,
    pub ids: BTreeMap<String, u32>,
}

impl Symbols {
    pub fn intern(&mut self, s: &str) -> u32 {
        if let Some(i) = self.ids.get(s) {
            return *i;
        }
        let i = self.names.len() as u32;
        self.names.push(s.to_string());
        self.ids.insert(s.to_string(), i);
        i
    }
    pub fn name(&self, id: u32) -> &str {
        self.names.get(id as usize).map(|s| s.as_str()).unwrap_or("<?>")
    }
    pub fn show(&self, f: &Fact) -> String {
        format!("({} {} {})", self.name(f.0), self.name(f.1), self.name(f.2))
    }
    pub fn show_set<'a>(&self, it: impl Iterator<Item = &'a Fact>) -> String {
        let v: Vec<String> = it.map(|f| self.show(f)).collect();
        format!("{{{}}}", v.join(" "))
    }
}

/// Plain decimal literal: optional '-', digits, optional '.digits'. Anything else is "not a number" for the oracle.
pub fn plain_number(s: &str) -> Option<f64> {
    let body = s.strip_prefix('-').unwrap_or(s);
    let mut parts = body.splitn(2, '.');
    let int = parts.next().unwrap_or("");
    let frac = parts.next();
    if int.is_empty() || int.len() > 9 || !int.bytes().all(|b| b.is_ascii_digit()) {
        return None;
    }
    let mut v: f64 = 0.0;
    for b in int.bytes() {
        v = v * 10.0 + (b - b'0') as f64;
    }
    if let Some(fr) = frac {
        if fr.is_empty() || fr.len() > 6 || !fr.bytes().all(|b| b.is_ascii_digit()) {
            return None;
        }
        let mut num = 0.0;
        let mut den = 1.0;
        for b in fr.bytes() {
            num = num * 10.0 + (b - b'0') as f64;
            den *= 10.0;
        }
        v += num / den;
    }
    Some(if s.starts_with('-') { -v } else { v })
}

pub struct Translated {
    pub prog: OProgram,
    pub facts: Vec<Fact>,
    pub syms: Symbols,
}

/// Err(reason) when the program uses something whose meaning the oracle does not define
/// (filter on a variable that no premise binds, ordering comparison between two variables, unknown operator).
pub fn translate(p: &Program) -> Result<Translated, String> {
    let mut syms = Symbols::default();
    let facts: Vec<Fact> = p.facts.iter().map(|f| (syms.intern(&f[0]), syms.intern(&f[1]), syms.intern(&f[2]))).collect();
    let mut rules = vec![];
    for r in &p.rules {
        let mut vars: BTreeMap<String, usize> = BTreeMap::new();
        let conv = |a: &Atom, syms: &mut Symbols, vars: &mut BTreeMap<String, usize>| -> OAtom {
            let mut out = [OT::C(0), OT::C(0), OT::C(0)];
            for (i, t) in a.iter().enumerate() {
                out[i] = match t {
                    T::C(c) => OT::C(syms.intern(c)),
                    T::V(v) => {
                        let n = vars.len();
                        OT::V(*vars.entry(v.clone()).or_insert(n))
                    }
                };
            }
            out
        };
        let premise: Vec<OAtom> = r.premise.iter().map(|a| conv(a, &mut syms, &mut vars)).collect();
        let bound = vars.len();
        let negative: Vec<OAtom> = r.negative.iter().map(|a| conv(a, &mut syms, &mut vars)).collect();
        let conclusion: Vec<OAtom> = r.conclusion.iter().map(|a| conv(a, &mut syms, &mut vars)).collect();
        let mut filters = vec![];
        for f in &r.filters {
            let var = match vars.get(&f.var) {
                Some(i) if *i < bound => *i,
                _ => return Err(format!("filter on variable {} that no positive premise binds", f.var)),
            };
            if let Some(other) = vars.get(&f.value).filter(|i| **i < bound) {
                let equal = match f.op.as_str() {
                    "=" => true,
                    "!=" => false,
                    o => return Err(format!("operator {o} between two variables")),
                };
                filters.push(OFilter::Var { a: var, b: *other, equal });
            } else {
                let k = plain_number(&f.value).ok_or_else(|| format!("filter value {:?} is not a plain number", f.value))?;
                let op = match f.op.as_str() {
                    ">" => Cmp::Gt,
                    "<" => Cmp::Lt,
                    ">=" => Cmp::Ge,
                    "<=" => Cmp::Le,
                    "=" => Cmp::Eq,
                    "!=" => Cmp::Ne,
                    o => return Err(format!("unknown operator {o}")),
                };
                filters.push(OFilter::Num { var, op, k });
            }
        }
        rules.push(ORule { nvars: vars.len(), premise, negative, filters, conclusion });
    }
    let mut num = BTreeMap::new();
    for (i, n) in syms.names.iter().enumerate() {
        if let Some(v) = plain_number(n) {
            num.insert(i as u32, v);
        }
    }
    Ok(Translated { prog: OProgram { rules, num }, facts, syms })
}

// ---------------------------------------------------------------------------------------------
// loading into the engine
// ---------------------------------------------------------------------------------------------

pub fn engine_rule(r: &RuleSpec, reasoner: &Reasoner) -> Rule {
    let mut dict = reasoner.dictionary.write().unwrap();
    let mut term = |t: &T| match t {
        T::V(v) => Term::Variable(v.clone()),
        T::C(c) => Term::Constant(dict.encode(c)),
    };
    let mut atom = |a: &Atom| (term(&a[0]), term(&a[1]), term(&a[2]));
    Rule {
        premise: r.premise.iter().map(&mut atom).collect(),
        negative_premise: r.negative.iter().map(&mut atom).collect(),
        filters: r.filters.iter().map(|f| FilterCondition { variable: f.var.clone(), operator: f.op.clone(), value: f.value.clone() }).collect(),
        conclusion: r.conclusion.iter().map(&mut atom).collect(),
    }
}

/// Permutation of 0..n induced by sort keys (stable: equal keys keep index order; all-zero keys = identity).
pub fn perm_from_keys(n: usize, keys: &[u16]) -> Vec<usize> {
    let mut idx: Vec<usize> = (0..n).collect();
    idx.sort_by_key(|i| (keys.get(*i).copied().unwrap_or(0), *i));
    idx
}

/// Build a fresh reasoner: facts in `fact_order`, rules in `rule_order`, rules before facts if `rules_first`.
/// `weight(i)` = Some(p) makes fact i an uncertain input (`add_tagged_triple`), None a certain one.
/// Err = `try_add_rule` rejected a rule.
pub fn load(p: &Program, fact_order: &[usize], rule_order: &[usize], rules_first: bool, weight: &dyn Fn(usize) -> Option<f64>) -> Result<Reasoner, String> {
    let mut r = Reasoner::new();
    let add_facts = |r: &mut Reasoner| {
        for &i in fact_order {
            let f = &p.facts[i];
            match weight(i) {
                Some(w) => r.add_tagged_triple(&f[0], &f[1], &f[2], w),
                None => r.add_abox_triple(&f[0], &f[1], &f[2]),
            }
        }
    };
    let add_rules = |r: &mut Reasoner| -> Result<(), String> {
        for &i in rule_order {
            let rule = engine_rule(&p.rules[i], r);
            r.try_add_rule(rule).map_err(|e| format!("rule #{i} rejected: {e}"))?;
        }
        Ok(())
    };
    if rules_first {
        add_rules(&mut r)?;
        add_facts(&mut r);
    } else {
        add_facts(&mut r);
        add_rules(&mut r)?;
    }
    Ok(r)
}

/// The default graph of the reasoner's store as harness facts (strings interned into `syms`; an id the engine's
/// dictionary cannot decode becomes the name "<undecodable:ID>").
pub fn store_facts(r: &Reasoner, syms: &mut Symbols) -> Vec<Fact> {
    let triples = r.dataset_index.query(None, None, None);
    decode_triples(r, &triples, syms)
}

pub fn decode_triples(r: &Reasoner, triples: &[shared::triple::Triple], syms: &mut Symbols) -> Vec<Fact> {
    let dict = r.dictionary.read().unwrap();
    let d = |id: u32, syms: &mut Symbols| match dict.decode(id) {
        Some(s) => syms.intern(s),
        None => syms.intern(&format!("<undecodable:{id}>")),
    };
    triples.iter().map(|t| (d(t.subject, syms), d(t.predicate, syms), d(t.object, syms))).collect()
}

/// Engine triple of a harness fact (None if a term is unknown to the engine's dictionary).
pub fn engine_triple(r: &Reasoner, syms: &Symbols, f: &Fact) -> Option<shared::triple::Triple> {
    let dict = r.dictionary.read().unwrap();
    let g = |id: u32| dict.string_to_id.get(syms.name(id)).copied();
    Some(shared::triple::Triple { subject: g(f.0)?, predicate: g(f.1)?, object: g(f.2)? })
}

// ---------------------------------------------------------------------------------------------
// generator
// ---------------------------------------------------------------------------------------------

#[derive(Clone, Copy, Debug)]
pub struct GenCfg {
    pub min_facts: usize,
    pub max_facts: usize,
    pub max_rules: usize,
    pub max_premises: usize,
    pub filters: bool,
    pub negation: bool,
    pub var_predicates: bool,
}

impl GenCfg {
    pub fn c05() -> GenCfg {
        GenCfg { min_facts: 3, max_facts: 30, max_rules: 5, max_premises: 4, filters: true, negation: true, var_predicates: true }
    }
}

const POOLS: [[&str; 6]; 3] = [["1", "2", "3", "4", "5", "6"], ["0", "1.5", "2", "-3", "10", "2.0"], ["a", "b", "c", "d", "e", "f"]];
const PREDS: [&str; 4] = ["p", "q", "r", "s"];
const SO_VARS: [&str; 4] = ["X", "Y", "Z", "W"];
const P_VARS: [&str; 2] = ["P", "Q"];
const THRESHOLDS: [&str; 9] = ["2", "0", "1", "2.5", "3", "4", "5", "10", "-1"];
const OPS: [&str; 6] = [">", "<", ">=", "<=", "=", "!="];

#[derive(Clone, Debug)]
struct RawTerm(u8, u16);
#[derive(Clone, Debug)]
struct RawAtom(RawTerm, RawTerm, RawTerm);
#[derive(Clone, Debug)]
struct RawRule {
    kind: u8,
    nvars: usize,
    sel: [u16; 4],
    premise: Vec<RawAtom>,
    concl: Vec<RawAtom>,
    filters: Vec<(u16, u8, u16, bool)>,
    neg: Vec<RawAtom>,
    negated: bool,
}
#[derive(Clone, Debug)]
struct RawProgram {
    pool: usize,
    n_consts: usize,
    n_preds: usize,
    meta: bool,
    naf: bool,
    facts: Vec<(u16, u16, u16, u8)>,
    rules: Vec<RawRule>,
}

fn raw_term() -> impl Strategy<Value = RawTerm> {
    (0u8..10, any::<u16>()).prop_map(|(k, s)| RawTerm(k, s))
}
fn raw_atom() -> impl Strategy<Value = RawAtom> {
    (raw_term(), raw_term(), raw_term()).prop_map(|(a, b, c)| RawAtom(a, b, c))
}
fn raw_rule(cfg: GenCfg) -> impl Strategy<Value = RawRule> {
    (
        0u8..22,
        2usize..=4,
        any::<[u16; 4]>(),
        proptest::collection::vec(raw_atom(), 1..=cfg.max_premises),
        proptest::collection::vec(raw_atom(), 1..=2),
        proptest::collection::vec((any::<u16>(), 0u8..6, any::<u16>(), proptest::bool::weighted(0.3)), 0..=2),
        proptest::collection::vec(raw_atom(), 1..=2),
        (proptest::bool::weighted(0.35), proptest::bool::weighted(0.5)),
    )
        .prop_map(|(kind, nvars, sel, premise, concl, filters, neg, (with_filters, negated))| RawRule {
            kind,
            nvars,
            sel,
            premise,
            concl,
            filters: if with_filters { filters } else { vec![] },
            neg,
            negated,
        })
}

fn v(s: &str) -> T {
    T::V(s.to_string())
}
fn c(s: &str) -> T {
    T::C(s.to_string())
}

struct Ctx<'a> {
    consts: Vec<&'a str>,
    preds: Vec<&'a str>,
    numeric: bool,
    meta: bool,
    naf: bool,
    cfg: GenCfg,
}

impl<'a> Ctx<'a> {
    fn pred(&self, s: u16) -> T {
        c(self.preds[pick_idx(s, self.preds.len())])
    }
    fn konst(&self, s: u16) -> T {
        c(self.consts[pick_idx(s, self.consts.len())])
    }
    fn so_term(&self, t: &RawTerm, nvars: usize) -> T {
        if t.0 <= 6 {
            v(SO_VARS[pick_idx(t.1, nvars)])
        } else {
            self.konst(t.1)
        }
    }
    fn p_term(&self, t: &RawTerm, nvars: usize) -> T {
        let varp = self.cfg.var_predicates && !self.naf;
        match t.0 {
            8 if varp => v(P_VARS[pick_idx(t.1, 2)]),
            9 if varp && t.1 < 20000 => v(SO_VARS[pick_idx(t.1, nvars)]),
            _ => self.pred(t.1),
        }
    }

    fn random_premise(&self, r: &RawRule) -> Vec<Atom> {
        r.premise.iter().map(|a| [self.so_term(&a.0, r.nvars), self.p_term(&a.1, r.nvars), self.so_term(&a.2, r.nvars)]).collect()
    }

    fn conclusion_from(&self, premise: &[Atom], r: &RawRule, head_pred: Option<&str>) -> Vec<Atom> {
        let vars: Vec<String> = {
            let mut s = BTreeSet::new();
            for a in premise {
                for t in a {
                    if let T::V(x) = t {
                        s.insert(x.clone());
                    }
                }
            }
            s.into_iter().collect()
        };
        let so = |t: &RawTerm| -> T {
            if t.0 <= 6 && !vars.is_empty() {
                T::V(vars[pick_idx(t.1, vars.len())].clone())
            } else {
                self.konst(t.1)
            }
        };
        r.concl
            .iter()
            .map(|a| {
                let p = match head_pred {
                    Some(h) => c(h),
                    None => {
                        let varp = self.cfg.var_predicates && !self.naf && !vars.is_empty();
                        if varp && a.1 .0 >= 8 {
                            // prefer a variable that occurs in predicate position, else any premise variable (rare)
                            let pv: Vec<&String> = vars.iter().filter(|x| premise.iter().any(|pa| pa[1] == T::V((*x).clone()))).collect();
                            if !pv.is_empty() {
                                T::V(pv[pick_idx(a.1 .1, pv.len())].clone())
                            } else if a.1 .0 == 9 && a.1 .1 < 16000 {
                                T::V(vars[pick_idx(a.1 .1, vars.len())].clone())
                            } else {
                                self.pred(a.1 .1)
                            }
                        } else {
                            self.pred(a.1 .1)
                        }
                    }
                };
                [so(&a.0), p, so(&a.2)]
            })
            .collect()
    }

    fn filters_for(&self, premise: &[Atom], r: &RawRule) -> Vec<FilterSpec> {
        if !self.cfg.filters {
            return vec![];
        }
        let mut all = BTreeSet::new();
        let mut in_pred = BTreeSet::new();
        for a in premise {
            for (i, t) in a.iter().enumerate() {
                if let T::V(x) = t {
                    all.insert(x.clone());
                    if i == 1 {
                        in_pred.insert(x.clone());
                    }
                }
            }
        }
        let so_only: Vec<String> = all.iter().filter(|x| !in_pred.contains(*x)).cloned().collect();
        let all: Vec<String> = all.into_iter().collect();
        let mut out = vec![];
        for (a, op, b, varvar) in &r.filters {
            if *varvar || !self.numeric {
                if all.len() >= 2 {
                    let x = pick_idx(*a, all.len());
                    let mut y = pick_idx(*b, all.len() - 1);
                    if y >= x {
                        y += 1;
                    }
                    out.push(FilterSpec { var: all[x].clone(), op: if op % 2 == 0 { "!=".into() } else { "=".into() }, value: all[y].clone() });
                }
            } else if !so_only.is_empty() && !self.meta {
                out.push(FilterSpec { var: so_only[pick_idx(*a, so_only.len())].clone(), op: OPS[*op as usize % 6].into(), value: THRESHOLDS[pick_idx(*b, THRESHOLDS.len())].into() });
            }
        }
        out
    }

    fn rule(&self, r: &RawRule) -> RuleSpec {
        let (x, y, z, w) = (v("X"), v("Y"), v("Z"), v("W"));
        let p = self.pred(r.sel[0]);
        let q = self.pred(r.sel[1]);
        let s = self.pred(r.sel[2]);
        let k = self.konst(r.sel[3]);
        let varp = self.cfg.var_predicates && !self.naf;
        let simple = |premise: Vec<Atom>, conclusion: Vec<Atom>| RuleSpec { premise, negative: vec![], filters: vec![], conclusion };
        // negated rule (only in negation programs)
        if self.naf && r.negated {
            let premise: Vec<Atom> = r.premise.iter().take(3).map(|a| [self.so_term(&a.0, r.nvars), self.pred(a.1 .1), self.so_term(&a.2, r.nvars)]).collect();
            let vars: Vec<String> = {
                let mut sset = BTreeSet::new();
                for a in &premise {
                    for t in a {
                        if let T::V(n) = t {
                            sset.insert(n.clone());
                        }
                    }
                }
                sset.into_iter().collect()
            };
            let so = |t: &RawTerm| -> T {
                if t.0 <= 7 && !vars.is_empty() {
                    T::V(vars[pick_idx(t.1, vars.len())].clone())
                } else {
                    self.konst(t.1)
                }
            };
            let negative: Vec<Atom> = r.neg.iter().map(|a| [so(&a.0), self.pred(a.1 .1), so(&a.2)]).collect();
            let head = if r.sel[0] < 40000 { "n" } else { "m" };
            let conclusion = self.conclusion_from(&premise, r, Some(head));
            let filters = self.filters_for(&premise, r);
            return RuleSpec { premise, negative, filters, conclusion };
        }
        let mut out = match r.kind {
            0 => simple(vec![[x.clone(), p.clone(), y.clone()], [y.clone(), p.clone(), z.clone()]], vec![[x.clone(), p.clone(), z.clone()]]),
            1 => simple(vec![[x.clone(), p.clone(), y.clone()]], vec![[y.clone(), p.clone(), x.clone()]]),
            2 => simple(vec![[x.clone(), p.clone(), y.clone()]], vec![[x.clone(), q.clone(), y.clone()]]),
            3 => simple(vec![[x.clone(), p.clone(), y.clone()], [y.clone(), q.clone(), z.clone()]], vec![[x.clone(), s.clone(), z.clone()]]),
            4 if varp && self.meta => simple(vec![[x.clone(), v("P"), y.clone()], [v("P"), c("sub"), v("Q")]], vec![[x.clone(), v("Q"), y.clone()]]),
            5 => simple(vec![[x.clone(), p.clone(), y.clone()], [y.clone(), q.clone(), z.clone()], [z.clone(), s.clone(), w.clone()]], vec![[x.clone(), p.clone(), w.clone()]]),
            6 => simple(vec![[x.clone(), p.clone(), x.clone()]], vec![[x.clone(), q.clone(), x.clone()]]),
            7 => simple(vec![[x.clone(), p.clone(), k.clone()]], vec![[k.clone(), q.clone(), x.clone()]]),
            8 => simple(vec![[x.clone(), p.clone(), y.clone()]], vec![[x.clone(), q.clone(), y.clone()], [y.clone(), s.clone(), x.clone()]]),
            9 if varp => simple(vec![[x.clone(), v("P"), y.clone()]], vec![[y.clone(), v("P"), x.clone()]]),
            10 => simple(vec![[x.clone(), p.clone(), y.clone()], [x.clone(), q.clone(), z.clone()]], vec![[y.clone(), s.clone(), z.clone()]]),
            _ => {
                let premise = self.random_premise(r);
                let conclusion = self.conclusion_from(&premise, r, None);
                simple(premise, conclusion)
            }
        };
        out.filters = self.filters_for(&out.premise, r);
        out
    }
}

fn build(raw: RawProgram, cfg: GenCfg) -> Program {
    let consts: Vec<&str> = POOLS[raw.pool][..raw.n_consts].to_vec();
    let mut preds: Vec<&str> = PREDS[..raw.n_preds].to_vec();
    let naf = cfg.negation && raw.naf;
    let meta = cfg.var_predicates && raw.meta && !naf;
    if meta {
        preds.push("sub");
    }
    let ctx = Ctx { consts, preds, numeric: raw.pool < 2, meta, naf, cfg };
    let mut facts: Vec<[String; 3]> = vec![];
    let mut seen = BTreeSet::new();
    for (i, (s, p, o, k)) in raw.facts.iter().enumerate() {
        let f: [String; 3] = if meta && (i < 2 || *k < 20) {
            // schema-level fact: predicate names as terms
            [PREDS[pick_idx(*s, raw.n_preds)].to_string(), "sub".to_string(), PREDS[pick_idx(*o, raw.n_preds)].to_string()]
        } else if naf && *k >= 236 {
            // an input fact over a head predicate of the negated rules
            [ctx.consts[pick_idx(*s, ctx.consts.len())].to_string(), if *p < 40000 { "n" } else { "m" }.to_string(), ctx.consts[pick_idx(*o, ctx.consts.len())].to_string()]
        } else {
            [ctx.consts[pick_idx(*s, ctx.consts.len())].to_string(), PREDS[pick_idx(*p, raw.n_preds)].to_string(), ctx.consts[pick_idx(*o, ctx.consts.len())].to_string()]
        };
        if seen.insert(f.clone()) {
            facts.push(f);
        }
    }
    let rules: Vec<RuleSpec> = raw.rules.iter().map(|r| ctx.rule(r)).collect();
    Program { facts, rules }
}

/// Programs of the C05 domain (see module documentation).
pub fn program_strategy(cfg: GenCfg) -> BoxedStrategy<Program> {
    (
        0usize..3,
        4usize..=6,
        3usize..=4,
        proptest::bool::weighted(0.3),
        proptest::bool::weighted(0.25),
        proptest::collection::vec((any::<u16>(), any::<u16>(), any::<u16>(), any::<u8>()), cfg.min_facts..=cfg.max_facts),
        proptest::collection::vec(raw_rule(cfg), 1..=cfg.max_rules),
    )
        .prop_map(move |(pool, n_consts, n_preds, meta, naf, facts, rules)| build(RawProgram { pool, n_consts, n_preds, meta, naf, facts, rules }, cfg))
        .boxed()
}

/// An UNSAFE variant of a rule with a negative premise: one variable of the negative premise is renamed to a
/// variable ("U") that no positive premise binds. None if the rule has no variable there.
pub fn make_unsafe(r: &RuleSpec, sel: u16) -> Option<RuleSpec> {
    let mut positions = vec![];
    for (i, a) in r.negative.iter().enumerate() {
        for (j, t) in a.iter().enumerate() {
            if matches!(t, T::V(_)) {
                positions.push((i, j));
            }
        }
    }
    if positions.is_empty() {
        // no variable: replace the subject of the first negative atom
        if r.negative.is_empty() {
            return None;
        }
        let mut out = r.clone();
        out.negative[0][0] = v("U");
        return Some(out);
    }
    let (i, j) = positions[pick_idx(sel, positions.len())];
    let mut out = r.clone();
    out.negative[i][j] = v("U");
    Some(out)
}

#[cfg(test)]
mod tests {
    use super::*;

    #[test]
    fn plain_numbers() {
        assert_eq!(plain_number("2"), Some(2.0));
        assert_eq!(plain_number("2.0"), Some(2.0));
        assert_eq!(plain_number("-3"), Some(-3.0));
        assert_eq!(plain_number("1.5"), Some(1.5));
        assert_eq!(plain_number("10"), Some(10.0));
        for bad in ["", "a", "p", "1e3", "inf", "nan", "+1", " 1", "1.", ".5", "sub", "-", "1.2.3"] {
            assert_eq!(plain_number(bad), None, "{bad}");
        }
    }

    #[test]
    fn generated_programs_are_safe_and_in_class() {
        use proptest::strategy::ValueTree;
        use proptest::test_runner::{Config, RngSeed, TestRunner};
        let mut runner = TestRunner::new(Config { rng_seed: RngSeed::Fixed(7), failure_persistence: None, ..Config::default() });
        let s = program_strategy(GenCfg::c05());
        for _ in 0..3000 {
            let p = s.new_tree(&mut runner).unwrap().current();
            assert!(!p.facts.is_empty());
            let set: BTreeSet<_> = p.facts.iter().collect();
            assert_eq!(set.len(), p.facts.len());
            for r in &p.rules {
                assert!(r.is_safe(), "{:?}", r);
                assert!(!r.premise.is_empty() && !r.conclusion.is_empty());
            }
            translate(&p).expect("translatable");
            if p.has_negation() {
                // negation class
                let mut body_preds = BTreeSet::new();
                for r in &p.rules {
                    assert!(!r.has_var_predicate_premise());
                    for a in r.premise.iter().chain(r.negative.iter()) {
                        if let T::C(x) = &a[1] {
                            body_preds.insert(x.clone());
                        }
                    }
                    for a in &r.conclusion {
                        assert!(matches!(a[1], T::C(_)));
                    }
                }
                for r in p.rules.iter().filter(|r| !r.negative.is_empty()) {
                    for a in &r.conclusion {
                        if let T::C(x) = &a[1] {
                            assert!(!body_preds.contains(x));
                        }
                    }
                }
            }
        }
    }
}
