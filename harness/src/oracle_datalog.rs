//! Datalog reference semantics over triples, written from the textbook definitions and never calling
//! engine code. Deliberately naive (nested loops, no indexes): obviously correct beats fast.
//!
//! * `least_model`       – T_P iteration from the input facts; records for each fact the round in which it
//!                         first appears (= minimal derivation height; input facts have round 0).
//! * `stratified_model`  – least model of the positive rules, then ONE application of the rules that carry
//!                         negative premises, negation evaluated against that positive closure.
//! * `widest_path`       – max over derivations of the min over the leaf weights (certain leaf = 1).
//! * `world_probabilities_enum` / `world_truth_tables` – possible-worlds semantics for independent
//!                         uncertain input facts (explicit enumeration / the same thing as a bitset fixpoint).
//!
//! Terms are `u32` ids chosen by the caller; `OProgram::num` says which ids denote numeric literals
//! (needed by numeric filters). A filter that would have to compare a non-numeric term is *undetermined*:
//! the oracle refuses to answer (`Err(Undetermined)`) rather than guess.

use std::collections::{BTreeMap, BTreeSet};

pub type Fact = (u32, u32, u32);

#[derive(Clone, Debug, PartialEq)]
pub enum OT {
    /// rule-local variable number (0..nvars)
    V(usize),
    C(u32),
}
pub type OAtom = [OT; 3];

#[derive(Clone, Copy, Debug, PartialEq)]
pub enum Cmp {
    Gt,
    Lt,
    Ge,
    Le,
    Eq,
    Ne,
}

#[derive(Clone, Debug)]
pub enum OFilter {
    /// numeric value of the term bound to `var`  `op`  `k`
    Num { var: usize, op: Cmp, k: f64 },
    /// term identity between two bound variables
    Var { a: usize, b: usize, equal: bool },
}

#[derive(Clone, Debug)]
pub struct ORule {
    pub nvars: usize,
    pub premise: Vec<OAtom>,
    pub negative: Vec<OAtom>,
    pub filters: Vec<OFilter>,
    pub conclusion: Vec<OAtom>,
}

#[derive(Clone, Debug, Default)]
pub struct OProgram {
    pub rules: Vec<ORule>,
    /// numeric value of the ids that are numeric literals
    pub num: BTreeMap<u32, f64>,
}

#[derive(Clone, Debug, PartialEq)]
pub enum Undetermined {
    /// a numeric filter met a term that is not a numeric literal
    NonNumericOperand(u32),
    /// a conclusion / negative premise / filter uses a variable that no positive premise binds
    UnboundVariable,
}

type Binding = Vec<Option<u32>>;

fn unify_term(t: &OT, v: u32, b: &mut Binding) -> bool {
    match t {
        OT::C(c) => *c == v,
        OT::V(i) => match b[*i] {
            Some(x) => x == v,
            None => {
                b[*i] = Some(v);
                true
            }
        },
    }
}

/// Extend `b` so that `atom` becomes `fact`; `b` is garbage when false is returned.
fn unify(atom: &OAtom, fact: Fact, b: &mut Binding) -> bool {
    unify_term(&atom[0], fact.0, b) && unify_term(&atom[1], fact.1, b) && unify_term(&atom[2], fact.2, b)
}

fn all_matches(premise: &[OAtom], facts: &BTreeSet<Fact>, b: Binding, out: &mut Vec<Binding>) {
    if premise.is_empty() {
        out.push(b);
        return;
    }
    for f in facts {
        let mut b2 = b.clone();
        if unify(&premise[0], *f, &mut b2) {
            all_matches(&premise[1..], facts, b2, out);
        }
    }
}

fn inst_term(t: &OT, b: &Binding) -> Result<u32, Undetermined> {
    match t {
        OT::C(c) => Ok(*c),
        OT::V(i) => b[*i].ok_or(Undetermined::UnboundVariable),
    }
}

fn instantiate(a: &OAtom, b: &Binding) -> Result<Fact, Undetermined> {
    Ok((inst_term(&a[0], b)?, inst_term(&a[1], b)?, inst_term(&a[2], b)?))
}

fn filters_hold(r: &ORule, b: &Binding, num: &BTreeMap<u32, f64>) -> Result<bool, Undetermined> {
    let mut ok = true;
    for f in &r.filters {
        match f {
            OFilter::Num { var, op, k } => {
                let id = b[*var].ok_or(Undetermined::UnboundVariable)?;
                let x = *num.get(&id).ok_or(Undetermined::NonNumericOperand(id))?;
                let holds = match op {
                    Cmp::Gt => x > *k,
                    Cmp::Lt => x < *k,
                    Cmp::Ge => x >= *k,
                    Cmp::Le => x <= *k,
                    Cmp::Eq => x == *k,
                    Cmp::Ne => x != *k,
                };
                ok &= holds;
            }
            OFilter::Var { a, b: bb, equal } => {
                let x = b[*a].ok_or(Undetermined::UnboundVariable)?;
                let y = b[*bb].ok_or(Undetermined::UnboundVariable)?;
                ok &= (x == y) == *equal;
            }
        }
    }
    Ok(ok)
}

/// One application of `rules` to `facts` (immediate consequences, not including `facts` themselves unless
/// re-derived). Negative premises are tested against `neg_against`.
pub fn consequences<'a>(
    rules: impl Iterator<Item = &'a ORule>,
    facts: &BTreeSet<Fact>,
    neg_against: &BTreeSet<Fact>,
    num: &BTreeMap<u32, f64>,
) -> Result<BTreeSet<Fact>, Undetermined> {
    let mut out = BTreeSet::new();
    for r in rules {
        if r.premise.is_empty() {
            continue;
        }
        let mut ms = vec![];
        all_matches(&r.premise, facts, vec![None; r.nvars], &mut ms);
        'm: for b in ms {
            if !filters_hold(r, &b, num)? {
                continue;
            }
            for n in &r.negative {
                if neg_against.contains(&instantiate(n, &b)?) {
                    continue 'm;
                }
            }
            for c in &r.conclusion {
                out.insert(instantiate(c, &b)?);
            }
        }
    }
    Ok(out)
}

/// Least model of the rules WITHOUT negative premises (rules with negative premises are ignored here).
/// Returns fact -> round of first appearance (input facts: 0).
pub fn least_model(p: &OProgram, facts: &BTreeSet<Fact>) -> Result<BTreeMap<Fact, u32>, Undetermined> {
    let mut round_of: BTreeMap<Fact, u32> = facts.iter().map(|f| (*f, 0)).collect();
    let mut cur: BTreeSet<Fact> = facts.clone();
    let empty = BTreeSet::new();
    let mut round = 0u32;
    loop {
        round += 1;
        let derived = consequences(p.rules.iter().filter(|r| r.negative.is_empty()), &cur, &empty, &p.num)?;
        let new: Vec<Fact> = derived.difference(&cur).copied().collect();
        if new.is_empty() {
            return Ok(round_of);
        }
        for f in new {
            round_of.insert(f, round);
            cur.insert(f);
        }
    }
}

/// Positive closure, then one application of the rules with negative premises (negation read against the
/// positive closure). This is the stratified model whenever no conclusion of a negated rule can feed any rule body.
pub fn stratified_model(p: &OProgram, facts: &BTreeSet<Fact>) -> Result<BTreeMap<Fact, u32>, Undetermined> {
    let mut m = least_model(p, facts)?;
    let closure: BTreeSet<Fact> = m.keys().copied().collect();
    let last = m.values().copied().max().unwrap_or(0);
    let extra = consequences(p.rules.iter().filter(|r| !r.negative.is_empty()), &closure, &closure, &p.num)?;
    for f in extra {
        m.entry(f).or_insert(last + 1);
    }
    Ok(m)
}

/// Widest-path value of every derivable fact: max over derivations of min over leaf weights. `weights` gives the
/// weight of every input fact (certain = 1.0); facts of weight 0 do not exist for derivation purposes.
/// Rules with negative premises are ignored.
pub fn widest_path(p: &OProgram, weights: &BTreeMap<Fact, f64>) -> Result<BTreeMap<Fact, f64>, Undetermined> {
    let mut val: BTreeMap<Fact, f64> = weights.iter().filter(|(_, w)| **w > 0.0).map(|(f, w)| (*f, *w)).collect();
    loop {
        let keys: BTreeSet<Fact> = val.keys().copied().collect();
        let mut changed = false;
        for r in p.rules.iter().filter(|r| r.negative.is_empty() && !r.premise.is_empty()) {
            let mut ms = vec![];
            all_matches(&r.premise, &keys, vec![None; r.nvars], &mut ms);
            for b in ms {
                if !filters_hold(r, &b, &p.num)? {
                    continue;
                }
                let mut v = 1.0f64;
                for a in &r.premise {
                    v = v.min(val[&instantiate(a, &b)?]);
                }
                for c in &r.conclusion {
                    let f = instantiate(c, &b)?;
                    let old = val.get(&f).copied().unwrap_or(0.0);
                    if v > old {
                        val.insert(f, v);
                        changed = true;
                    }
                }
            }
        }
        if !changed {
            return Ok(val);
        }
    }
}

// ---------------------------------------------------------------------------------------------
// possible worlds
// ---------------------------------------------------------------------------------------------

/// weight of world `w` (bit i set = uncertain fact i present)
pub fn world_weight(w: usize, probs: &[f64]) -> f64 {
    let mut x = 1.0;
    for (i, p) in probs.iter().enumerate() {
        x *= if w >> i & 1 == 1 { *p } else { 1.0 - *p };
    }
    x
}

/// P(f) = sum of the weights of the worlds (subsets of the uncertain facts) whose stratified model contains f.
/// Facts that hold in no world are absent from the result. Explicit enumeration: 2^n model computations.
pub fn world_probabilities_enum(p: &OProgram, certain: &BTreeSet<Fact>, uncertain: &[(Fact, f64)]) -> Result<BTreeMap<Fact, f64>, Undetermined> {
    let n = uncertain.len();
    assert!(n <= 16);
    let probs: Vec<f64> = uncertain.iter().map(|x| x.1).collect();
    let mut out: BTreeMap<Fact, f64> = BTreeMap::new();
    for w in 0..(1usize << n) {
        let mut facts = certain.clone();
        for (i, (f, _)) in uncertain.iter().enumerate() {
            if w >> i & 1 == 1 {
                facts.insert(*f);
            }
        }
        let weight = world_weight(w, &probs);
        for f in stratified_model(p, &facts)?.keys() {
            *out.entry(*f).or_insert(0.0) += weight;
        }
    }
    Ok(out)
}

/// Truth table over worlds as a bitset: bit w = "holds in world w".
#[derive(Clone, Debug, PartialEq, Eq)]
pub struct Bits(pub Vec<u64>);

impl Bits {
    fn words(n: usize) -> usize {
        ((1usize << n) + 63) / 64
    }
    pub fn zeros(n: usize) -> Bits {
        Bits(vec![0; Self::words(n)])
    }
    pub fn ones(n: usize) -> Bits {
        let mut b = Bits(vec![u64::MAX; Self::words(n)]);
        if n < 6 {
            b.0[0] = (1u64 << (1usize << n)) - 1;
        }
        b
    }
    /// worlds that contain uncertain fact i
    pub fn var(n: usize, i: usize) -> Bits {
        let mut b = Bits::zeros(n);
        for w in 0..(1usize << n) {
            if w >> i & 1 == 1 {
                b.0[w / 64] |= 1 << (w % 64);
            }
        }
        b
    }
    pub fn get(&self, w: usize) -> bool {
        self.0[w / 64] >> (w % 64) & 1 == 1
    }
    pub fn and(&self, o: &Bits) -> Bits {
        Bits(self.0.iter().zip(&o.0).map(|(a, b)| a & b).collect())
    }
    pub fn or(&self, o: &Bits) -> Bits {
        Bits(self.0.iter().zip(&o.0).map(|(a, b)| a | b).collect())
    }
    pub fn not(&self, n: usize) -> Bits {
        Bits(self.0.iter().map(|a| !a).collect()).and(&Bits::ones(n))
    }
    pub fn is_zero(&self) -> bool {
        self.0.iter().all(|x| *x == 0)
    }
    pub fn count(&self) -> u32 {
        self.0.iter().map(|x| x.count_ones()).sum()
    }
}

/// The same semantics as `world_probabilities_enum`, all worlds at once: tt(f) = set of worlds whose stratified
/// model contains f, computed as the least fixpoint of  tt(head) |= AND tt(premises)  followed by one pass of the
/// negated rules with  AND NOT tt(negated atom).  (T_P is applied pointwise per world, so this is the per-world
/// least model; `world_probabilities_enum` is used to cross-check it.)
pub fn world_truth_tables(p: &OProgram, certain: &BTreeSet<Fact>, uncertain: &[Fact]) -> Result<BTreeMap<Fact, Bits>, Undetermined> {
    let n = uncertain.len();
    assert!(n <= 16);
    let mut tt: BTreeMap<Fact, Bits> = BTreeMap::new();
    for (i, f) in uncertain.iter().enumerate() {
        tt.insert(*f, Bits::var(n, i));
    }
    for f in certain {
        tt.insert(*f, Bits::ones(n));
    }
    loop {
        let keys: BTreeSet<Fact> = tt.keys().copied().collect();
        let mut changed = false;
        for r in p.rules.iter().filter(|r| r.negative.is_empty() && !r.premise.is_empty()) {
            let mut ms = vec![];
            all_matches(&r.premise, &keys, vec![None; r.nvars], &mut ms);
            for b in ms {
                let mut t = Bits::ones(n);
                for a in &r.premise {
                    t = t.and(&tt[&instantiate(a, &b)?]);
                }
                if t.is_zero() {
                    continue;
                }
                if !filters_hold(r, &b, &p.num)? {
                    continue;
                }
                for c in &r.conclusion {
                    let f = instantiate(c, &b)?;
                    let old = tt.get(&f).cloned().unwrap_or_else(|| Bits::zeros(n));
                    let new = old.or(&t);
                    if new != old {
                        tt.insert(f, new);
                        changed = true;
                    }
                }
            }
        }
        if !changed {
            break;
        }
    }
    // one pass of the negated rules over the positive closure
    let closure = tt.clone();
    let keys: BTreeSet<Fact> = closure.keys().copied().collect();
    for r in p.rules.iter().filter(|r| !r.negative.is_empty() && !r.premise.is_empty()) {
        let mut ms = vec![];
        all_matches(&r.premise, &keys, vec![None; r.nvars], &mut ms);
        for b in ms {
            let mut t = Bits::ones(n);
            for a in &r.premise {
                t = t.and(&closure[&instantiate(a, &b)?]);
            }
            if t.is_zero() {
                continue;
            }
            if !filters_hold(r, &b, &p.num)? {
                continue;
            }
            for a in &r.negative {
                if let Some(x) = closure.get(&instantiate(a, &b)?) {
                    t = t.and(&x.not(n));
                }
            }
            if t.is_zero() {
                continue;
            }
            for c in &r.conclusion {
                let f = instantiate(c, &b)?;
                let old = tt.get(&f).cloned().unwrap_or_else(|| Bits::zeros(n));
                tt.insert(f, old.or(&t));
            }
        }
    }
    tt.retain(|_, b| !b.is_zero());
    Ok(tt)
}

/// probability of a truth table: explicit sum of world weights
pub fn tt_probability(b: &Bits, probs: &[f64]) -> f64 {
    let mut s = 0.0;
    for w in 0..(1usize << probs.len()) {
        if b.get(w) {
            s += world_weight(w, probs);
        }
    }
    s
}

/// Minimal worlds of a (monotone) truth table: worlds where it holds but removing any single member falsifies it.
pub fn minimal_worlds(b: &Bits, n: usize) -> Vec<usize> {
    let mut out = vec![];
    for w in 0..(1usize << n) {
        if b.get(w) && (0..n).all(|i| w >> i & 1 == 0 || !b.get(w & !(1 << i))) {
            out.push(w);
        }
    }
    out
}

#[cfg(test)]
mod tests {
    use super::*;
    use OT::*;

    fn set(v: &[Fact]) -> BTreeSet<Fact> {
        v.iter().copied().collect()
    }
    fn rule(nvars: usize, premise: Vec<OAtom>, conclusion: Vec<OAtom>) -> ORule {
        ORule { nvars, premise, negative: vec![], filters: vec![], conclusion }
    }
    // ids: entities 1..9, predicates 10..19
    const P: u32 = 10;
    const Q: u32 = 11;
    const SUB: u32 = 12;

    #[test]
    fn transitive_closure_with_heights() {
        // chain 1->2->3->4->5 ; path := edge ; path := path . path   (doubling: heights 1,2,3 not 1,2,3,4)
        let facts = set(&[(1, P, 2), (2, P, 3), (3, P, 4), (4, P, 5)]);
        let prog = OProgram {
            rules: vec![rule(2, vec![[V(0), C(P), V(1)]], vec![[V(0), C(Q), V(1)]]), rule(3, vec![[V(0), C(Q), V(1)], [V(1), C(Q), V(2)]], vec![[V(0), C(Q), V(2)]])],
            num: BTreeMap::new(),
        };
        let m = least_model(&prog, &facts).unwrap();
        assert_eq!(m.len(), 4 + 10);
        assert_eq!(m[&(1, P, 2)], 0);
        assert_eq!(m[&(1, Q, 2)], 1);
        assert_eq!(m[&(1, Q, 3)], 2);
        assert_eq!(m[&(1, Q, 4)], 3); // (1 q 2)+(2 q 4): both of height <= 2
        assert_eq!(m[&(1, Q, 5)], 3); // (1 q 3)+(3 q 5)
        assert!(!m.contains_key(&(2, Q, 1)));
    }

    #[test]
    fn repeated_variable_constant_and_variable_predicate() {
        let facts = set(&[(1, P, 1), (1, P, 2), (2, Q, 2), (P, SUB, Q), (3, SUB, 3)]);
        // self(X) : X p X -> X q 9
        let r1 = rule(1, vec![[V(0), C(P), V(0)]], vec![[V(0), C(Q), C(9)]]);
        // subproperty: X ?p Y, ?p sub ?q -> X ?q Y
        let r2 = rule(4, vec![[V(0), V(2), V(1)], [V(2), C(SUB), V(3)]], vec![[V(0), V(3), V(1)]]);
        // ?x ?x ?y never matches here; ?x sub ?x -> ?x p ?x
        let r3 = rule(1, vec![[V(0), C(SUB), V(0)]], vec![[V(0), C(P), V(0)]]);
        let prog = OProgram { rules: vec![r1, r2, r3], num: BTreeMap::new() };
        let m: BTreeSet<Fact> = least_model(&prog, &facts).unwrap().keys().copied().collect();
        let expect = set(&[
            (1, P, 1),
            (1, P, 2),
            (2, Q, 2),
            (P, SUB, Q),
            (3, SUB, 3),
            (1, Q, 9), // r1 on (1 p 1)
            (1, Q, 1), // r2: p sub q
            (1, Q, 2),
            (3, P, 3), // r3
            (3, Q, 9), // r1 on (3 p 3)
            (3, Q, 3), // r2 on (3 p 3)
        ]);
        assert_eq!(m, expect);
    }

    #[test]
    fn numeric_and_identity_filters() {
        let num: BTreeMap<u32, f64> = [(1, 1.0), (2, 2.0), (3, 3.0), (4, 2.0)].into_iter().collect();
        let facts = set(&[(1, P, 2), (2, P, 3), (3, P, 4), (4, P, 4)]);
        let mut r = rule(2, vec![[V(0), C(P), V(1)]], vec![[V(0), C(Q), V(1)]]);
        r.filters = vec![OFilter::Num { var: 1, op: Cmp::Ge, k: 2.0 }, OFilter::Var { a: 0, b: 1, equal: false }];
        let prog = OProgram { rules: vec![r], num };
        let m: BTreeSet<Fact> = least_model(&prog, &facts).unwrap().keys().copied().filter(|f| f.1 == Q).collect();
        // (1,2): 2>=2 ok ; (2,3) ok ; (3,4): value(4)=2 ok ; (4,4): identical -> filtered
        assert_eq!(m, set(&[(1, Q, 2), (2, Q, 3), (3, Q, 4)]));
        // non numeric operand -> undetermined
        let mut r = rule(2, vec![[V(0), C(P), V(1)]], vec![[V(0), C(Q), V(1)]]);
        r.filters = vec![OFilter::Num { var: 1, op: Cmp::Lt, k: 2.0 }];
        let prog = OProgram { rules: vec![r], num: BTreeMap::new() };
        assert!(matches!(least_model(&prog, &facts), Err(Undetermined::NonNumericOperand(_))));
    }

    #[test]
    fn stratified_negation() {
        // active(X), not blocked(X) -> effective(X); blocked derived by a positive rule
        let (act, blk, eff, src) = (10, 11, 12, 13);
        let facts = set(&[(1, act, 9), (2, act, 9), (2, src, 9)]);
        let pos = rule(1, vec![[V(0), C(src), C(9)]], vec![[V(0), C(blk), C(9)]]);
        let mut naf = rule(1, vec![[V(0), C(act), C(9)]], vec![[V(0), C(eff), C(9)]]);
        naf.negative = vec![[V(0), C(blk), C(9)]];
        let prog = OProgram { rules: vec![naf, pos], num: BTreeMap::new() };
        let m: BTreeSet<Fact> = stratified_model(&prog, &facts).unwrap().keys().copied().collect();
        assert!(m.contains(&(1, eff, 9)));
        assert!(!m.contains(&(2, eff, 9)));
        assert!(m.contains(&(2, blk, 9)));
        // least_model ignores the negated rule
        assert!(!least_model(&prog, &facts).unwrap().contains_key(&(1, eff, 9)));
    }

    #[test]
    fn widest_path_diamond_and_cycle() {
        // 1->2 (0.5), 1->3 (0.9), 3->2 (0.8), 2->4 (certain), 4->1 (0.3) ; reach = transitive closure
        let e = 10;
        let r = 11;
        let w: BTreeMap<Fact, f64> = [((1, e, 2), 0.5), ((1, e, 3), 0.9), ((3, e, 2), 0.8), ((2, e, 4), 1.0), ((4, e, 1), 0.3), ((5, e, 6), 0.0)].into_iter().collect();
        let prog = OProgram {
            rules: vec![rule(2, vec![[V(0), C(e), V(1)]], vec![[V(0), C(r), V(1)]]), rule(3, vec![[V(0), C(r), V(1)], [V(1), C(e), V(2)]], vec![[V(0), C(r), V(2)]])],
            num: BTreeMap::new(),
        };
        let v = widest_path(&prog, &w).unwrap();
        assert_eq!(v[&(1, r, 2)], 0.8); // via 3: min(0.9,0.8)
        assert_eq!(v[&(1, r, 4)], 0.8);
        assert_eq!(v[&(1, r, 1)], 0.3);
        assert_eq!(v[&(3, r, 3)], 0.3);
        assert!(!v.contains_key(&(5, r, 6)));
        assert!(!v.contains_key(&(5, e, 6)));
    }

    #[test]
    fn worlds_shared_seed_and_truth_tables_agree() {
        // README-style example: active(A) 0.8 ; knows(A,B) 0.6 ; knows(A,C) 0.5 ; active(X),knows(X,Y) -> social(X)
        let (act, kn, soc) = (10, 11, 12);
        let unc = vec![((1, act, 9), 0.8), ((1, kn, 2), 0.6), ((1, kn, 3), 0.5)];
        let prog = OProgram { rules: vec![rule(3, vec![[V(0), C(act), V(1)], [V(0), C(kn), V(2)]], vec![[V(0), C(soc), C(9)]])], num: BTreeMap::new() };
        let pr = world_probabilities_enum(&prog, &BTreeSet::new(), &unc).unwrap();
        assert!((pr[&(1, soc, 9)] - 0.64).abs() < 1e-12);
        assert!((pr[&(1, act, 9)] - 0.8).abs() < 1e-12);
        let facts: Vec<Fact> = unc.iter().map(|x| x.0).collect();
        let probs: Vec<f64> = unc.iter().map(|x| x.1).collect();
        let tt = world_truth_tables(&prog, &BTreeSet::new(), &facts).unwrap();
        assert_eq!(tt.len(), pr.len());
        for (f, b) in &tt {
            assert!((tt_probability(b, &probs) - pr[f]).abs() < 1e-12);
        }
        let mw = minimal_worlds(&tt[&(1, soc, 9)], 3);
        assert_eq!(mw, vec![0b011, 0b101]);
    }

    #[test]
    fn worlds_cycle_seed_also_derivable_and_negation() {
        // a<->b cycle with symmetric + transitive rules, seed (1 p 1) also derivable; NAF head n
        let (p, n) = (10, 11);
        let unc = vec![((1, p, 2), 0.5), ((2, p, 1), 0.25), ((1, p, 1), 0.5), ((3, p, 3), 0.75)];
        let certain = set(&[(2, p, 3)]);
        let trans = rule(3, vec![[V(0), C(p), V(1)], [V(1), C(p), V(2)]], vec![[V(0), C(p), V(2)]]);
        let mut naf = rule(2, vec![[V(0), C(p), V(1)]], vec![[V(0), C(n), V(1)]]);
        naf.negative = vec![[V(1), C(p), V(0)]];
        let prog = OProgram { rules: vec![trans, naf], num: BTreeMap::new() };
        let pr = world_probabilities_enum(&prog, &certain, &unc).unwrap();
        // (1 p 1) holds iff seed3 or (seed1 and seed2): 0.5 + 0.5*0.125
        assert!((pr[&(1, p, 1)] - (0.5 + 0.5 * 0.125)).abs() < 1e-12);
        // (2 n 3): (2 p 3) certain and not (3 p 2); (3 p 2) never derivable -> 1
        assert!((pr[&(2, n, 3)] - 1.0).abs() < 1e-12);
        // (1 n 2): (1 p 2) and not (2 p 1): 0.5*0.75
        assert!((pr[&(1, n, 2)] - 0.375).abs() < 1e-12);
        // (3 n 3): (3 p 3) and not (3 p 3) = never
        assert!(!pr.contains_key(&(3, n, 3)));
        let facts: Vec<Fact> = unc.iter().map(|x| x.0).collect();
        let probs: Vec<f64> = unc.iter().map(|x| x.1).collect();
        let tt = world_truth_tables(&prog, &certain, &facts).unwrap();
        let keys_a: Vec<_> = tt.keys().collect();
        let keys_b: Vec<_> = pr.keys().collect();
        assert_eq!(keys_a, keys_b);
        for (f, b) in &tt {
            assert!((tt_probability(b, &probs) - pr[f]).abs() < 1e-12, "{:?}", f);
        }
    }

    #[test]
    fn bits_small_n_masking() {
        for n in 0..8 {
            assert_eq!(Bits::ones(n).count(), 1 << n);
            assert_eq!(Bits::zeros(n).not(n), Bits::ones(n));
            for i in 0..n {
                assert_eq!(Bits::var(n, i).count(), 1 << (n - 1));
            }
        }
    }
}
