pub mod engine;
