pub mod engine;
pub mod sparql;
pub mod update;
pub mod oracle_datalog;
pub mod gen_datalog;
pub mod parse_oracle;
pub mod rt_oracle;
