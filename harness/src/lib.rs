pub mod engine;
pub mod sparql;
pub mod oracle_datalog;
pub mod gen_datalog;
