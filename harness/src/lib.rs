pub mod engine;
pub mod sparql;
pub mod update;
pub mod oracle_datalog;
pub mod gen_datalog;
pub mod parse_oracle;
pub mod rt_oracle;
pub mod req_oracle;
pub mod fuzzrun;

/// Body shared by the `pbt_cNN` libFuzzer targets: `$f` is the check's `fuzz_one(&[u8]) -> Vec<Failure>`.
/// A failure that is not an open known finding aborts the process (libFuzzer then writes the crash file).
#[macro_export]
macro_rules! pbt_fuzz_target {
    ($f:path, $id:literal) => {
        libfuzzer_sys::fuzz_target!(|data: &[u8]| {
            static INIT: std::sync::Once = std::sync::Once::new();
            INIT.call_once(|| kvh::engine::install_panic_hook());
            let fails = $f(data);
            if !fails.is_empty() {
                for f in &fails {
                    eprintln!("{} VIOLATION sig={} :: {}", $id, f.sig, f.detail.chars().take(600).collect::<String>());
                }
                std::process::abort();
            }
        });
    };
}
