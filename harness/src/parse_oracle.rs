//! C16 — totality oracle for the SPARQL / extension parsers (shared by the `c16` check binary and the
//! libFuzzer target `parse_total`).
//!
//! `check_total(input)` runs every public parser named in DESIGN.md C16 on `input` under `catch`:
//!   * a panic is a failure whose signature names the panic site (file, enclosing function, message kind);
//!   * for the whole-request parsers (`parse_combined_query`, `parse_combined_query_with_options(_, true)`,
//!     `parse_sparql_query`) acceptance must mean that the whole input was consumed: `Ok((rest, _))` with
//!     anything but whitespace / `#` comments in `rest` is a failure. (Checked on the unchanged tree: all three
//!     reject trailing input themselves — every `Ok` path is behind an `is_empty()` test of the remainder —
//!     so an `Ok` with a remainder is never "by design" for them. The clause-level parsers — rule, register,
//!     retrieve, model, window … — return their remainder to the caller by contract; nothing is asserted on it.)
//!   * `parse_combined_query` accepting implies `parse_combined_query_with_options(_, true)` accepts (the option
//!     only adds the legacy data aliases) and `parse_sparql_query` accepting implies `parse_combined_query`
//!     accepts with the same SELECT tree (documented: "the same grammar used by CombinedQuery").

use crate::engine::{catch, PanicSite};
use kolibrie::parser as kp;
use shared::query::SparqlOperation;
use std::collections::HashMap;
use std::sync::Mutex;

/// whitespace / `#`-comment skipper written from the SPARQL grammar (WS and comments up to end of line)
pub fn skip_ws_comments(mut s: &str) -> &str {
    loop {
        let t = s.trim_start_matches(|c: char| c.is_whitespace());
        if let Some(c) = t.strip_prefix('#') {
            match c.find(|ch| ch == '\n' || ch == '\r') {
                Some(p) => s = &c[p..],
                None => return "",
            }
        } else {
            return t;
        }
    }
}

static FN_INDEX: Mutex<Option<HashMap<String, Vec<(u32, String)>>>> = Mutex::new(None);

/// name of the function whose body contains `line` of `file` (source scan, cached) — keeps panic signatures
/// narrow (one per site) yet independent of line numbers
fn enclosing_fn(file: &str, line: u32) -> Option<String> {
    let mut g = FN_INDEX.lock().ok()?;
    let map = g.get_or_insert_with(HashMap::new);
    if !map.contains_key(file) {
        let mut v = vec![];
        let cands = [file.to_string(), format!("/repo/{file}"), format!("/repo/kolibrie/{file}")];
        let text = cands.iter().find_map(|p| std::fs::read_to_string(p).ok()).unwrap_or_default();
        for (i, l) in text.lines().enumerate() {
            let t = l.trim_start();
            let t = t.strip_prefix("pub(crate) ").or_else(|| t.strip_prefix("pub ")).unwrap_or(t);
            if let Some(r) = t.strip_prefix("fn ") {
                let name: String = r.chars().take_while(|c| c.is_alphanumeric() || *c == '_').collect();
                if !name.is_empty() {
                    v.push((i as u32 + 1, name));
                }
            }
        }
        map.insert(file.to_string(), v);
    }
    map.get(file).and_then(|v| v.iter().rev().find(|(l, _)| *l <= line).map(|(_, n)| n.clone()))
}

/// `panic@<repo-relative file>:<enclosing fn>:<message kind>`
pub fn panic_sig(site: &PanicSite) -> String {
    let kind_site = PanicSite { file: String::new(), line: 0, msg: site.msg.clone() };
    let kind = kind_site.sig();
    let mut kind = kind.strip_prefix("panic@:").unwrap_or(&kind).to_string();
    // the wording of std's slicing panics differs between toolchains (the check binary is built with stable, the
    // fuzz target with nightly): classify them instead of quoting them
    let m = &site.msg;
    if m.contains("char boundary") {
        kind = "str index not on a char boundary".into();
    } else if m.contains("when slicing") || m.contains("byte range") || m.contains("out of range for") || m.contains("out of bounds") || (m.contains("range") && m.contains("index")) {
        kind = "slice range out of order or out of bounds".into();
    }
    let rel = match site.file.rfind("/repo/") {
        Some(p) => &site.file[p + 6..],
        None => site.file.as_str(),
    };
    let f = enclosing_fn(&site.file, site.line).unwrap_or_else(|| "?".into());
    format!("panic@{rel}:{f}:{kind}")
}

#[derive(Default, Debug)]
pub struct TotalReport {
    pub failures: Vec<(String, String)>,
    /// names of the parsers that accepted the input
    pub accepted: Vec<&'static str>,
    /// some whole-request parser rejected the input after consuming at least one token
    pub rejected_after_progress: bool,
    pub parsers_run: u32,
}

fn clip(s: &str) -> String {
    let mut e = s.len().min(600);
    while !s.is_char_boundary(e) {
        e -= 1;
    }
    if e < s.len() {
        format!("{}…[{} bytes]", &s[..e], s.len())
    } else {
        s.to_string()
    }
}

/// the input starts (after whitespace/comments) with a keyword that opens a request, so a rejecting
/// whole-request parser has consumed at least one token before giving up
fn err_progress(input: &str) -> bool {
    let t = skip_ws_comments(input);
    const KW: [&str; 11] = ["PREFIX", "SELECT", "INSERT", "DELETE", "RULE", "REGISTER", "RETRIEVE", "MODEL", "NEURAL", "TRAIN", "ML.PREDICT"];
    KW.iter().any(|k| t.len() > k.len() && t.is_char_boundary(k.len()) && t[..k.len()].eq_ignore_ascii_case(k) && !t[k.len()..].starts_with(|c: char| c.is_alphanumeric() || c == '_'))
}

pub fn check_total_report(input: &str) -> TotalReport {
    let mut r = TotalReport::default();

    // ---- whole-request parsers: acceptance ==> complete consumption ----
    // outcome: Some(Some(debug of the sparql tree)) accepted, Some(None) rejected, None panicked
    let whole = |name: &'static str, r: &mut TotalReport, f: &dyn Fn() -> Result<(String, Option<String>), bool>| -> Option<Option<Option<String>>> {
        r.parsers_run += 1;
        match catch(f) {
            Err(site) => {
                r.failures.push((panic_sig(&site), format!("{name} panicked at {}:{}: {} — input {:?}", site.file, site.line, site.msg, clip(input))));
                None
            }
            Ok(Ok((rest, tree))) => {
                r.accepted.push(name);
                if !skip_ws_comments(&rest).is_empty() {
                    r.failures.push((format!("c16.total.accepted_with_remainder.{name}"), format!("{name} returned Ok but left {:?} unconsumed — input {:?}", clip(&rest), clip(input))));
                }
                Some(Some(tree))
            }
            Ok(Err(progress)) => {
                r.rejected_after_progress |= progress;
                Some(None)
            }
        }
    };
    let sel_dbg = |c: &shared::query::CombinedQuery| -> Option<String> {
        match &c.sparql {
            Some(SparqlOperation::Select(q)) if c.retrieve_clause.is_none() && c.register_clause.is_none() && c.rule.is_none() && c.ml_predict.is_none() && c.model_decls.is_empty() && c.neural_relation_decls.is_empty() && c.train_neural_relation_decls.is_empty() => Some(format!("{q:?}")),
            _ => None,
        }
    };
    let strict = whole("parse_combined_query", &mut r, &|| match kp::parse_combined_query(input) {
        Ok((rest, c)) => Ok((rest.to_string(), sel_dbg(&c))),
        Err(_) => Err(err_progress(input)),
    });
    let compat = whole("parse_combined_query_with_options", &mut r, &|| match kp::parse_combined_query_with_options(input, true) {
        Ok((rest, c)) => Ok((rest.to_string(), sel_dbg(&c))),
        Err(_) => Err(err_progress(input)),
    });
    let select = whole("parse_sparql_query", &mut r, &|| match kp::parse_sparql_query(input) {
        Ok((rest, q)) => Ok((rest.to_string(), Some(format!("{q:?}")))),
        Err(_) => Err(err_progress(input)),
    });
    if let (Some(Some(_)), Some(None)) = (&strict, &compat) {
        r.failures.push(("c16.total.alias_option_rejects_strict_request".into(), format!("parse_combined_query accepts but parse_combined_query_with_options(_, true) rejects — input {:?}", clip(input))));
    }
    if let (Some(Some(sel)), Some(st)) = (&select, &strict) {
        match st {
            None => r.failures.push(("c16.total.select_parser_accepts_combined_rejects".into(), format!("parse_sparql_query accepts but parse_combined_query rejects — input {:?}", clip(input)))),
            Some(t) if t != sel => r.failures.push(("c16.total.select_parser_tree_differs".into(), format!("parse_sparql_query and parse_combined_query build different SELECT trees: {:?} vs {:?} — input {:?}", sel, t, clip(input)))),
            _ => {}
        }
    }

    // ---- clause-level parsers: must return, whatever the input ----
    let part = |name: &'static str, r: &mut TotalReport, f: &dyn Fn() -> bool| {
        r.parsers_run += 1;
        match catch(f) {
            Err(site) => r.failures.push((panic_sig(&site), format!("{name} panicked at {}:{}: {} — input {:?}", site.file, site.line, site.msg, clip(input)))),
            Ok(true) => r.accepted.push(name),
            Ok(false) => {}
        }
    };
    part("parse_group_graph_pattern", &mut r, &|| kp::parse_group_graph_pattern(input).is_ok());
    part("parse_rule", &mut r, &|| kp::parse_rule(input).is_ok());
    part("parse_standalone_rule", &mut r, &|| kp::parse_standalone_rule(input).is_ok());
    part("parse_register_clause", &mut r, &|| kp::parse_register_clause(input).is_ok());
    part("parse_retrieve_clause", &mut r, &|| kp::parse_retrieve_clause(input).is_ok());
    part("parse_model_decl", &mut r, &|| kp::parse_model_decl(input).is_ok());
    part("parse_neural_relation_decl", &mut r, &|| kp::parse_neural_relation_decl(input).is_ok());
    part("parse_train_neural_relation_decl", &mut r, &|| kp::parse_train_neural_relation_decl(input).is_ok());
    part("parse_ml_predict", &mut r, &|| kp::parse_ml_predict(input).is_ok());
    part("parse_window_spec", &mut r, &|| kp::parse_window_spec(input).is_ok());
    part("parse_from_named_window", &mut r, &|| kp::parse_from_named_window(input).is_ok());

    // one root cause reached through several entry points is reported once
    let mut seen = std::collections::BTreeSet::new();
    r.failures.retain(|(s, _)| seen.insert(s.clone()));
    r
}

/// Totality oracle: `(signature, detail)` for every violation found on `input` (empty = held).
pub fn check_total(input: &str) -> Vec<(String, String)> {
    check_total_report(input).failures
}

/// Signatures of the open known findings of one property (read from `$KVH_ROOT|/verif/known_findings.json`).
pub fn open_known_sigs(property: &str) -> Vec<String> {
    let root = std::env::var("KVH_ROOT").unwrap_or_else(|_| "/verif".to_string());
    let Ok(text) = std::fs::read_to_string(format!("{root}/known_findings.json")) else { return vec![] };
    let Ok(v) = serde_json::from_str::<serde_json::Value>(&text) else { return vec![] };
    let mut out = vec![];
    for f in v.get("findings").and_then(|f| f.as_array()).cloned().unwrap_or_default() {
        if f.get("property").and_then(|p| p.as_str()) == Some(property) && f.get("status").and_then(|p| p.as_str()) == Some("open") {
            for s in f.get("sigs").and_then(|s| s.as_array()).cloned().unwrap_or_default() {
                if let Some(s) = s.as_str() {
                    out.push(s.to_string());
                }
            }
        }
    }
    out
}
