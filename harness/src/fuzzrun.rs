//! Running a libFuzzer campaign (cargo-fuzz, nightly) from a check binary and feeding its findings
//! back through the stable-toolchain oracle.

use std::path::{Path, PathBuf};
use std::process::Command;

pub struct Campaign {
    pub executed_units: u64,
    pub new_artifacts: Vec<PathBuf>,
    pub log_tail: String,
    pub ok: bool,
}

fn list(dir: &Path) -> Vec<PathBuf> {
    let mut v: Vec<PathBuf> = std::fs::read_dir(dir).map(|r| r.filter_map(|e| e.ok()).map(|e| e.path()).filter(|p| p.is_file()).collect()).unwrap_or_default();
    v.sort();
    v
}

/// Files of the committed seed corpus and of saved crash artifacts for a target.
pub fn saved_inputs(target: &str) -> Vec<PathBuf> {
    let mut v = list(Path::new(&format!("/verif/corpus/{target}")));
    v.extend(list(Path::new(&format!("/verif/fuzz/artifacts/{target}"))));
    v
}

/// `cargo +nightly fuzz run` on a fresh copy of the seed corpus. Fixed work: `runs` executions.
pub fn run(target: &str, runs: u64, seed: u64, max_len: u32, dict: Option<&str>) -> Campaign {
    let work = format!("/verif/fuzz/corpus-work/{target}");
    let _ = std::fs::remove_dir_all(&work);
    std::fs::create_dir_all(&work).ok();
    for f in list(Path::new(&format!("/verif/corpus/{target}"))) {
        if let Some(n) = f.file_name() {
            let _ = std::fs::copy(&f, Path::new(&work).join(n));
        }
    }
    let art_dir = format!("/verif/fuzz/artifacts/{target}");
    std::fs::create_dir_all(&art_dir).ok();
    let before: std::collections::BTreeSet<PathBuf> = list(Path::new(&art_dir)).into_iter().collect();
    let mut cmd = Command::new("cargo");
    cmd.current_dir("/verif/harness")
        .env("CARGO_NET_OFFLINE", "true")
        .env_remove("RUSTFLAGS")
        .args(["+nightly", "fuzz", "run", "--fuzz-dir", "/verif/fuzz", target, &work, "--"])
        .arg(format!("-runs={runs}"))
        .arg(format!("-seed={}", if seed == 0 { 1 } else { seed % 4_000_000_000 }))
        .arg(format!("-max_len={max_len}"))
        .arg("-len_control=0")
        .arg("-print_final_stats=1")
        .arg(format!("-artifact_prefix={art_dir}/"));
    if let Some(d) = dict {
        cmd.arg(format!("-dict={d}"));
    }
    let out = cmd.output();
    let (text, ok) = match out {
        Ok(o) => (format!("{}{}", String::from_utf8_lossy(&o.stdout), String::from_utf8_lossy(&o.stderr)), o.status.success()),
        Err(e) => (format!("could not start cargo fuzz: {e}"), false),
    };
    let executed = text
        .lines()
        .filter_map(|l| l.trim().strip_prefix("stat::number_of_executed_units:"))
        .filter_map(|v| v.trim().parse::<u64>().ok())
        .last()
        .unwrap_or(0);
    let new_artifacts: Vec<PathBuf> = list(Path::new(&art_dir)).into_iter().filter(|p| !before.contains(p)).collect();
    let tail: String = text.lines().rev().take(25).collect::<Vec<_>>().into_iter().rev().collect::<Vec<_>>().join("\n");
    Campaign { executed_units: executed, new_artifacts, log_tail: tail, ok }
}
