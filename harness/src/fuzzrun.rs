//! Running a libFuzzer campaign (cargo-fuzz, nightly) from a check binary and feeding its findings
//! back through the stable-toolchain oracle.

use std::path::{Path, PathBuf};
use std::process::Command;

pub struct Campaign {
    pub executed_units: u64,
    pub new_artifacts: Vec<PathBuf>,
    pub log_tail: String,
    pub ok: bool,
}

fn list(dir: &Path) -> Vec<PathBuf> {
    let mut v: Vec<PathBuf> = std::fs::read_dir(dir).map(|r| r.filter_map(|e| e.ok()).map(|e| e.path()).filter(|p| p.is_file()).collect()).unwrap_or_default();
    v.sort();
    v
}

/// Files of the committed seed corpus and of saved crash artifacts for a target.
pub fn saved_inputs(target: &str) -> Vec<PathBuf> {
    let mut v = list(Path::new(&format!("/verif/corpus/{target}")));
    v.extend(list(Path::new(&format!("/verif/fuzz/artifacts/{target}"))).into_iter().filter(|p| {
        let n = p.file_name().map(|n| n.to_string_lossy().to_string()).unwrap_or_default();
        !(n.starts_with("slow-unit-") || n.starts_with("timeout-") || n.starts_with("oom-"))
    }));
    v
}

/// Fixed work: `jobs` libFuzzer processes side by side, each `runs` executions on its own fresh copy of the seed
/// corpus with its own seed. `cargo fuzz run` holds the build-directory lock while the target runs, so the target is
/// built and located with one `-runs=0` pass through cargo and the jobs then execute that binary directly.
pub fn run(target: &str, runs: u64, seed: u64, max_len: u32, dict: Option<&str>) -> Campaign {
    run_jobs(target, runs, 6, seed, max_len, dict)
}

pub fn run_jobs(target: &str, runs: u64, jobs: u32, seed: u64, max_len: u32, dict: Option<&str>) -> Campaign {
    let work = format!("/verif/fuzz/corpus-work/{target}");
    let _ = std::fs::remove_dir_all(&work);
    let art_dir = format!("/verif/fuzz/artifacts/{target}");
    std::fs::create_dir_all(&art_dir).ok();
    let before: std::collections::BTreeSet<PathBuf> = list(Path::new(&art_dir)).into_iter().collect();
    let copy_corpus = |to: &str| {
        std::fs::create_dir_all(to).ok();
        let seeds = list(Path::new(&format!("/verif/corpus/{target}")));
        for f in &seeds {
            if let Some(n) = f.file_name() {
                let _ = std::fs::copy(f, Path::new(to).join(n));
            }
        }
        if seeds.is_empty() {
            // targets whose decoder is a proptest strategy: random byte strings of full length are valid, varied
            // inputs (libFuzzer grows inputs slowly from an empty corpus)
            let mut x = crate::engine::mix(seed, 0xC0FFEE);
            for i in 0..48u32 {
                let len = [256usize, 1024, 4096, max_len as usize][i as usize % 4].min(max_len as usize);
                let mut buf = Vec::with_capacity(len);
                while buf.len() < len {
                    x = crate::engine::mix(x, i as u64 + 1);
                    buf.extend_from_slice(&x.to_le_bytes());
                }
                buf.truncate(len);
                let _ = std::fs::write(Path::new(to).join(format!("rand-{i:02}")), &buf);
            }
        }
    };
    let flags = |dir: &str, runs: u64, seed: u64| -> Vec<String> {
        let mut v = vec![
            dir.to_string(),
            format!("-runs={runs}"),
            format!("-seed={}", if seed == 0 { 1 } else { seed % 4_000_000_000 }),
            format!("-max_len={max_len}"),
            "-len_control=0".to_string(),
            "-print_final_stats=1".to_string(),
            "-timeout=300".to_string(),
            "-report_slow_units=120".to_string(),
            format!("-artifact_prefix={art_dir}/"),
        ];
        if let Some(d) = dict {
            v.push(format!("-dict={d}"));
        }
        v
    };
    // build + locate the binary (seed corpus loaded once through the target)
    let probe_dir = format!("{work}/probe");
    copy_corpus(&probe_dir);
    let mut cmd = Command::new("cargo");
    let mut fl = flags(&probe_dir, 0, 1);
    let dir0 = fl.remove(0);
    cmd.current_dir("/verif/harness")
        .env("CARGO_NET_OFFLINE", "true")
        .env_remove("RUSTFLAGS")
        .env_remove("CARGO_TARGET_DIR")
        .args(["+nightly", "fuzz", "run", "--fuzz-dir", "/verif/fuzz", target, &dir0, "--"])
        .args(&fl);
    let (probe_text, probe_ok) = match cmd.output() {
        Ok(o) => (format!("{}{}", String::from_utf8_lossy(&o.stdout), String::from_utf8_lossy(&o.stderr)), o.status.success()),
        Err(e) => (format!("could not start cargo fuzz: {e}"), false),
    };
    let tail_of = |text: &str| text.lines().rev().take(25).collect::<Vec<_>>().into_iter().rev().collect::<Vec<_>>().join("\n");
    let units_of = |text: &str| text.lines().filter_map(|l| l.trim().strip_prefix("stat::number_of_executed_units:")).filter_map(|v| v.trim().parse::<u64>().ok()).last().unwrap_or(0);
    let binary = probe_text.lines().filter_map(|l| l.trim_start().strip_prefix("Running `")).filter_map(|p| p.split_whitespace().next().map(|x| x.trim_end_matches('`').to_string())).last();
    let mut executed = units_of(&probe_text);
    let Some(binary) = binary.filter(|_| probe_ok) else {
        let new_artifacts: Vec<PathBuf> = list(Path::new(&art_dir)).into_iter().filter(|p| !before.contains(p)).collect();
        return Campaign { executed_units: executed, new_artifacts, log_tail: tail_of(&probe_text), ok: false };
    };
    let mut children = vec![];
    for j in 0..jobs {
        let dir = format!("{work}/job{j}");
        copy_corpus(&dir);
        let Ok(logf) = std::fs::File::create(format!("{work}/job{j}.log")) else { continue };
        let mut c = Command::new(&binary);
        c.args(flags(&dir, runs, seed.wrapping_add(1).wrapping_add(j as u64 * 7919)))
            .current_dir("/verif/harness")
            .stdin(std::process::Stdio::null())
            .stdout(std::process::Stdio::null())
            .stderr(logf);
        if let Ok(ch) = c.spawn() {
            children.push((j, ch));
        }
    }
    let mut ok = !children.is_empty();
    let mut tail = String::new();
    for (j, mut ch) in children {
        let status = ch.wait();
        let text = std::fs::read(format!("{work}/job{j}.log")).map(|b| String::from_utf8_lossy(&b).to_string()).unwrap_or_default();
        let mut units = units_of(&text);
        if units == 0 {
            // the job died before printing its statistics: the last status line carries the count
            units = text.lines().rev().find_map(|l| l.strip_prefix('#').and_then(|r| r.split_whitespace().next()).and_then(|x| x.parse().ok())).unwrap_or(0);
        }
        executed += units;
        if !status.map(|s| s.success()).unwrap_or(false) {
            ok = false;
            tail = tail_of(&text);
        } else if tail.is_empty() {
            tail = tail_of(&text);
        }
    }
    let mut new_artifacts: Vec<PathBuf> = vec![];
    for p in list(Path::new(&art_dir)).into_iter().filter(|p| !before.contains(p)) {
        let name = p.file_name().map(|n| n.to_string_lossy().to_string()).unwrap_or_default();
        if name.starts_with("crash-") || name.starts_with("leak-") {
            new_artifacts.push(p);
        } else {
            // slow-unit-*, timeout-*, oom-*: resource reports of the fuzzer, never a verdict
            let _ = std::fs::remove_file(&p);
        }
    }
    Campaign { executed_units: executed, new_artifacts, log_tail: tail, ok }
}
