//! SPARQL Update fragment (the six supported forms): owned AST, printer, reference step semantics
//! over the lexical dataset model, generator. Used by C03 and C17.

use crate::engine::pick_idx;
use crate::sparql::*;
use proptest::prelude::*;
use serde::{Deserialize, Serialize};
use std::collections::{BTreeMap, BTreeSet};

#[derive(Clone, Debug, Serialize, Deserialize, PartialEq)]
pub enum TT {
    Var(String),
    C(Tm),
    BNode(String),
}

#[derive(Clone, Debug, Serialize, Deserialize, PartialEq)]
pub struct TplQuad {
    pub graph: Option<GName>,
    pub t: [TT; 3],
}

#[derive(Clone, Debug, Serialize, Deserialize, PartialEq)]
pub enum UpdOp {
    InsertData(Vec<TplQuad>),
    DeleteData(Vec<TplQuad>),
    /// INSERT-WHERE (delete empty), DELETE-WHERE (insert empty) or DELETE-INSERT-WHERE
    Modify { delete: Vec<TplQuad>, insert: Vec<TplQuad>, where_: Vec<Elem> },
    DeleteWhere(Vec<TplQuad>),
    /// text that must be rejected (Err) and leave the dataset unchanged
    Rejected(String),
}

pub struct UPrinter {
    pub use_prefix: bool,
}

impl UPrinter {
    fn tt(&self, t: &TT, pred: bool) -> String {
        match t {
            TT::Var(v) => format!("?{v}"),
            TT::BNode(b) => format!("_:{b}"),
            TT::C(Tm::Iri(i)) if pred && i == RDF_TYPE && self.use_prefix => "a".into(),
            TT::C(c) => c.sparql(self.use_prefix),
        }
    }
    pub fn quads(&self, qs: &[TplQuad]) -> String {
        let mut s = String::new();
        // keep the written order; consecutive quads of one graph share a GRAPH block
        let mut i = 0;
        while i < qs.len() {
            match &qs[i].graph {
                None => {
                    let q = &qs[i];
                    s.push_str(&format!("{} {} {} . ", self.tt(&q.t[0], false), self.tt(&q.t[1], true), self.tt(&q.t[2], false)));
                    i += 1;
                }
                Some(g) => {
                    let name = match g {
                        GName::Var(v) => format!("?{v}"),
                        GName::Iri(x) => Tm::Iri(x.clone()).sparql(self.use_prefix),
                    };
                    s.push_str(&format!("GRAPH {name} {{ "));
                    while i < qs.len() && qs[i].graph.as_ref() == Some(g) {
                        let q = &qs[i];
                        s.push_str(&format!("{} {} {} . ", self.tt(&q.t[0], false), self.tt(&q.t[1], true), self.tt(&q.t[2], false)));
                        i += 1;
                    }
                    s.push_str("} ");
                }
            }
        }
        s
    }
    pub fn op(&self, op: &UpdOp) -> String {
        let body = match op {
            UpdOp::InsertData(q) => format!("INSERT DATA {{ {}}}", self.quads(q)),
            UpdOp::DeleteData(q) => format!("DELETE DATA {{ {}}}", self.quads(q)),
            UpdOp::Modify { delete, insert, where_ } => {
                let w = Printer { use_prefix: self.use_prefix }.elems(where_);
                let mut s = String::new();
                if !delete.is_empty() || insert.is_empty() {
                    s.push_str(&format!("DELETE {{ {}}} ", self.quads(delete)));
                }
                if !insert.is_empty() {
                    s.push_str(&format!("INSERT {{ {}}} ", self.quads(insert)));
                }
                s.push_str(&format!("WHERE {{ {}}}", w));
                s
            }
            UpdOp::DeleteWhere(q) => format!("DELETE WHERE {{ {}}}", self.quads(q)),
            UpdOp::Rejected(t) => return t.clone(),
        };
        if self.use_prefix {
            format!("PREFIX e: <{NS}> {body}")
        } else {
            body
        }
    }
}

// ------------------------------------------------------------------------------------------
// reference semantics
// ------------------------------------------------------------------------------------------

pub type LQuad = (Option<String>, [String; 3]); // graph (None = default), triple

#[derive(Clone, Copy, PartialEq, Debug)]
pub enum LKind {
    Iri,
    BNode,
    Literal,
    /// an IRI without a scheme (`<rel0>`): the store keeps terms in one lexical space, so nothing in the term itself
    /// says that it is an IRI; it is known to be one wherever it already stands as a subject
    RelIri,
}

/// Term kind from the lexical form (the generated universe keeps kinds lexically disjoint).
pub fn lkind(v: &str) -> LKind {
    if v.starts_with("_:") {
        LKind::BNode
    } else if v.starts_with("http://") || v.starts_with("urn:") {
        LKind::Iri
    } else if v == "rel0" || v == "rel1" {
        LKind::RelIri
    } else {
        LKind::Literal
    }
}

#[derive(Clone, Debug, Default)]
pub struct StepEffect {
    pub delete: BTreeSet<LQuad>,
    /// insertions; blank nodes created by this step are written `_:#<solution>#<label>`
    pub insert: BTreeSet<LQuad>,
    pub solutions: usize,
    pub skipped_illegal: usize,
    pub skipped_unbound: usize,
    pub fresh_bnodes: usize,
    /// instantiations whose legality the lexical form does not decide (a scheme-less IRI in a position where the
    /// pre-operation dataset does not already show it): the step is not judged
    pub undecided_kind: usize,
}

fn inst(t: &TT, sol: &Sol, si: usize, insert: bool, fresh: &mut BTreeSet<String>) -> Option<String> {
    match t {
        TT::C(c) => Some(c.lex()),
        TT::Var(v) => sol.get(v).cloned(),
        TT::BNode(b) => {
            assert!(insert, "blank nodes are not generated in delete templates");
            let n = format!("_:#{si}#{b}");
            fresh.insert(n.clone());
            Some(n)
        }
    }
}

fn instantiate(tpl: &[TplQuad], sols: &[Sol], insert: bool, eff: &mut StepEffect, pre: &LexData) -> BTreeSet<LQuad> {
    let subject_in_pre = |t: &str| pre.default.iter().chain(pre.named.values().flatten()).any(|q| q[0] == t);
    let mut out = BTreeSet::new();
    let mut fresh = BTreeSet::new();
    for (si, sol) in sols.iter().enumerate() {
        for q in tpl {
            let s = inst(&q.t[0], sol, si, insert, &mut fresh);
            let p = inst(&q.t[1], sol, si, insert, &mut fresh);
            let o = inst(&q.t[2], sol, si, insert, &mut fresh);
            let g = match &q.graph {
                None => Some(None),
                Some(GName::Iri(i)) => Some(Some(i.clone())),
                Some(GName::Var(v)) => sol.get(v).cloned().map(Some),
            };
            let (Some(s), Some(p), Some(o), Some(g)) = (s, p, o, g) else {
                eff.skipped_unbound += 1;
                continue;
            };
            // a scheme-less IRI is certainly an IRI where the pre-operation dataset already has it as a subject; anywhere
            // else (never a subject before, or in predicate / graph position) its kind is not decidable from the store
            if (lkind(&s) == LKind::RelIri && !subject_in_pre(&s)) || lkind(&p) == LKind::RelIri || g.as_ref().map_or(false, |g| lkind(g) == LKind::RelIri) {
                eff.undecided_kind += 1;
                continue;
            }
            // positions that RDF does not allow are skipped (SPARQL Update: illegal triples are not produced)
            let legal = lkind(&s) != LKind::Literal && lkind(&p) == LKind::Iri && g.as_ref().map_or(true, |g| lkind(g) == LKind::Iri);
            if !legal {
                eff.skipped_illegal += 1;
                continue;
            }
            out.insert((g, [s, p, o]));
        }
    }
    eff.fresh_bnodes += fresh.len();
    out
}

fn tpl_to_elems(tpl: &[TplQuad]) -> Vec<Elem> {
    let conv = |t: &TT| match t {
        TT::Var(v) => PT::Var(v.clone()),
        TT::C(c) => PT::C(c.clone()),
        TT::BNode(_) => unreachable!("no blank nodes in DELETE WHERE"),
    };
    tpl.iter()
        .map(|q| {
            let bgp = Elem::Bgp(vec![[conv(&q.t[0]), conv(&q.t[1]), conv(&q.t[2])]]);
            match &q.graph {
                None => bgp,
                Some(g) => Elem::Graph(g.clone(), vec![bgp]),
            }
        })
        .collect()
}

/// Effect of one operation on the pre-state (None = evaluation left the supported fragment / is ambiguous).
pub fn step_effect(op: &UpdOp, pre: &LexData) -> Option<StepEffect> {
    let mut eff = StepEffect::default();
    let unit = vec![Sol::new()];
    match op {
        UpdOp::InsertData(q) => {
            eff.solutions = 1;
            eff.insert = instantiate(q, &unit, true, &mut eff, pre);
        }
        UpdOp::DeleteData(q) => {
            eff.solutions = 1;
            eff.delete = instantiate(q, &unit, false, &mut eff, pre);
        }
        UpdOp::Modify { delete, insert, where_ } => {
            let ctx = EvalCtx::new(pre, &[], &[]);
            let sols = eval_group(where_, &ctx, &Active::Default);
            if ctx.ambiguous.get() > 0 || ctx.out_of_fragment.get() > 0 {
                return None;
            }
            eff.solutions = sols.len();
            eff.delete = instantiate(delete, &sols, false, &mut eff, pre);
            eff.insert = instantiate(insert, &sols, true, &mut eff, pre);
        }
        UpdOp::DeleteWhere(tpl) => {
            let ctx = EvalCtx::new(pre, &[], &[]);
            let sols = eval_group(&tpl_to_elems(tpl), &ctx, &Active::Default);
            eff.solutions = sols.len();
            eff.delete = instantiate(tpl, &sols, false, &mut eff, pre);
        }
        UpdOp::Rejected(_) => {}
    }
    if eff.undecided_kind > 0 {
        return None;
    }
    Some(eff)
}

pub fn lex_quads(d: &LexData) -> BTreeSet<LQuad> {
    let mut s = BTreeSet::new();
    for t in &d.default {
        s.insert((None, t.clone()));
    }
    for (g, ts) in &d.named {
        for t in ts {
            s.insert((Some(g.clone()), t.clone()));
        }
    }
    s
}

/// Apply an effect: delete then insert; returns (post state, deleted count, inserted count).
pub fn apply_effect(pre: &LexData, eff: &StepEffect) -> (LexData, usize, usize) {
    let mut post = pre.clone();
    let mut deleted = 0;
    for (g, t) in &eff.delete {
        let removed = match g {
            None => post.default.remove(t),
            Some(g) => post.named.get_mut(g).map_or(false, |s| s.remove(t)),
        };
        deleted += removed as usize;
    }
    let mut inserted = 0;
    for (g, t) in &eff.insert {
        let added = match g {
            None => post.default.insert(t.clone()),
            Some(g) => post.named.entry(g.clone()).or_default().insert(t.clone()),
        };
        inserted += added as usize;
    }
    (post, deleted, inserted)
}

fn is_placeholder(v: &str) -> bool {
    v.starts_with("_:#")
}

/// Match the model's post-state (with placeholder blank nodes) against the engine's post-state up to an
/// injective renaming of the placeholders onto blank nodes that did not exist before the step.
/// On success returns the model state rewritten with the engine's names.
pub fn match_fresh_bnodes(model_post: &LexData, engine_post: &LexData, pre_terms: &BTreeSet<String>) -> Result<LexData, String> {
    let mq = lex_quads(model_post);
    let eq = lex_quads(engine_post);
    let has_ph = |q: &LQuad| q.1.iter().any(|x| is_placeholder(x));
    let m_ground: BTreeSet<LQuad> = mq.iter().filter(|q| !has_ph(q)).cloned().collect();
    let m_ph: Vec<LQuad> = mq.iter().filter(|q| has_ph(q)).cloned().collect();
    let missing: Vec<&LQuad> = m_ground.iter().filter(|q| !eq.contains(*q)).collect();
    let e_rest: Vec<LQuad> = eq.iter().filter(|q| !m_ground.contains(*q)).cloned().collect();
    if !missing.is_empty() {
        return Err(format!("quads missing from the store: {:?}; store-only quads: {:?}", missing, e_rest));
    }
    if m_ph.len() != e_rest.len() {
        return Err(format!("model expects {} quads with fresh blank nodes {:?}, store has {} unexplained quads {:?}", m_ph.len(), m_ph, e_rest.len(), e_rest));
    }
    // graph catalog must agree exactly
    let mg: BTreeSet<&String> = model_post.named.keys().collect();
    let eg: BTreeSet<&String> = engine_post.named.keys().collect();
    if mg != eg {
        return Err(format!("named graph catalog differs: expected {:?}, store has {:?}", mg, eg));
    }
    // backtracking bijection
    fn unify(m: &LQuad, e: &LQuad, map: &mut BTreeMap<String, String>, used: &mut BTreeSet<String>, pre_terms: &BTreeSet<String>) -> Option<Vec<String>> {
        if m.0 != e.0 {
            return None;
        }
        let mut added = vec![];
        for i in 0..3 {
            let (a, b) = (&m.1[i], &e.1[i]);
            if is_placeholder(a) {
                match map.get(a) {
                    Some(x) if x == b => {}
                    Some(_) => {
                        for k in &added {
                            let v = map.remove(k).unwrap();
                            used.remove(&v);
                        }
                        return None;
                    }
                    None => {
                        if used.contains(b) || !b.starts_with("_:") || pre_terms.contains(b) {
                            for k in &added {
                                let v = map.remove(k).unwrap();
                                used.remove(&v);
                            }
                            return None;
                        }
                        map.insert(a.clone(), b.clone());
                        used.insert(b.clone());
                        added.push(a.clone());
                    }
                }
            } else if a != b {
                for k in &added {
                    let v = map.remove(k).unwrap();
                    used.remove(&v);
                }
                return None;
            }
        }
        Some(added)
    }
    fn solve(i: usize, m_ph: &[LQuad], e_rest: &[LQuad], taken: &mut Vec<bool>, map: &mut BTreeMap<String, String>, used: &mut BTreeSet<String>, pre_terms: &BTreeSet<String>, budget: &mut u64) -> bool {
        if i == m_ph.len() {
            return true;
        }
        for j in 0..e_rest.len() {
            if taken[j] {
                continue;
            }
            if *budget == 0 {
                return false;
            }
            *budget -= 1;
            if let Some(added) = unify(&m_ph[i], &e_rest[j], map, used, pre_terms) {
                taken[j] = true;
                if solve(i + 1, m_ph, e_rest, taken, map, used, pre_terms, budget) {
                    return true;
                }
                taken[j] = false;
                for k in &added {
                    let v = map.remove(k).unwrap();
                    used.remove(&v);
                }
            }
        }
        false
    }
    let mut map = BTreeMap::new();
    let mut used = BTreeSet::new();
    let mut taken = vec![false; e_rest.len()];
    let mut budget = 2_000_000u64;
    if !solve(0, &m_ph, &e_rest, &mut taken, &mut map, &mut used, pre_terms, &mut budget) {
        if budget == 0 {
            return Err("BUDGET".into());
        }
        return Err(format!("no injective renaming of the step's fresh blank nodes explains the store: expected {:?}, store has {:?}", m_ph, e_rest));
    }
    // rewrite the model with the engine's names
    let ren = |x: &String| map.get(x).cloned().unwrap_or_else(|| x.clone());
    let mut out = LexData::default();
    for t in &model_post.default {
        out.default.insert([ren(&t[0]), ren(&t[1]), ren(&t[2])]);
    }
    for (g, ts) in &model_post.named {
        let e = out.named.entry(g.clone()).or_default();
        for t in ts {
            e.insert([ren(&t[0]), ren(&t[1]), ren(&t[2])]);
        }
    }
    Ok(out)
}

pub fn all_terms(d: &LexData) -> BTreeSet<String> {
    let mut s = BTreeSet::new();
    for (g, t) in lex_quads(d) {
        if let Some(g) = g {
            s.insert(g);
        }
        s.extend(t.iter().cloned());
    }
    s.extend(d.named.keys().cloned());
    s
}

// ------------------------------------------------------------------------------------------
// generator
// ------------------------------------------------------------------------------------------

#[derive(Clone, Debug)]
pub struct RawTplTerm {
    pub mode: u8, // 0..: var from WHERE, constant, bnode
    pub a: u16,
}

#[derive(Clone, Debug)]
pub struct RawTpl {
    pub copy_where: bool, // derive from a WHERE triple pattern (self-referential templates)
    pub swap: bool,
    pub sel: u16,
    pub graph_mode: u8, // 0 default, 1 iri, 2 var
    pub g: u16,
    pub t: [RawTplTerm; 3],
}

#[derive(Clone, Debug)]
pub enum RawOp {
    InsertData(Vec<(u8, u16, [u16; 3], bool)>), // (graph sel, _, spo sel, bnode object)
    DeleteData(Vec<(u8, u16, [u16; 3])>),
    Modify { delete: Vec<RawTpl>, insert: Vec<RawTpl>, where_: Vec<RawElem>, form: u8 },
    DeleteWhere(Vec<RawTpl>),
    Rejected(u8, u16),
}

fn raw_tpl_term() -> impl Strategy<Value = RawTplTerm> {
    (0u8..10, any::<u16>()).prop_map(|(mode, a)| RawTplTerm { mode, a })
}

fn raw_tpl() -> impl Strategy<Value = RawTpl> {
    (proptest::bool::weighted(0.45), proptest::bool::weighted(0.3), any::<u16>(), 0u8..6, any::<u16>(), raw_tpl_term(), raw_tpl_term(), raw_tpl_term())
        .prop_map(|(copy_where, swap, sel, graph_mode, g, a, b, c)| RawTpl { copy_where, swap, sel, graph_mode, g, t: [a, b, c] })
}

pub fn raw_op() -> impl Strategy<Value = RawOp> {
    prop_oneof![
        3 => proptest::collection::vec((0u8..6, any::<u16>(), [any::<u16>(), any::<u16>(), any::<u16>()], proptest::bool::weighted(0.15)), 1..=4).prop_map(RawOp::InsertData),
        2 => proptest::collection::vec((0u8..6, any::<u16>(), [any::<u16>(), any::<u16>(), any::<u16>()]), 1..=3).prop_map(RawOp::DeleteData),
        8 => (proptest::collection::vec(raw_tpl(), 0..=2), proptest::collection::vec(raw_tpl(), 0..=3), raw_elems(1, false), 0u8..3)
            .prop_map(|(delete, insert, where_, form)| RawOp::Modify { delete, insert, where_, form }),
        2 => proptest::collection::vec(raw_tpl(), 1..=2).prop_map(RawOp::DeleteWhere),
        2 => (0u8..12, any::<u16>()).prop_map(|(k, s)| RawOp::Rejected(k, s)),
    ]
}

fn where_triples(elems: &[Elem], out: &mut Vec<(Option<GName>, [PT; 3])>, g: Option<GName>) {
    for e in elems {
        match e {
            Elem::Bgp(ts) => {
                for t in ts {
                    out.push((g.clone(), t.clone()));
                }
            }
            Elem::Group(x) => where_triples(x, out, g.clone()),
            Elem::Union(bs) => {
                for b in bs {
                    where_triples(b, out, g.clone());
                }
            }
            Elem::Graph(n, x) => where_triples(x, out, Some(n.clone())),
            _ => {}
        }
    }
}

pub struct UBuilder<'d> {
    pub b: Builder<'d>,
}

impl<'d> UBuilder<'d> {
    pub fn new(d: &'d DataSet) -> Self {
        UBuilder { b: Builder::new(d) }
    }

    fn data_quad(&self, gsel: u8, spo: &[u16; 3]) -> (Option<String>, Triple3) {
        let pk = pred_kind(spo[1] as usize);
        let t = [Tm::Iri(format!("{NS}{}", subj_name(spo[0] as usize))), pred_tm(pk), obj_for(pk, spo[2] as usize)];
        let g = match gsel {
            0 | 1 | 2 => None,
            x => Some(GRAPHS[(x as usize - 3) % 3].to_string()),
        };
        (g, t)
    }

    fn tpl(&self, r: &RawTpl, vars: &[String], wts: &[(Option<GName>, [PT; 3])], insert: bool) -> TplQuad {
        let from_pt = |p: &PT| match p {
            PT::Var(v) => TT::Var(v.clone()),
            PT::C(c) => TT::C(c.clone()),
        };
        if r.copy_where && !wts.is_empty() {
            let (g, t) = &wts[pick_idx(r.sel, wts.len())];
            let mut tt = [from_pt(&t[0]), from_pt(&t[1]), from_pt(&t[2])];
            // swapping subject and object is only legal syntax when the object is not a literal constant
            if r.swap && !matches!(&tt[2], TT::C(Tm::Lit(_)) | TT::C(Tm::Num(_))) {
                tt.swap(0, 2);
            }
            // keep the graph of the pattern most of the time, otherwise move the quad elsewhere
            let graph = if r.graph_mode < 4 { g.clone() } else { self.tpl_graph(r, vars) };
            return TplQuad { graph, t: tt };
        }
        let term = |rt: &RawTplTerm, pos: usize| -> TT {
            let pk = pred_kind(rt.a as usize);
            match rt.mode {
                0..=4 if !vars.is_empty() => TT::Var(vars[pick_idx(rt.a, vars.len())].clone()),
                5 if insert && pos != 1 => TT::BNode(["b", "c"][rt.a as usize % 2].to_string()),
                _ => match pos {
                    0 => TT::C(Tm::Iri(format!("{NS}{}", subj_name(rt.a as usize)))),
                    1 => TT::C(pred_tm(pk)),
                    _ => TT::C(obj_for(pk, rt.a as usize / 7)),
                },
            }
        };
        TplQuad { graph: self.tpl_graph(r, vars), t: [term(&r.t[0], 0), term(&r.t[1], 1), term(&r.t[2], 2)] }
    }

    fn tpl_graph(&self, r: &RawTpl, vars: &[String]) -> Option<GName> {
        match r.graph_mode % 3 {
            0 => None,
            1 => Some(GName::Iri(GRAPHS[pick_idx(r.g, 4)].to_string())),
            _ if !vars.is_empty() => Some(GName::Var(vars[pick_idx(r.g, vars.len())].clone())),
            _ => None,
        }
    }

    pub fn op(&mut self, r: &RawOp) -> UpdOp {
        match r {
            RawOp::InsertData(qs) => UpdOp::InsertData(
                qs.iter()
                    .map(|(g, _, spo, bn)| {
                        let (g, t) = self.data_quad(*g, spo);
                        let o = if *bn { TT::BNode("n".into()) } else { TT::C(t[2].clone()) };
                        TplQuad { graph: g.map(GName::Iri), t: [TT::C(t[0].clone()), TT::C(t[1].clone()), o] }
                    })
                    .collect(),
            ),
            RawOp::DeleteData(qs) => UpdOp::DeleteData(
                qs.iter()
                    .map(|(g, sel, spo)| {
                        // mostly delete quads that exist: take them from the initial dataset
                        let pool: Vec<(Option<String>, &Triple3)> = self
                            .b_data()
                            .default
                            .iter()
                            .map(|t| (None, t))
                            .chain(self.b_data().named.iter().flat_map(|(g, ts)| ts.iter().map(move |t| (Some(g.clone()), t))))
                            .collect();
                        let (g, t) = if *g < 4 && !pool.is_empty() {
                            let (g, t) = &pool[pick_idx(*sel, pool.len())];
                            (g.clone(), (*t).clone())
                        } else {
                            self.data_quad(*g, spo)
                        };
                        TplQuad { graph: g.map(GName::Iri), t: [TT::C(t[0].clone()), TT::C(t[1].clone()), TT::C(t[2].clone())] }
                    })
                    .collect(),
            ),
            RawOp::Modify { delete, insert, where_, form } => {
                let w = self.b.elems(where_, &BTreeSet::new(), &Scope::Default);
                let mut all = vec![];
                collect_vars_elems(&w, &mut all);
                // BIND outputs are plain strings: never used where an IRI is required (kinds must stay lexically decidable)
                let vars: Vec<String> = all.into_iter().filter(|v| !v.starts_with('z')).collect();
                let mut wts = vec![];
                where_triples(&w, &mut wts, None);
                let mut d: Vec<TplQuad> = delete.iter().map(|t| self.tpl(t, &vars, &wts, false)).collect();
                let mut i: Vec<TplQuad> = insert.iter().map(|t| self.tpl(t, &vars, &wts, true)).collect();
                match form % 3 {
                    0 => d.clear(),
                    1 => i.clear(),
                    _ => {}
                }
                if d.is_empty() && i.is_empty() {
                    // keep the operation meaningful
                    if let Some(t) = insert.first().or(delete.first()) {
                        i.push(self.tpl(t, &vars, &wts, true));
                    }
                }
                UpdOp::Modify { delete: d, insert: i, where_: w }
            }
            RawOp::DeleteWhere(ts) => {
                let pool: Vec<(Option<String>, &Triple3)> = self
                    .b_data()
                    .default
                    .iter()
                    .map(|t| (None, t))
                    .chain(self.b_data().named.iter().flat_map(|(g, ts)| ts.iter().map(move |t| (Some(g.clone()), t))))
                    .collect();
                // A quarter of the blocks are GROUND (no variable at all): the block is still one conjunctive pattern, so it
                // deletes its quads only if every one of them is present. Up to three quads; each may be made absent.
                let ground = !pool.is_empty() && ts[0].graph_mode % 4 == 0;
                let mut ts: Vec<RawTpl> = ts.clone();
                if ground && ts.len() < 3 && ts[0].copy_where {
                    let mut extra = ts[0].clone();
                    extra.sel = extra.sel.rotate_left(7) ^ 0x5a5a;
                    ts.push(extra);
                }
                let qs = ts
                    .iter()
                    .enumerate()
                    .map(|(qi, r)| {
                        if pool.is_empty() {
                            return TplQuad { graph: None, t: [TT::Var("a".into()), TT::Var("b".into()), TT::Var("c".into())] };
                        }
                        let (g, t) = &pool[pick_idx(r.sel, pool.len())];
                        if ground {
                            let mut t: Triple3 = (*t).clone();
                            // every second quad after the first: probably absent (another object of the same kind)
                            if qi > 0 && r.swap {
                                t[2] = match &t[2] {
                                    Tm::Iri(_) => Tm::Iri(format!("{NS}o{}", r.g % 2)),
                                    Tm::Num(n) => Tm::Num(n + 40 + (r.g % 3) as i64),
                                    Tm::Lit(_) => Tm::Lit("absent".into()),
                                };
                            }
                            return TplQuad { graph: g.clone().map(GName::Iri), t: [TT::C(t[0].clone()), TT::C(t[1].clone()), TT::C(t[2].clone())] };
                        }
                        let lift = |i: usize, rt: &RawTplTerm| -> TT {
                            if rt.mode < 6 {
                                TT::Var(VARS[(rt.a as usize + i) % VARS.len()].to_string())
                            } else {
                                TT::C(t[i].clone())
                            }
                        };
                        let graph = match (g, r.graph_mode % 3) {
                            (None, _) => None,
                            (Some(g), 0) | (Some(g), 1) => Some(GName::Iri(g.clone())),
                            (Some(_), _) => Some(GName::Var("g".into())),
                        };
                        TplQuad { graph, t: [lift(0, &r.t[0]), lift(1, &r.t[1]), lift(2, &r.t[2])] }
                    })
                    .collect();
                UpdOp::DeleteWhere(qs)
            }
            RawOp::Rejected(k, s) => UpdOp::Rejected(rejected_text(*k, *s)),
        }
    }

    fn b_data(&self) -> &'d DataSet {
        self.b.data_ref()
    }
}

/// Requests that the strict update entry point must refuse (and that must not change the dataset).
pub fn rejected_text(k: u8, s: u16) -> String {
    let subj = format!("<{NS}{}>", subj_name(s as usize));
    match k % 12 {
        0 => format!("INSERT DATA {{ {subj} <{NS}p0> <{NS}o0> "), // unbalanced brace
        1 => format!("INSERT DATA {{ ?x <{NS}p0> <{NS}o0> }}"), // variable in DATA
        2 => format!("DELETE DATA {{ {subj} <{NS}p0> ?o }}"),
        3 => format!("DELETE DATA {{ _:b <{NS}p0> <{NS}o0> }}"), // bnode in DELETE DATA
        4 => format!("DELETE {{ _:b <{NS}p0> ?o }} WHERE {{ {subj} <{NS}p0> ?o }}"), // bnode in DELETE template
        5 => format!("INSERT DATA {{ GRAPH \"lit\" {{ {subj} <{NS}p0> <{NS}o0> }} }}"), // literal graph name
        6 => format!("INSERT DATA {{ {subj} <{NS}p0> <{NS}o0> }} garbage"), // trailing input
        7 => format!("INSERT {{ {subj} <{NS}p0> <{NS}o0> }}"), // legacy alias on the strict path
        8 => format!("DELETE {{ {subj} <{NS}p0> <{NS}o0> }}"),
        9 => format!("DELETE WHERE {{ _:b <{NS}p0> ?o }}"),
        10 => format!("SELECT * WHERE {{ ?s ?p ?o }}"), // a query on the update path
        _ => format!("INSERT DATA {{ {subj} <{NS}p0> }}"), // incomplete triple
    }
}
