//! C17 oracle shared by the proptest check (bin c17) and the libFuzzer target `request_total`:
//! all entry-point checks for one request text over one database state.

use crate::engine::*;
use crate::sparql::*;
use kolibrie::execute_query::{execute_query_rayon_parallel2_volcano, execute_sparql_query, execute_sparql_update};
use kolibrie::parser::parse_combined_query;
use kolibrie::sparql_database::SparqlDatabase;
use shared::query::SparqlOperation;

#[derive(Clone, Copy, PartialEq, Debug)]
pub enum Parsed {
    Rejected,
    Select,
    Update,
    Other, // accepted without a standard SPARQL operation (RULE / REGISTER / declarations only)
}

pub fn classify(text: &str) -> Result<Parsed, PanicSite> {
    catch(|| match parse_combined_query(text) {
        Ok((rest, c)) if rest.trim().is_empty() => match c.sparql {
            Some(SparqlOperation::Select(_)) => Parsed::Select,
            Some(SparqlOperation::Update(_)) => Parsed::Update,
            None => Parsed::Other,
        },
        _ => Parsed::Rejected,
    })
}

pub fn pct(s: &str) -> String {
    let mut o = String::new();
    for b in s.bytes() {
        if b.is_ascii_alphanumeric() || b"-_.~".contains(&b) {
            o.push(b as char);
        } else {
            o.push_str(&format!("%{:02X}", b));
        }
    }
    o
}

pub fn fresh_db(d: &DataSet) -> SparqlDatabase {
    let mut db = SparqlDatabase::new();
    load_into(&mut db, d);
    db
}

/// All entry-point checks for one request text over one database state.
pub fn check_text(o: &mut Outcome, data: &DataSet, text: &str, well_formed_select: bool, http: bool) {
    let parsed = match classify(text) {
        Ok(p) => p,
        Err(_) => {
            // parser totality is C16's subject; here the entry points decide
            Parsed::Rejected
        }
    };
    let snap0 = data.lexical();
    let show = |t: &str| -> String { t.chars().take(400).collect() };
    // ---- A. execute_sparql_query: never mutates, refuses updates, errors instead of crashing ----
    {
        let mut db = fresh_db(data);
        let r = catch(|| execute_sparql_query(text, &mut db));
        o.inner_evals += 1;
        match r {
            Err(site) => o.panic(&format!("execute_sparql_query({:?})", show(text)), &site),
            Ok(res) => {
                if snapshot(&db) != snap0 {
                    o.fail("c17.query_path.mutated", format!("execute_sparql_query changed the dataset; request: {:?}", show(text)));
                }
                match (parsed, &res) {
                    (Parsed::Update, Ok(_)) => o.fail("c17.query_path.update_accepted", format!("update syntax accepted on the query-only entry point: {:?}", show(text))),
                    (Parsed::Rejected, Ok(_)) => o.fail("c17.query_path.malformed_accepted", format!("request rejected by parse_combined_query but execute_sparql_query returned Ok: {:?}", show(text))),
                    (Parsed::Select, Err(e)) if well_formed_select => o.fail("c17.query_path.select_rejected", format!("well-formed SELECT of the supported fragment failed: {e}\n{:?}", show(text))),
                    _ => {}
                }
            }
        }
    }
    // ---- B. execute_sparql_update / SparqlDatabase::execute_update ----
    for which in 0..2 {
        let mut db = fresh_db(data);
        let r = catch(|| if which == 0 { execute_sparql_update(text, &mut db) } else { db.execute_update(text) });
        o.inner_evals += 1;
        let name = ["execute_sparql_update", "SparqlDatabase::execute_update"][which];
        match r {
            Err(site) => o.panic(&format!("{name}({:?})", show(text)), &site),
            Ok(Ok(_)) => {
                if parsed != Parsed::Update {
                    o.fail("c17.update_path.non_update_accepted", format!("{name} returned Ok for a request that is not a standard update ({:?}): {:?}", parsed, show(text)));
                }
            }
            Ok(Err(_)) => {
                if snapshot(&db) != snap0 {
                    o.fail("c17.update_path.err_mutated", format!("{name} returned Err but changed the dataset: {:?}", show(text)));
                }
            }
        }
    }
    // ---- C. handle_update adapter ----
    {
        let mut db = fresh_db(data);
        let r = catch(|| db.handle_update(text));
        o.inner_evals += 1;
        match r {
            Err(site) => o.panic(&format!("handle_update({:?})", show(text)), &site),
            Ok(msg) => {
                if msg == "Update Failed" && snapshot(&db) != snap0 {
                    o.fail("c17.handle_update.failed_mutated", format!("handle_update reported failure but changed the dataset: {:?}", show(text)));
                }
                if parsed == Parsed::Select && snapshot(&db) != snap0 {
                    o.fail("c17.select.mutated", format!("a SELECT sent to handle_update changed the dataset: {:?}", show(text)));
                }
            }
        }
    }
    // ---- D. legacy entry point: every SELECT leaves the data alone ----
    if parsed == Parsed::Select {
        let mut db = fresh_db(data);
        let r = catch(|| execute_query_rayon_parallel2_volcano(text, &mut db));
        o.inner_evals += 1;
        match r {
            Err(site) => o.panic(&format!("execute_query_rayon_parallel2_volcano({:?})", show(text)), &site),
            Ok(_) => {
                if snapshot(&db) != snap0 {
                    o.fail("c17.select.mutated", format!("a SELECT sent to execute_query_rayon_parallel2_volcano changed the dataset: {:?}", show(text)));
                }
            }
        }
    }
    // ---- E. HTTP adapters ----
    if http {
        let routes: Vec<(&str, String, bool)> = vec![
            ("GET ?query=", format!("GET /sparql?query={} HTTP/1.1\r\nHost: localhost\r\n\r\n", pct(text)), true),
            ("POST application/sparql-query", format!("POST /sparql HTTP/1.1\r\nHost: localhost\r\nContent-Type: application/sparql-query\r\n\r\n{}", text), true),
            ("POST form query=", format!("POST /sparql HTTP/1.1\r\nHost: localhost\r\nContent-Type: application/x-www-form-urlencoded\r\n\r\nquery={}", pct(text)), true),
            ("POST form update=", format!("POST /sparql HTTP/1.1\r\nHost: localhost\r\nContent-Type: application/x-www-form-urlencoded\r\n\r\nupdate={}", pct(text)), false),
            ("POST application/sparql-update", format!("POST /sparql HTTP/1.1\r\nHost: localhost\r\nContent-Type: application/sparql-update\r\n\r\n{}", text), false),
        ];
        for (name, req, query_route) in routes {
            let mut db = fresh_db(data);
            let r = catch(|| db.handle_http_request(&req));
            o.inner_evals += 1;
            match r {
                Err(site) => o.panic(&format!("handle_http_request[{name}]({:?})", show(text)), &site),
                Ok(resp) => {
                    let changed = snapshot(&db) != snap0;
                    if query_route && changed {
                        o.fail("c17.http.query_route_mutated", format!("HTTP query route {name} changed the dataset: {:?}", show(text)));
                    }
                    // the raw-body routes cut the body at the first blank line; only judge the response when the text went through whole
                    let whole = !text.contains("\r\n\r\n");
                    if query_route && whole && parsed == Parsed::Update && !resp.starts_with("Query Failed") {
                        o.fail("c17.http.query_route_update_accepted", format!("HTTP query route {name} did not refuse update syntax (response {:?}): {:?}", show(&resp), show(text)));
                    }
                    if !query_route && resp == "Update Failed" && changed {
                        o.fail("c17.http.update_failed_mutated", format!("HTTP update route {name} reported failure but changed the dataset: {:?}", show(text)));
                    }
                    if parsed == Parsed::Select && changed {
                        o.fail("c17.select.mutated", format!("a SELECT sent to HTTP route {name} changed the dataset: {:?}", show(text)));
                    }
                }
            }
        }
    }
    o.class(match parsed {
        Parsed::Rejected => "parsed:rejected",
        Parsed::Select => "parsed:select",
        Parsed::Update => "parsed:update",
        Parsed::Other => "parsed:extension-only",
    });
}

